(** C20 (extension, T1) — the definitions REGENERATED from the source (coq/gen/GenC20.v, compositions of the
    primitives of BenchNumpy.v) are equal to the hand-written model of Bench.v.  Proofs only. *)
From Coq Require Import String QArith List Bool Arith Lia Permutation.
From Leaspy Require Import Base.QAux Api.Bench Api.BenchProofs Api.BenchTie Api.BenchNumpy Api.BenchFit Api.BenchFitProofs.
From LeaspyGen Require Import GenC20.
Import ListNotations.

(* ==================================================================================== *)
(** * generic facts on [mapM] *)

Lemma mapM_ext_in {A B} (f g : A -> res B) l : (forall x, In x l -> f x = g x) -> mapM f l = mapM g l.
Proof.
  induction l as [|a l IH]; intros H; simpl; [reflexivity|].
  rewrite (H a) by now left. rewrite IH; [reflexivity|]. intros x Hx. apply H. now right.
Qed.

Lemma mapM_total {A B} (f : A -> B) l : mapM (fun a => Ok (f a)) l = Ok (map f l).
Proof. induction l as [|a l IH]; simpl; [reflexivity|]. now rewrite IH. Qed.

Lemma mapM_map {A B C} (f : B -> res C) (g : A -> B) l : mapM f (map g l) = mapM (fun a => f (g a)) l.
Proof. induction l as [|a l IH]; simpl; [reflexivity|]. now rewrite IH. Qed.

(** feeding the results of a first pass back by position = one fused pass *)
Lemma mapM_refeed {X Y} (g : nat -> res X) (F : nat -> X -> res Y) n : forall a ixs pre,
  mapM g (seq a n) = Ok ixs -> length pre = a ->
  mapM (fun j => rbind (np_row (pre ++ ixs) j) (F j)) (seq a n) = mapM (fun j => rbind (g j) (F j)) (seq a n).
Proof.
  induction n as [|n IH]; intros a ixs pre E Hp; simpl in *; [reflexivity|].
  destruct (g a) as [i|e] eqn:Ea; simpl in E; [|discriminate].
  destruct (mapM g (seq (S a) n)) as [ixs'|e] eqn:Er; simpl in E; [|discriminate].
  inversion E; subst ixs; clear E. simpl.
  unfold np_row at 1. rewrite nth_error_app2 by lia. replace (a - length pre)%nat with 0%nat by lia. simpl.
  replace (pre ++ i :: ixs') with ((pre ++ [i]) ++ ixs') by (now rewrite <- app_assoc).
  rewrite (IH (S a) ixs' (pre ++ [i]) Er); [reflexivity|]. rewrite app_length. simpl. lia.
Qed.

(* ==================================================================================== *)
(** * (a) _get_feature_values *)

Definition pmap {A B} (f : A -> B) (x : Q * A) : Q * B := (fst x, f (snd x)).

Lemma insert_desc_map {A B} (f : A -> B) r l :
  insert_desc (pmap f r) (map (pmap f) l) = map (pmap f) (insert_desc r l).
Proof.
  induction l as [|x l IH]; simpl; [reflexivity|].
  destruct (Qle_bool (fst x) (fst r)); simpl; [reflexivity|]. now rewrite IH.
Qed.

Lemma sort_desc_map {A B} (f : A -> B) l : sort_desc (map (pmap f) l) = map (pmap f) (sort_desc l).
Proof. induction l as [|r l IH]; simpl; [reflexivity|]. rewrite IH. apply insert_desc_map. Qed.

(** the rows tagged with their position *)
Fixpoint tagf {A} (a : nat) (t : list (Q * A)) : list (Q * (nat * A)) :=
  match t with
  | [] => []
  | r :: t' => (fst r, (a, snd r)) :: tagf (S a) t'
  end.

Lemma tagf_idx {A} (t : list (Q * A)) : forall a,
  map (pmap fst) (tagf a t) = combine (map fst t) (seq a (length t)).
Proof. induction t as [|r t IH]; intros a; simpl; [reflexivity|]. now rewrite IH. Qed.

Lemma tagf_val {A} (t : list (Q * A)) : forall a, map (pmap snd) (tagf a t) = t.
Proof. induction t as [|[q r] t IH]; intros a; simpl; [reflexivity|]. now rewrite IH. Qed.

Lemma tagf_nth {A} (t : list (Q * A)) : forall a x, In x (tagf a t) ->
  exists k, fst (snd x) = (a + k)%nat /\ nth_error (map snd t) k = Some (snd (snd x)).
Proof.
  induction t as [|r t IH]; intros a x H; simpl in H; [contradiction|].
  destruct H as [<-|H].
  - exists 0%nat. simpl. split; [lia|reflexivity].
  - destruct (IH (S a) x H) as [k [E N]]. exists (S k). simpl. split; [lia|exact N].
Qed.

(** what the index sort is, in terms of the row sort of the model *)
Lemma sorted_repr {A} (t : list (Q * A)) :
  exists S, py_sorted_range true (map fst t) = map (fun x => fst (snd x)) S /\
            sort_desc t = map (pmap snd) S /\
            forall x, In x S -> nth_error (map snd t) (fst (snd x)) = Some (snd (snd x)).
Proof.
  exists (sort_desc (tagf 0 t)). split; [|split].
  - unfold py_sorted_range. rewrite map_length, <- tagf_idx, sort_desc_map, map_map. reflexivity.
  - rewrite <- sort_desc_map, tagf_val. reflexivity.
  - intros x Hx. apply (proj1 (sort_desc_In _ _)) in Hx. destruct (tagf_nth t 0 x Hx) as [k [E N]]. simpl in E. now rewrite E.
Qed.

Lemma take_tagged {A} (V : list A) (S : list (Q * (nat * A))) :
  (forall x, In x S -> nth_error V (fst (snd x)) = Some (snd (snd x))) ->
  np_take V (map (fun x => fst (snd x)) S) = Ok (map (fun x => snd (snd x)) S).
Proof.
  unfold np_take. induction S as [|x S IH]; intros H; simpl; [reflexivity|].
  unfold np_row at 1. rewrite (H x) by now left. simpl. rewrite IH; [reflexivity|].
  intros y Hy. apply H. now right.
Qed.

(** [values[sorted(range(len(times)), key=times.__getitem__, reverse=True)]] = the rows sorted, greatest age first *)
Lemma take_sorted {A} (t : list (Q * A)) :
  np_take (map snd t) (py_sorted_range true (map fst t)) = Ok (map snd (sort_desc t)).
Proof.
  destruct (sorted_repr t) as [S [E1 [E2 H]]]. rewrite E1, E2, map_map. now apply take_tagged.
Qed.

Lemma first_sorted {A} (t : list (Q * A)) :
  rbind (py_index (py_sorted_range true (map fst t)) 0) (fun i => np_row (map snd t) i) = last_row t.
Proof.
  destruct (sorted_repr t) as [S [E1 [E2 H]]]. unfold last_row. rewrite E1, E2.
  destruct S as [|x S]; simpl; [reflexivity|].
  unfold np_row. rewrite (H x) by now left. reflexivity.
Qed.

Lemma np_present_snd (h : hist) : np_present (map snd h) = present_values h.
Proof. induction h as [|[t [x|]] h IH]; simpl; [reflexivity| |]; now rewrite IH. Qed.

Lemma np_nanmax1_snd (h : hist) : np_nanmax1 (map snd h) = max1 h.
Proof. unfold np_nanmax1, max1. rewrite np_present_snd. destruct h; reflexivity. Qed.

Lemma np_nanmean1_snd (h : hist) : np_nanmean1 (map snd h) = mean1 h.
Proof. unfold np_nanmean1, mean1. now rewrite np_present_snd. Qed.

Lemma vcolumn_snd j (t : table) : vcolumn j (map snd t) = rmap (map snd) (column j t).
Proof.
  unfold vcolumn, column. induction t as [|r t IH]; simpl; [reflexivity|].
  destruct (nth_error (snd r) j); simpl; [|reflexivity]. rewrite IH.
  destruct (mapM _ t); reflexivity.
Qed.

Lemma axis0_per_feature (f : list value -> res value) (g : hist -> res value) d (t : table) :
  (forall h, f (map snd h) = g h) -> np_axis0 d f (map snd t) = per_feature g d t.
Proof.
  intros H. unfold np_axis0, per_feature. apply mapM_ext_in. intros j _.
  rewrite vcolumn_snd. destruct (column j t); simpl; [apply H|reflexivity].
Qed.

Lemma vcolumn_ok d V j : Forall (fun row : list value => length row = d) V -> (j < d)%nat ->
  vcolumn j V = Ok (map (fun row => nth j row None) V).
Proof.
  intros W Hj. unfold vcolumn. induction W as [|row V Hr W IH]; simpl; [reflexivity|].
  destruct (nth_error row j) as [v|] eqn:E.
  - simpl. rewrite IH. simpl. do 2 f_equal. symmetry. now apply nth_error_nth.
  - apply nth_error_None in E. lia.
Qed.

Lemma notnan_present c : map negb (map np_isnan c) = map present c.
Proof. rewrite map_map. apply map_ext. now intros [x|]. Qed.

Lemma col_pmap j (t : table) : col j t = map (pmap (fun row : list value => nth j row None)) t.
Proof. reflexivity. Qed.

Definition lk1s (s : list value) : res value :=
  match nth_error s (argmax_first (map present s)) with Some v => Ok v | None => Err Shape end.

Lemma np_argmax1_ne b : b <> [] -> np_argmax1 b = Ok (argmax_first b).
Proof. destruct b; [congruence|reflexivity]. Qed.

Lemma map_ne {A B} (f : A -> B) l : l <> [] -> map f l <> [].
Proof. destruct l; [congruence|discriminate]. Qed.

Lemma lk_core d (Vs : list (list value)) :
  Forall (fun row : list value => length row = d) Vs -> Vs <> [] ->
  rbind (np_axis0 d (fun c => np_argmax1 (map negb (map np_isnan c))) Vs) (fun ix => np_pick d Vs ix)
  = mapM (fun j => lk1s (map (fun row => nth j row None) Vs)) (seq 0 d).
Proof.
  intros WV NE.
  set (g := fun j => rbind (vcolumn j Vs) (fun c => np_argmax1 (map negb (map np_isnan c)))).
  set (F := fun (j i : nat) => rbind (np_row Vs i) (fun row : list value =>
               match nth_error row j with Some v => Ok v | None => Err Ragged end)).
  assert (Hg : forall j, (j < d)%nat -> g j = Ok (argmax_first (map present (map (fun row => nth j row None) Vs)))).
  { intros j Hj. unfold g. rewrite (vcolumn_ok d) by assumption. simpl. rewrite notnan_present.
    apply np_argmax1_ne. now apply map_ne, map_ne. }
  assert (HF : forall j, (j < d)%nat -> forall i, F j i =
              match nth_error (map (fun row => nth j row None) Vs) i with Some v => Ok v | None => Err Shape end).
  { intros j Hj i. unfold F, np_row. rewrite nth_error_map. unfold value in *. destruct (nth_error Vs i) as [row|] eqn:En; simpl; [|reflexivity].
    assert (length row = d) by (rewrite Forall_forall in WV; apply WV; eapply nth_error_In; eassumption).
    destruct (nth_error row j) as [v|] eqn:Ej.
    - f_equal. symmetry. now apply nth_error_nth.
    - apply nth_error_None in Ej. lia. }
  assert (G : np_axis0 d (fun c => np_argmax1 (map negb (map np_isnan c))) Vs
              = Ok (map (fun j => argmax_first (map present (map (fun row => nth j row None) Vs))) (seq 0 d))).
  { unfold np_axis0. rewrite <- mapM_total. apply mapM_ext_in. intros j Hj. apply in_seq in Hj.
    apply (Hg j). lia. }
  rewrite G. simpl rbind. unfold np_pick.
  set (ix := map _ (seq 0 d)) in *.
  change (mapM (fun j => rbind (np_row ([] ++ ix) j) (F j)) (seq 0 d) = mapM (fun j => lk1s (map (fun row => nth j row None) Vs)) (seq 0 d)).
  rewrite (mapM_refeed g F d 0 ix [] G eq_refl).
  apply mapM_ext_in. intros j Hj. apply in_seq in Hj. rewrite (Hg j) by lia. simpl. rewrite (HF j) by lia. reflexivity.
Qed.

Lemma last_known_src d (t : table) : wf d t ->
  rbind (np_axis0 d (fun c => np_argmax1 (map negb (map np_isnan c))) (map snd (sort_desc t)))
        (fun ix => np_pick d (map snd (sort_desc t)) ix)
  = per_feature last_known1 d t.
Proof.
  intros W. destruct t as [|r0 t0].
  - (* empty history *) destruct d; reflexivity.
  - remember (r0 :: t0) as t eqn:Et. assert (Hne : t <> []) by (subst; discriminate). clear Et.
    assert (NE : map snd (sort_desc t) <> []).
    { apply map_ne. intros E. pose proof (sort_desc_perm t) as P. rewrite E in P. apply Permutation_nil in P. contradiction. }
    rewrite (lk_core d).
    + unfold per_feature. apply mapM_ext_in. intros j Hj. apply in_seq in Hj.
      rewrite (column_ok d) by (trivial; lia). cbn [rbind]. unfold last_known1.
      assert (Es : map snd (sort_desc (col j t)) = map (fun row => nth j row None) (map snd (sort_desc t))).
      { rewrite col_pmap, sort_desc_map, !map_map. reflexivity. }
      rewrite Es. destruct (map (fun row => nth j row None) (map snd (sort_desc t))) eqn:E0; [|reflexivity].
      exfalso. revert E0. now apply map_ne.
    + apply Forall_forall. intros row Hr. apply in_map_iff in Hr as [r [<- Hr]].
      apply (proj1 (sort_desc_In _ _)) in Hr. unfold wf in W. rewrite Forall_forall in W. now apply W.
    + exact NE.
Qed.

(** the regenerated [_get_feature_values] IS the model's [predict] (numpy arrays are rectangular: [wf]) *)
Theorem gen_feature_values_eq k d t : wf d t -> gen_feature_values k d t = predict k d t.
Proof.
  intros W. destruct k; unfold gen_feature_values, predict; cbv zeta.
  - apply first_sorted.
  - rewrite take_sorted. simpl rbind. now apply last_known_src.
  - apply axis0_per_feature, np_nanmax1_snd.
  - apply axis0_per_feature, np_nanmean1_snd.
Qed.

(** without any hypothesis for the three estimators that do not index by column *)
Theorem gen_feature_values_eq_any k d t : k <> LastKnown -> gen_feature_values k d t = predict k d t.
Proof.
  intros H. destruct k; unfold gen_feature_values, predict; cbv zeta; [apply first_sorted|congruence| |].
  - apply axis0_per_feature, np_nanmax1_snd.
  - apply axis0_per_feature, np_nanmean1_snd.
Qed.

Theorem gen_estimators d t : wf d t -> t <> [] ->
  (exists row, gen_feature_values Last d t = Ok row /\ is_last t row) /\
  (forall k P, (k = LastKnown /\ P = is_last_known) \/ (k = Max /\ P = is_max) \/ (k = Mean /\ P = is_mean) ->
     exists vs, gen_feature_values k d t = Ok vs /\ length vs = d /\
       forall j, (j < d)%nat -> exists v, nth_error vs j = Some v /\ P (col j t) v /\ (v = None <-> all_missing (col j t))).
Proof.
  intros W H. split.
  - rewrite gen_feature_values_eq by assumption. now apply predict_last.
  - intros k P [[-> ->]|[[-> ->]|[-> ->]]]; rewrite gen_feature_values_eq by assumption.
    + destruct (predict_last_known d t W H) as [vs [E [L N]]]. exists vs. split; [exact E|]. split; [exact L|].
      intros j Hj. destruct (N j Hj) as [v [Ev Pv]]. exists v. split; [exact Ev|]. split; [exact Pv|]. now apply is_last_known_none_iff.
    + destruct (predict_max d t W H) as [vs [E [L N]]]. exists vs. split; [exact E|]. split; [exact L|].
      intros j Hj. destruct (N j Hj) as [v [Ev Pv]]. exists v. split; [exact Ev|]. split; [exact Pv|]. now apply is_max_none_iff.
    + destruct (predict_mean d t W H) as [vs [E [L N]]]. exists vs. split; [exact E|]. split; [exact L|].
      intros j Hj. destruct (N j Hj) as [v [Ev Pv]]. exists v. split; [exact Ev|]. split; [exact Pv|]. now apply is_mean_none_iff.
Qed.

(** non-vacuity: the unit-test history (rows unsorted, one feature never observed) through the REGENERATED code *)
Example gen_feature_values_example :
  let t := [(31, [Some 1; Some (1#2); None]); (34, [None; Some 2; None]); (32, [Some 2; Some (1#2); None]); (33, [Some 3; None; None])] in
  wf 3 t /\ t <> [] /\
  gen_feature_values Last 3 t = Ok [None; Some 2; None] /\
  gen_feature_values LastKnown 3 t = Ok [Some 3; Some 2; None] /\
  gen_feature_values Max 3 t = Ok [Some 3; Some 2; None] /\
  gen_feature_values Mean 3 t = Ok [Some (6 # 3); Some (12 # 12); None].
Proof. cbv zeta. split; [repeat constructor|]. split; [discriminate|]. repeat split; vm_compute; reflexivity. Qed.

(* ==================================================================================== *)
(** * (b) ConstantModel.compute_individual_trajectory *)

Theorem gen_constant_trajectory_eq vals ages : gen_constant_trajectory vals ages = [trajectory vals ages].
Proof.
  unfold gen_constant_trajectory, trajectory, py_list_repeat. f_equal.
  induction ages as [|a ages IH]; simpl; [reflexivity|]. now rewrite IH.
Qed.

(* ==================================================================================== *)
(** * (c) LME personalisation *)

Open Scope Q_scope.

Lemma np_present_remove (obs : hist) : np_present (map snd obs) = map snd (remove_nans obs).
Proof. induction obs as [|[t [y|]] obs IH]; simpl; [reflexivity| |]; now rewrite IH. Qed.

Lemma np_compress_remove (obs : hist) :
  np_compress (map negb (map np_isnan (map snd obs))) (map fst obs) = map fst (remove_nans obs).
Proof. induction obs as [|[t [y|]] obs IH]; simpl; [reflexivity| |]; now rewrite IH. Qed.

Lemma normalise_src p ts : ~ ages_std p == 0 ->
  np_div_s ZeroScale (np_sub_s ts (ages_mean p)) (ages_std p) = Ok (map (normalise p) ts).
Proof.
  intros H. unfold np_div_s. destruct (Qeq_bool (ages_std p) 0) eqn:E.
  - apply Qeq_bool_iff in E. contradiction.
  - unfold np_sub_s. now rewrite map_map.
Qed.

Lemma normalise_src_zero p ts : ages_std p == 0 -> np_div_s ZeroScale (np_sub_s ts (ages_mean p)) (ages_std p) = Err ZeroScale.
Proof. intros H. unfold np_div_s. apply Qeq_bool_iff in H. now rewrite H. Qed.

Lemma add_constant_src p ts : ts <> [] -> sm_add_constant (map (normalise p) ts) = Ok (design p ts).
Proof. destruct ts; [congruence|]. intros _. unfold sm_add_constant, design. simpl. now rewrite map_map. Qed.

Lemma residuals_src p (o : list (Q * Q)) :
  np_vsub (map snd o) (np_matvec_n2 (design p (map fst o)) (fe0 p, fe1 p)) = residuals p o.
Proof.
  unfold np_vsub, np_matvec_n2, design, residuals. induction o as [|x o IH]; simpl; [reflexivity|]. f_equal. exact IH.
Qed.

Lemma dotQ_map_map (f g : Q * Q -> Q) Z : dotQ (map f Z) (map g Z) = sumQ (map (fun z => f z * g z) Z).
Proof. induction Z as [|z Z IH]; simpl; [reflexivity|]. now rewrite IH. Qed.

Lemma np_dot_T_2_ZtZ Z : np_dot_T_2 Z Z = ZtZ Z.
Proof. unfold np_dot_T_2, ZtZ. now rewrite !dotQ_map_map. Qed.

(** the regenerated [_generic_get_random_effects] (two columns) IS [blup2] (when the shapes agree; otherwise both fail) *)
Theorem gen_generic_re_2_eq r Z c : length Z = length r -> gen_generic_re_2 r Z c = blup2 Z r c.
Proof.
  intros L. unfold gen_generic_re_2, blup2, np_inv_2, np_add_kk_2, np_dot_Tv_2, np_dot_kk_k_2. cbv zeta.
  rewrite np_dot_T_2_ZtZ, L, Nat.eqb_refl. simpl negb. cbv iota.
  destruct (inv2 (madd (ZtZ Z) c)); reflexivity.
Qed.

Lemma res_Qeq_refl a : res_Qeq a a.
Proof. destruct a; simpl; reflexivity. Qed.
Lemma res_Qeq_sym a b : res_Qeq a b -> res_Qeq b a.
Proof. destruct a, b; simpl; auto. intros H. now symmetry. Qed.
Lemma res_Qeq_trans a b c : res_Qeq a b -> res_Qeq b c -> res_Qeq a c.
Proof. destruct a, b, c; simpl; try tauto; try congruence. intros H1 H2. now rewrite H1. Qed.

(** ... with one column it is [blup1] (the values are equal as rationals: [G * x] against [x / m]) *)
Theorem gen_generic_re_1_eq r Z c : length Z = length r -> res_Qeq (gen_generic_re_1 r Z c) (blup1 Z r c).
Proof.
  intros L. unfold gen_generic_re_1, blup1, np_inv_1, np_add_kk_1, np_dot_Tv_1, np_dot_kk_k_1, np_dot_T_1. cbv zeta.
  rewrite L, Nat.eqb_refl. simpl negb. cbv iota.
  destruct (Qeq_bool (dotQ Z Z + c) 0) eqn:E; simpl; [reflexivity|].
  apply Qeq_bool_neq in E. field. exact E.
Qed.

Theorem gen_intercept_re_eq r c : gen_intercept_re r (length r) c = intercept_re r c.
Proof. reflexivity. Qed.

(** the two code paths agree: the closed form of the random-intercept model IS the generic formula with Z = (1,...,1)' *)
Theorem gen_paths_agree r c :
  res_Qeq (gen_intercept_re r (length r) c) (gen_generic_re_1 r (repeat 1 (length r)) c).
Proof.
  rewrite gen_intercept_re_eq. eapply res_Qeq_trans; [apply intercept_special_case|].
  apply res_Qeq_sym, gen_generic_re_1_eq, repeat_length.
Qed.

Definition re_dict (s : bool) (b : Q * Q) : list (string * Q) :=
  if s then [("random_intercept"%string, fst b); ("random_slope_age"%string, snd b)] else [("random_intercept"%string, fst b)].

(** the regenerated personalisation IS [lme_personalize] (the dict of individual parameters it returns) *)
Theorem gen_lme_personalize_eq s p obs :
  gen_lme_personalize s p obs = rmap (re_dict s) (lme_personalize s p obs).
Proof.
  unfold gen_lme_personalize, lme_personalize. cbv zeta.
  rewrite np_present_remove, np_compress_remove.
  destruct (Qeq_bool (ages_std p) 0) eqn:E0.
  - apply Qeq_bool_iff in E0. rewrite (normalise_src_zero p _ E0). destruct s; reflexivity.
  - apply Qeq_bool_neq in E0. rewrite (normalise_src p _ E0). cbn [rbind].
    remember (remove_nans obs) as o0 eqn:Eo0. clear Eo0 obs.
    destruct o0 as [|x o']; [destruct s; reflexivity|]. cbv iota.
    remember (x :: o') as o eqn:Eo.
    assert (NE : map fst o <> []) by (subst o; discriminate). clear Eo x o'.
    rewrite (add_constant_src p _ NE). cbn [rbind]. rewrite residuals_src.
    destruct s.
    + pose proof (gen_generic_re_2_eq (residuals p o) (design p (map fst o)) (cov_inv p)) as G.
      unfold gen_generic_re_2 in G. cbv zeta in G.
      rewrite <- G by (unfold design, residuals; now rewrite !map_length).
      destruct (np_inv_2 _) as [G3|e]; cbn [rbind rmap]; [|reflexivity].
      destruct (np_dot_Tv_2 _ _) as [x4|e]; cbn [rbind rmap]; reflexivity.
    + assert (Lr : length (residuals p o) = length o) by (unfold residuals; apply map_length).
      unfold intercept_re, q_div. rewrite map_length, Lr.
      destruct (Qeq_bool _ 0); reflexivity.
Qed.

(* ==================================================================================== *)
(** * (e) LME trajectory *)

Theorem gen_lme_trajectory_eq s p ip a b ages :
  py_dict_get ip "random_intercept" = Ok a -> (s = true -> py_dict_get ip "random_slope_age" = Ok b) -> ages <> [] ->
  gen_lme_trajectory s p ip ages = lme_trajectory p (a, if s then b else 0) ages.
Proof.
  intros Ha Hb NE. unfold gen_lme_trajectory, lme_trajectory.
  destruct (Qeq_bool (ages_std p) 0) eqn:E0.
  - apply Qeq_bool_iff in E0. rewrite (normalise_src_zero p _ E0). destruct s; reflexivity.
  - apply Qeq_bool_neq in E0. rewrite (normalise_src p _ E0). cbn [rbind].
    rewrite (add_constant_src p _ NE). cbn [rbind]. rewrite Ha. cbn [rbind].
    destruct s.
    + rewrite (Hb eq_refl). cbn [rbind]. unfold np_matvec_n2, np_add_k_2, design. rewrite map_map. reflexivity.
    + unfold np_matvec_n2, np_add_k_2, design. rewrite map_map. reflexivity.
Qed.

(* ==================================================================================== *)
(** * (d) what the fit stores *)

Theorem gen_fit_store_2_eq ages f : gen_fit_store_2 ages f = lme_fit_store_2 ages f.
Proof. unfold gen_fit_store_2, lme_fit_store_2, np_inv_2. cbv zeta. destruct (inv2 _); reflexivity. Qed.

Theorem gen_fit_store_1_eq ages f : gen_fit_store_1 ages f = lme_fit_store_1 ages f.
Proof. unfold gen_fit_store_1, lme_fit_store_1, np_inv_1. cbv zeta. destruct (Qeq_bool _ 0); reflexivity. Qed.

Theorem gen_fit_table_eq : gen_fit_table = fit_table.
Proof. reflexivity. Qed.

(** the conditional means computed by the regenerated personalisation code from what the regenerated fit stored are
    the covariance form [D Z'(Z D Z' + I)^-1 r] with [D = cov_re / noise^2] *)
Theorem gen_fit_then_generic ages f s Z r b w :
  gen_fit_store_2 ages f = Accepted s -> gen_generic_re_2 r Z (st_cov_inv s) = Ok b -> length Z = length r ->
  let D := mscale2 (/ st_noise_var s) (st_cov_re s) in
  cov_system2 Z D w r -> fst (cov_form2 Z D w) == fst b /\ snd (cov_form2 Z D w) == snd b.
Proof.
  rewrite gen_fit_store_2_eq. intros Hf Hg L D S. rewrite gen_generic_re_2_eq in Hg by assumption.
  unfold lme_fit_store_2 in Hf. destruct (inv2 (sm_cov_re_unscaled_2 f)) as [ci|e] eqn:E; [|discriminate].
  inversion Hf; subst; clear Hf. cbn [st_cov_inv st_noise_var st_cov_re] in *.
  eapply cov_form2_eq_precision; eassumption.
Qed.

(** the same facts stated on the REGENERATED storing step *)
Theorem gen_fit_2_inverse ages f s :
  gen_fit_store_2 ages f = Accepted s ->
  let U := mscale2 (/ st_noise_var s) (st_cov_re s) in
  meq2 (mmul2 (st_cov_inv s) U) mid2 /\ meq2 (mmul2 U (st_cov_inv s)) mid2 /\
  st_fe s = sm_fe f /\ st_cov_re s = sm_cov_re f /\ st_noise_var s = sm_scale f /\
  st_ages_mean s = np_mean ages /\ st_ages_var s = np_var ages.
Proof. rewrite gen_fit_store_2_eq. apply fit_store_2_inverse. Qed.

Theorem gen_fit_2_refuses ages f :
  (det2 (sm_cov_re_unscaled_2 f) == 0 -> gen_fit_store_2 ages f = Refused) /\
  (~ sm_scale f == 0 -> det2 (sm_cov_re f) == 0 -> gen_fit_store_2 ages f = Refused) /\
  (~ det2 (sm_cov_re_unscaled_2 f) == 0 -> exists s, gen_fit_store_2 ages f = Accepted s).
Proof. rewrite gen_fit_store_2_eq. apply fit_store_2_refuses. Qed.

Theorem gen_fit_1_inverse ages f s :
  gen_fit_store_1 ages f = Accepted s ->
  let u := / st_noise_var s * st_cov_re s in
  st_cov_inv s * u == 1 /\ u * st_cov_inv s == 1 /\
  st_fe s = sm_fe f /\ st_cov_re s = sm_cov_re f /\ st_noise_var s = sm_scale f.
Proof. rewrite gen_fit_store_1_eq. apply fit_store_1_inverse. Qed.

Theorem gen_fit_1_refuses ages f :
  (sm_cov_re f == 0 -> gen_fit_store_1 ages f = Refused) /\
  (~ sm_cov_re_unscaled_1 f == 0 -> exists s, gen_fit_store_1 ages f = Accepted s).
Proof. rewrite gen_fit_store_1_eq. apply fit_store_1_refuses. Qed.

(* ==================================================================================== *)
(** * non-vacuity: the regenerated definitions evaluated on concrete inputs *)

Definition sx_params : lme_params := LmeParams 70 4 2 (1 # 2) (Mat2 2 (1 # 2) (1 # 2) 3).
Definition sx_obs : hist := [(74, Some 3); (66, None); (78, Some (7 # 2)); (70, Some 2)].

Example gen_lme_personalize_example :
  (exists a b, gen_lme_personalize true sx_params sx_obs = Ok [("random_intercept"%string, a); ("random_slope_age"%string, b)]
               /\ lme_personalize true sx_params sx_obs = Ok (a, b)) /\
  (exists a, gen_lme_personalize false sx_params sx_obs = Ok [("random_intercept"%string, a)] /\ a == 1 # 5) /\
  gen_lme_personalize true sx_params [(70, None)] = Err Empty /\
  gen_lme_personalize true (LmeParams 70 0 2 1 (Mat2 1 0 0 1)) sx_obs = Err ZeroScale.
Proof.
  split; [|split; [|split]].
  - rewrite gen_lme_personalize_eq. destruct (lme_personalize true sx_params sx_obs) as [[a b]|e] eqn:E; [|vm_compute in E; discriminate].
    exists a, b. split; reflexivity.
  - eexists. split; [vm_compute; reflexivity|vm_compute; reflexivity].
  - reflexivity.
  - reflexivity.
Qed.

Example gen_paths_agree_example :
  res_Qeq (gen_intercept_re [1; 2; -1 # 2] 3 2) (Ok (1 # 2)) /\
  res_Qeq (gen_generic_re_1 [1; 2; -1 # 2] [1; 1; 1] 2) (Ok (1 # 2)) /\
  gen_intercept_re [1] 1 (-1) = Err Singular /\ gen_generic_re_1 [1] [1] (-1) = Err Singular /\
  gen_generic_re_2 [1] [(1, 0); (1, 1)] (Mat2 1 0 0 1) = Err Shape.
Proof. repeat split; vm_compute; reflexivity. Qed.

Example gen_lme_trajectory_example :
  res_check (all2 Qeq_bool) (gen_lme_trajectory true sx_params [("random_intercept"%string, 1); ("random_slope_age"%string, 1 # 2)] [70; 74; 66])
            (Ok [3; 4; 2]) = true /\
  res_check (all2 Qeq_bool) (gen_lme_trajectory false sx_params [("random_intercept"%string, 1); ("random_slope_age"%string, 1 # 2)] [70; 74])
            (Ok [3; 7 # 2]) = true /\
  gen_lme_trajectory true sx_params [("random_intercept"%string, 1)] [70] = Err Shape.
Proof. repeat split; vm_compute; reflexivity. Qed.

(** an accepted fit, a refused one (zero variance of the random intercept; rank-one covariance), and the conditional means
    of an accepted fit in covariance form *)
Example gen_fit_example :
  (exists s, gen_fit_store_2 [68; 70; 72] (SmResult (2, 1 # 2) (Mat2 2 0 0 4) 2) = Accepted s /\ mat_close 0 (st_cov_inv s) (Mat2 1 0 0 (1 # 2)) = true
             /\ st_ages_mean s == 70 /\ st_ages_var s == 8 # 3) /\
  gen_fit_store_2 [68; 70] (SmResult (2, 1) (Mat2 0 0 0 0) 2) = Refused /\
  gen_fit_store_2 [68; 70] (SmResult (2, 1) (Mat2 1 2 2 4) 1) = Refused /\
  gen_fit_store_1 [68; 70] (SmResult (2, 1) 0 2) = Refused /\
  (exists s, gen_fit_store_1 [68; 70] (SmResult (2, 1) 3 2) = Accepted s /\ st_cov_inv s == 2 # 3).
Proof.
  split; [|split; [|split; [|split]]]; try reflexivity.
  - eexists. split; [reflexivity|]. split; [vm_compute; reflexivity|]. split; vm_compute; reflexivity.
  - eexists. split; [reflexivity|]. vm_compute. reflexivity.
Qed.

Example cov_form_example :
  let Z := [(1, 0); (1, 1)] in let D := Mat2 1 0 0 1 in
  cov_system2 Z D [1; 1] [3; 4] /\ inv2 D = Ok D /\ (exists b, blup2 Z [3; 4] D = Ok b /\ fst b == 2 /\ snd b == 1) /\ (fst (cov_form2 Z D [1; 1]) == 2 /\ snd (cov_form2 Z D [1; 1]) == 1) /\
  cov_system1 [1; 1] 2 [1; 1] [5; 5] /\ (exists b, blup1 [1; 1] [5; 5] (/ 2) = Ok b /\ b == 4) /\ cov_form1 [1; 1] 2 [1; 1] == 4.
Proof.
  cbv zeta. split; [|split; [|split; [|split; [|split; [|split]]]]].
  - split; [reflexivity|]. split; [reflexivity|]. repeat constructor; vm_compute; reflexivity.
  - vm_compute. reflexivity.
  - eexists. split; [vm_compute; reflexivity|]. split; vm_compute; reflexivity.
  - split; vm_compute; reflexivity.
  - split; [reflexivity|]. split; [reflexivity|]. repeat constructor; vm_compute; reflexivity.
  - eexists. split; [vm_compute; reflexivity|]. vm_compute. reflexivity.
  - vm_compute. reflexivity.
Qed.
