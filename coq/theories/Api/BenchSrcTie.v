(** C20 (extension, T1) — the definitions REGENERATED from the source (coq/gen/GenC20.v, compositions of the
    primitives of BenchNumpy.v) are equal to the hand-written model of Bench.v.  Proofs only. *)
From Coq Require Import String QArith List Bool Arith Lia Permutation.
From Leaspy Require Import Base.QAux Api.Bench Api.BenchProofs Api.BenchNumpy.
From LeaspyGen Require Import GenC20.
Import ListNotations.

(* ==================================================================================== *)
(** * generic facts on [mapM] *)

Lemma mapM_ext_in {A B} (f g : A -> res B) l : (forall x, In x l -> f x = g x) -> mapM f l = mapM g l.
Proof.
  induction l as [|a l IH]; intros H; simpl; [reflexivity|].
  rewrite (H a) by now left. rewrite IH; [reflexivity|]. intros x Hx. apply H. now right.
Qed.

Lemma mapM_total {A B} (f : A -> B) l : mapM (fun a => Ok (f a)) l = Ok (map f l).
Proof. induction l as [|a l IH]; simpl; [reflexivity|]. now rewrite IH. Qed.

Lemma mapM_map {A B C} (f : B -> res C) (g : A -> B) l : mapM f (map g l) = mapM (fun a => f (g a)) l.
Proof. induction l as [|a l IH]; simpl; [reflexivity|]. now rewrite IH. Qed.

(** feeding the results of a first pass back by position = one fused pass *)
Lemma mapM_refeed {X Y} (g : nat -> res X) (F : nat -> X -> res Y) n : forall a ixs pre,
  mapM g (seq a n) = Ok ixs -> length pre = a ->
  mapM (fun j => rbind (np_row (pre ++ ixs) j) (F j)) (seq a n) = mapM (fun j => rbind (g j) (F j)) (seq a n).
Proof.
  induction n as [|n IH]; intros a ixs pre E Hp; simpl in *; [reflexivity|].
  destruct (g a) as [i|e] eqn:Ea; simpl in E; [|discriminate].
  destruct (mapM g (seq (S a) n)) as [ixs'|e] eqn:Er; simpl in E; [|discriminate].
  inversion E; subst ixs; clear E. simpl.
  unfold np_row at 1. rewrite nth_error_app2 by lia. replace (a - length pre)%nat with 0%nat by lia. simpl.
  replace (pre ++ i :: ixs') with ((pre ++ [i]) ++ ixs') by (now rewrite <- app_assoc).
  rewrite (IH (S a) ixs' (pre ++ [i]) Er); [reflexivity|]. rewrite app_length. simpl. lia.
Qed.

(* ==================================================================================== *)
(** * (a) _get_feature_values *)

Definition pmap {A B} (f : A -> B) (x : Q * A) : Q * B := (fst x, f (snd x)).

Lemma insert_desc_map {A B} (f : A -> B) r l :
  insert_desc (pmap f r) (map (pmap f) l) = map (pmap f) (insert_desc r l).
Proof.
  induction l as [|x l IH]; simpl; [reflexivity|].
  destruct (Qle_bool (fst x) (fst r)); simpl; [reflexivity|]. now rewrite IH.
Qed.

Lemma sort_desc_map {A B} (f : A -> B) l : sort_desc (map (pmap f) l) = map (pmap f) (sort_desc l).
Proof. induction l as [|r l IH]; simpl; [reflexivity|]. rewrite IH. apply insert_desc_map. Qed.

(** the rows tagged with their position *)
Fixpoint tagf {A} (a : nat) (t : list (Q * A)) : list (Q * (nat * A)) :=
  match t with
  | [] => []
  | r :: t' => (fst r, (a, snd r)) :: tagf (S a) t'
  end.

Lemma tagf_idx {A} (t : list (Q * A)) : forall a,
  map (pmap fst) (tagf a t) = combine (map fst t) (seq a (length t)).
Proof. induction t as [|r t IH]; intros a; simpl; [reflexivity|]. now rewrite IH. Qed.

Lemma tagf_val {A} (t : list (Q * A)) : forall a, map (pmap snd) (tagf a t) = t.
Proof. induction t as [|[q r] t IH]; intros a; simpl; [reflexivity|]. now rewrite IH. Qed.

Lemma tagf_nth {A} (t : list (Q * A)) : forall a x, In x (tagf a t) ->
  exists k, fst (snd x) = (a + k)%nat /\ nth_error (map snd t) k = Some (snd (snd x)).
Proof.
  induction t as [|r t IH]; intros a x H; simpl in H; [contradiction|].
  destruct H as [<-|H].
  - exists 0%nat. simpl. split; [lia|reflexivity].
  - destruct (IH (S a) x H) as [k [E N]]. exists (S k). simpl. split; [lia|exact N].
Qed.

(** what the index sort is, in terms of the row sort of the model *)
Lemma sorted_repr {A} (t : list (Q * A)) :
  exists S, py_sorted_range true (map fst t) = map (fun x => fst (snd x)) S /\
            sort_desc t = map (pmap snd) S /\
            forall x, In x S -> nth_error (map snd t) (fst (snd x)) = Some (snd (snd x)).
Proof.
  exists (sort_desc (tagf 0 t)). split; [|split].
  - unfold py_sorted_range. rewrite map_length, <- tagf_idx, sort_desc_map, map_map. reflexivity.
  - rewrite <- sort_desc_map, tagf_val. reflexivity.
  - intros x Hx. apply (proj1 (sort_desc_In _ _)) in Hx. destruct (tagf_nth t 0 x Hx) as [k [E N]]. simpl in E. now rewrite E.
Qed.

Lemma take_tagged {A} (V : list A) (S : list (Q * (nat * A))) :
  (forall x, In x S -> nth_error V (fst (snd x)) = Some (snd (snd x))) ->
  np_take V (map (fun x => fst (snd x)) S) = Ok (map (fun x => snd (snd x)) S).
Proof.
  unfold np_take. induction S as [|x S IH]; intros H; simpl; [reflexivity|].
  unfold np_row at 1. rewrite (H x) by now left. simpl. rewrite IH; [reflexivity|].
  intros y Hy. apply H. now right.
Qed.

(** [values[sorted(range(len(times)), key=times.__getitem__, reverse=True)]] = the rows sorted, greatest age first *)
Lemma take_sorted {A} (t : list (Q * A)) :
  np_take (map snd t) (py_sorted_range true (map fst t)) = Ok (map snd (sort_desc t)).
Proof.
  destruct (sorted_repr t) as [S [E1 [E2 H]]]. rewrite E1, E2, map_map. now apply take_tagged.
Qed.

Lemma first_sorted {A} (t : list (Q * A)) :
  rbind (py_index (py_sorted_range true (map fst t)) 0) (fun i => np_row (map snd t) i) = last_row t.
Proof.
  destruct (sorted_repr t) as [S [E1 [E2 H]]]. unfold last_row. rewrite E1, E2.
  destruct S as [|x S]; simpl; [reflexivity|].
  unfold np_row. rewrite (H x) by now left. reflexivity.
Qed.

Lemma np_present_snd (h : hist) : np_present (map snd h) = present_values h.
Proof. induction h as [|[t [x|]] h IH]; simpl; [reflexivity| |]; now rewrite IH. Qed.

Lemma np_nanmax1_snd (h : hist) : np_nanmax1 (map snd h) = max1 h.
Proof. unfold np_nanmax1, max1. rewrite np_present_snd. destruct h; reflexivity. Qed.

Lemma np_nanmean1_snd (h : hist) : np_nanmean1 (map snd h) = mean1 h.
Proof. unfold np_nanmean1, mean1. now rewrite np_present_snd. Qed.

Lemma vcolumn_snd j (t : table) : vcolumn j (map snd t) = rmap (map snd) (column j t).
Proof.
  unfold vcolumn, column. induction t as [|r t IH]; simpl; [reflexivity|].
  destruct (nth_error (snd r) j); simpl; [|reflexivity]. rewrite IH.
  destruct (mapM _ t); reflexivity.
Qed.

Lemma axis0_per_feature (f : list value -> res value) (g : hist -> res value) d (t : table) :
  (forall h, f (map snd h) = g h) -> np_axis0 d f (map snd t) = per_feature g d t.
Proof.
  intros H. unfold np_axis0, per_feature. apply mapM_ext_in. intros j _.
  rewrite vcolumn_snd. destruct (column j t); simpl; [apply H|reflexivity].
Qed.

Lemma vcolumn_ok d V j : Forall (fun row : list value => length row = d) V -> (j < d)%nat ->
  vcolumn j V = Ok (map (fun row => nth j row None) V).
Proof.
  intros W Hj. unfold vcolumn. induction W as [|row V Hr W IH]; simpl; [reflexivity|].
  destruct (nth_error row j) as [v|] eqn:E.
  - simpl. rewrite IH. simpl. do 2 f_equal. symmetry. now apply nth_error_nth.
  - apply nth_error_None in E. lia.
Qed.

Lemma notnan_present c : map negb (map np_isnan c) = map present c.
Proof. rewrite map_map. apply map_ext. now intros [x|]. Qed.

Lemma col_pmap j (t : table) : col j t = map (pmap (fun row : list value => nth j row None)) t.
Proof. reflexivity. Qed.

Definition lk1s (s : list value) : res value :=
  match nth_error s (argmax_first (map present s)) with Some v => Ok v | None => Err Shape end.

Lemma np_argmax1_ne b : b <> [] -> np_argmax1 b = Ok (argmax_first b).
Proof. destruct b; [congruence|reflexivity]. Qed.

Lemma map_ne {A B} (f : A -> B) l : l <> [] -> map f l <> [].
Proof. destruct l; [congruence|discriminate]. Qed.

Lemma lk_core d (Vs : list (list value)) :
  Forall (fun row : list value => length row = d) Vs -> Vs <> [] ->
  rbind (np_axis0 d (fun c => np_argmax1 (map negb (map np_isnan c))) Vs) (fun ix => np_pick d Vs ix)
  = mapM (fun j => lk1s (map (fun row => nth j row None) Vs)) (seq 0 d).
Proof.
  intros WV NE.
  set (g := fun j => rbind (vcolumn j Vs) (fun c => np_argmax1 (map negb (map np_isnan c)))).
  set (F := fun (j i : nat) => rbind (np_row Vs i) (fun row : list value =>
               match nth_error row j with Some v => Ok v | None => Err Ragged end)).
  assert (Hg : forall j, (j < d)%nat -> g j = Ok (argmax_first (map present (map (fun row => nth j row None) Vs)))).
  { intros j Hj. unfold g. rewrite (vcolumn_ok d) by assumption. simpl. rewrite notnan_present.
    apply np_argmax1_ne. now apply map_ne, map_ne. }
  assert (HF : forall j, (j < d)%nat -> forall i, F j i =
              match nth_error (map (fun row => nth j row None) Vs) i with Some v => Ok v | None => Err Shape end).
  { intros j Hj i. unfold F, np_row. rewrite nth_error_map. unfold value in *. destruct (nth_error Vs i) as [row|] eqn:En; simpl; [|reflexivity].
    assert (length row = d) by (rewrite Forall_forall in WV; apply WV; eapply nth_error_In; eassumption).
    destruct (nth_error row j) as [v|] eqn:Ej.
    - f_equal. symmetry. now apply nth_error_nth.
    - apply nth_error_None in Ej. lia. }
  assert (G : np_axis0 d (fun c => np_argmax1 (map negb (map np_isnan c))) Vs
              = Ok (map (fun j => argmax_first (map present (map (fun row => nth j row None) Vs))) (seq 0 d))).
  { unfold np_axis0. rewrite <- mapM_total. apply mapM_ext_in. intros j Hj. apply in_seq in Hj.
    apply (Hg j). lia. }
  rewrite G. simpl rbind. unfold np_pick.
  set (ix := map _ (seq 0 d)) in *.
  change (mapM (fun j => rbind (np_row ([] ++ ix) j) (F j)) (seq 0 d) = mapM (fun j => lk1s (map (fun row => nth j row None) Vs)) (seq 0 d)).
  rewrite (mapM_refeed g F d 0 ix [] G eq_refl).
  apply mapM_ext_in. intros j Hj. apply in_seq in Hj. rewrite (Hg j) by lia. simpl. rewrite (HF j) by lia. reflexivity.
Qed.

Lemma last_known_src d (t : table) : wf d t ->
  rbind (np_axis0 d (fun c => np_argmax1 (map negb (map np_isnan c))) (map snd (sort_desc t)))
        (fun ix => np_pick d (map snd (sort_desc t)) ix)
  = per_feature last_known1 d t.
Proof.
  intros W. destruct t as [|r0 t0].
  - (* empty history *) destruct d; reflexivity.
  - remember (r0 :: t0) as t eqn:Et. assert (Hne : t <> []) by (subst; discriminate). clear Et.
    assert (NE : map snd (sort_desc t) <> []).
    { apply map_ne. intros E. pose proof (sort_desc_perm t) as P. rewrite E in P. apply Permutation_nil in P. contradiction. }
    rewrite (lk_core d).
    + unfold per_feature. apply mapM_ext_in. intros j Hj. apply in_seq in Hj.
      rewrite (column_ok d) by (trivial; lia). cbn [rbind]. unfold last_known1.
      assert (Es : map snd (sort_desc (col j t)) = map (fun row => nth j row None) (map snd (sort_desc t))).
      { rewrite col_pmap, sort_desc_map, !map_map. reflexivity. }
      rewrite Es. destruct (map (fun row => nth j row None) (map snd (sort_desc t))) eqn:E0; [|reflexivity].
      exfalso. revert E0. now apply map_ne.
    + apply Forall_forall. intros row Hr. apply in_map_iff in Hr as [r [<- Hr]].
      apply (proj1 (sort_desc_In _ _)) in Hr. unfold wf in W. rewrite Forall_forall in W. now apply W.
    + exact NE.
Qed.

(** the regenerated [_get_feature_values] IS the model's [predict] (numpy arrays are rectangular: [wf]) *)
Theorem gen_feature_values_eq k d t : wf d t -> gen_feature_values k d t = predict k d t.
Proof.
  intros W. destruct k; unfold gen_feature_values, predict; cbv zeta.
  - apply first_sorted.
  - rewrite take_sorted. simpl rbind. now apply last_known_src.
  - apply axis0_per_feature, np_nanmax1_snd.
  - apply axis0_per_feature, np_nanmean1_snd.
Qed.

(** without any hypothesis for the three estimators that do not index by column *)
Theorem gen_feature_values_eq_any k d t : k <> LastKnown -> gen_feature_values k d t = predict k d t.
Proof.
  intros H. destruct k; unfold gen_feature_values, predict; cbv zeta; [apply first_sorted|congruence| |].
  - apply axis0_per_feature, np_nanmax1_snd.
  - apply axis0_per_feature, np_nanmean1_snd.
Qed.

Theorem gen_estimators d t : wf d t -> t <> [] ->
  (exists row, gen_feature_values Last d t = Ok row /\ is_last t row) /\
  (forall k P, (k = LastKnown /\ P = is_last_known) \/ (k = Max /\ P = is_max) \/ (k = Mean /\ P = is_mean) ->
     exists vs, gen_feature_values k d t = Ok vs /\ length vs = d /\
       forall j, (j < d)%nat -> exists v, nth_error vs j = Some v /\ P (col j t) v /\ (v = None <-> all_missing (col j t))).
Proof.
  intros W H. split.
  - rewrite gen_feature_values_eq by assumption. now apply predict_last.
  - intros k P [[-> ->]|[[-> ->]|[-> ->]]]; rewrite gen_feature_values_eq by assumption.
    + destruct (predict_last_known d t W H) as [vs [E [L N]]]. exists vs. split; [exact E|]. split; [exact L|].
      intros j Hj. destruct (N j Hj) as [v [Ev Pv]]. exists v. split; [exact Ev|]. split; [exact Pv|]. now apply is_last_known_none_iff.
    + destruct (predict_max d t W H) as [vs [E [L N]]]. exists vs. split; [exact E|]. split; [exact L|].
      intros j Hj. destruct (N j Hj) as [v [Ev Pv]]. exists v. split; [exact Ev|]. split; [exact Pv|]. now apply is_max_none_iff.
    + destruct (predict_mean d t W H) as [vs [E [L N]]]. exists vs. split; [exact E|]. split; [exact L|].
      intros j Hj. destruct (N j Hj) as [v [Ev Pv]]. exists v. split; [exact Ev|]. split; [exact Pv|]. now apply is_mean_none_iff.
Qed.

(** non-vacuity: the unit-test history (rows unsorted, one feature never observed) through the REGENERATED code *)
Example gen_feature_values_example :
  let t := [(31, [Some 1; Some (1#2); None]); (34, [None; Some 2; None]); (32, [Some 2; Some (1#2); None]); (33, [Some 3; None; None])] in
  wf 3 t /\ t <> [] /\
  gen_feature_values Last 3 t = Ok [None; Some 2; None] /\
  gen_feature_values LastKnown 3 t = Ok [Some 3; Some 2; None] /\
  gen_feature_values Max 3 t = Ok [Some 3; Some 2; None] /\
  gen_feature_values Mean 3 t = Ok [Some (6 # 3); Some (12 # 12); None].
Proof. cbv zeta. split; [repeat constructor|]. split; [discriminate|]. repeat split; vm_compute; reflexivity. Qed.

(* ==================================================================================== *)
(** * (b) ConstantModel.compute_individual_trajectory *)

Theorem gen_constant_trajectory_eq vals ages : gen_constant_trajectory vals ages = [trajectory vals ages].
Proof.
  unfold gen_constant_trajectory, trajectory, py_list_repeat. f_equal.
  induction ages as [|a ages IH]; simpl; [reflexivity|]. now rewrite IH.
Qed.
