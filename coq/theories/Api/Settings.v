(* C13 (with corollaries for C05 / C19) — `AlgorithmSettings` (src/leaspy/algo/settings.py) and the constructor of the
   algorithms that copies it (src/leaspy/algo/base.py).  Definitions only (proofs: SettingsProofs.v; tie: SettingsTie.v and
   the regenerated LeaspyGen.GenSettings).

   What is mirrored (file:line of /repo/src/leaspy at the time of writing)
   * JSON-like values                      json.load of algo/data/default_*.json, the keyword arguments  -> `jv`
   * `_recursive_merge_dict_warn_extra_keys`  algo/settings.py:342-361   -> `merge_entries` / `mergev`, driven by the decision
                                              table `merge_act` (which the translator re-reads from the `for` loop)
   * `_load_default_values`                 algo/settings.py:622-642    -> `load_defaults`
   * `_manage_kwargs`                       algo/settings.py:549-582    -> `manage_kwargs` (special keys, merge, dynamic defaults)
   * `__init__`                             algo/settings.py:301-319    -> `resolve`
   * `save` / `load`                        algo/settings.py:364-461    -> `save` / `load`
   * `BaseAlgorithm.__init__`               algo/base.py:85-95          -> `algo_view` (pure) and `hcopy_of` (heap)
   * `AlgorithmWithSamplersMixin.__init__`  algo/algo_with_samplers.py:44-74  -> `burn_in_write`
   * `AlgorithmWithAnnealingMixin.__init__` algo/algo_with_annealing.py:36-73 -> `annealing_write`
   Two levels: a PURE level (values; what the dictionaries contain) and a HEAP level (objects with identity; who shares
   what with whom, who can write where).  Lists are values at both levels (no algorithm writes into a list of its parameters). *)
From Coq Require Import List Arith Bool ZArith Ascii String PrimFloat.
From Leaspy Require Import Saem.AnnealFloat.
Import ListNotations.
Local Open Scope string_scope.

(* ---------------------------------------------------------------------- JSON-like values *)
Inductive jv : Type :=
| JNull
| JBool (b : bool)
| JInt (z : Z)
| JFloat (n : Z) (d : positive)      (* the binary64 value n/d exactly (`float.as_integer_ratio`) *)
| JStr (s : string)
| JList (l : list jv)
| JDict (d : list (string * jv)).    (* insertion-ordered, as python dictionaries and json files are *)

Definition dict := list (string * jv).

Section EqbRec.
  Variable rec : jv -> jv -> bool.
  Fixpoint list_eqb (l m : list jv) : bool :=
    match l, m with
    | [], [] => true
    | x :: l', y :: m' => rec x y && list_eqb l' m'
    | _, _ => false
    end.
  Fixpoint entries_eqb (d e : dict) : bool :=
    match d, e with
    | [], [] => true
    | (k, x) :: d', (k', y) :: e' => String.eqb k k' && rec x y && entries_eqb d' e'
    | _, _ => false
    end.
End EqbRec.

(* exact equality of the key tree (order included) and of every value *)
Fixpoint jv_eqb (a b : jv) {struct a} : bool :=
  match a, b with
  | JNull, JNull => true
  | JBool x, JBool y => Bool.eqb x y
  | JInt x, JInt y => Z.eqb x y
  | JFloat n d, JFloat n' d' => Z.eqb n n' && Pos.eqb d d'
  | JStr s, JStr t => String.eqb s t
  | JList l, JList m => list_eqb jv_eqb l m
  | JDict d, JDict e => entries_eqb jv_eqb d e
  | _, _ => false
  end.

Fixpoint dget (d : dict) (k : string) : option jv :=
  match d with [] => None | (k', v) :: t => if String.eqb k k' then Some v else dget t k end.
(* `d[k] = v`: an existing key keeps its place, a new key goes to the end *)
Fixpoint dset (d : dict) (k : string) (v : jv) : dict :=
  match d with
  | [] => [(k, v)]
  | (k', v') :: t => if String.eqb k k' then (k, v) :: t else (k', v') :: dset t k v
  end.
Definition keys (d : dict) : list string := map fst d.
Definition is_dict (v : jv) : bool := match v with JDict _ => true | _ => false end.
Definition is_some {A} (o : option A) : bool := match o with Some _ => true | None => false end.
Definition odict (o : option jv) : bool := match o with Some v => is_dict v | None => false end.

(* python truthiness of a json value *)
Definition truthy (v : jv) : bool :=
  match v with
  | JNull => false | JBool b => b | JInt z => negb (Z.eqb z 0) | JFloat n _ => negb (Z.eqb n 0)
  | JStr s => negb (String.eqb s "") | JList l => negb (Nat.eqb (List.length l) 0) | JDict d => negb (Nat.eqb (List.length d) 0)
  end.

(* what a call does: a value, LeaspyAlgoInputError, another exception, or an input this model does not describe *)
Inductive outcome (A : Type) : Type := Done (a : A) | Refused | Failed | Unmodelled.
Arguments Done {A} a.
Arguments Refused {A}.
Arguments Failed {A}.
Arguments Unmodelled {A}.
Definition obind {A B} (r : outcome A) (f : A -> outcome B) : outcome B :=
  match r with Done a => f a | Refused => Refused | Failed => Failed | Unmodelled => Unmodelled end.

(* ---------------------------------------------------------------------- the nested update
   One step of the `for k, v in new.items()` loop is a decision on three facts: `k in ref`, `isinstance(ref[k], dict)`,
   `isinstance(v, dict)`.  The table below is the model's; the translator regenerates the table of today's source
   (LeaspyGen.GenSettings.gen_merge_act) and SettingsTie.v shows the two agree on the eight rows. *)
Inductive mact := MSet | MRec | MErr.
Definition merge_act (in_ref ref_is_dict new_is_dict : bool) : mact :=
  if negb in_ref || negb ref_is_dict then MSet
  else if negb new_is_dict then MErr
  else MRec.
(* the same as a table of eight rows, row number = 4*in_ref + 2*ref_is_dict + new_is_dict (the form the translator emits) *)
Definition act_of_table (t : list mact) (a b c : bool) : mact :=
  nth ((if a then 4 else 0) + (if b then 2 else 0) + (if c then 1 else 0)) t MErr.
Definition merge_table : list mact := [MSet; MSet; MSet; MSet; MSet; MSet; MErr; MRec].

Section MergeWith.
  Variable act : bool -> bool -> bool -> mact.
  Section Entries.
    Variable rec : jv -> dict -> outcome dict.       (* merge of a nested dictionary *)
    Fixpoint merge_entries (nd : dict) (ref : dict) : outcome dict :=
      match nd with
      | [] => Done ref
      | (k, v) :: t =>
          let r := dget ref k in
          match act (is_some r) (odict r) (is_dict v) with
          | MSet => merge_entries t (dset ref k v)
          | MErr => Refused
          | MRec =>
              match r with
              | Some (JDict rd) =>
                  match rec v rd with
                  | Done rd' => merge_entries t (dset ref k (JDict rd'))
                  | Refused => Refused | Failed => Failed | Unmodelled => Unmodelled
                  end
              | _ => Failed             (* a table that recurses into something that is not a dictionary *)
              end
          end
      end.
  End Entries.
  (* `merge(ref, new)`: the new content of `ref` *)
  Fixpoint mergev_with (nv : jv) (ref : dict) {struct nv} : outcome dict :=
    match nv with
    | JDict nd => merge_entries mergev_with nd ref
    | _ => Failed                                    (* `.items()` of something that is not a dictionary *)
    end.
End MergeWith.
Definition mergev := mergev_with merge_act.
Definition merge (ref new : dict) : outcome dict := mergev (JDict new) ref.
(* the wrong variant: a nested dictionary given by the user REPLACES the default one *)
Definition replace_act (in_ref ref_is_dict new_is_dict : bool) : mact := MSet.

(* ---------------------------------------------------------------------- the settings object *)
Record settings := {
  s_name : string;
  s_seed : jv;                 (* None or an int *)
  s_init : jv;                 (* algorithm_initialization_method *)
  s_device : option jv;        (* attribute absent for the algorithms without a device *)
  s_params : dict
}.

(* `_get_seed` (None, or int(...) of the value; strings and other values are not modelled) *)
Definition get_seed (v : jv) : outcome jv :=
  match v with
  | JNull => Done JNull
  | JInt z => Done (JInt z)
  | JBool b => Done (JInt (if b then 1 else 0))
  | _ => Unmodelled
  end.
(* `_get_device`: `torch.device(x).type`, i.e. the text before ':' *)
Fixpoint before_colon (s : string) : string :=
  match s with
  | EmptyString => EmptyString
  | String c t => if Ascii.eqb c ":"%char then EmptyString else String c (before_colon t)
  end.
Definition get_device (v : jv) : outcome jv :=
  match v with JStr s => Done (JStr (before_colon s)) | _ => Unmodelled end.

Definition special_keys : list string := ["seed"; "algorithm_initialization_method"; "device"].
Definition mem_str (k : string) (l : list string) : bool := existsb (String.eqb k) l.

(* `_check_default_settings` + `_load_default_values` on the parsed default file; `det` = `algo_class.deterministic` *)
Definition known_keys : list string := ["name"; "seed"; "algorithm_initialization_method"; "parameters"; "device"].
Definition load_defaults (file : dict) (det : bool) : outcome settings :=
  if negb (forallb (fun k => mem_str k known_keys) (keys file)) then Refused else
  match dget file "name", dget file "parameters", dget file "algorithm_initialization_method" with
  | Some (JStr nm), Some (JDict p), Some im =>
      obind (if det then Done JNull
             else match dget file "seed" with Some v => get_seed v | None => Refused end) (fun sd =>
      obind (match dget file "device" with Some v => obind (get_device v) (fun d => Done (Some d)) | None => Done None end) (fun dv =>
      Done {| s_name := nm; s_seed := sd; s_init := im; s_device := dv; s_params := p |}))
  | Some (JStr _), Some (JDict _), None => Refused
  | Some (JStr _), None, _ => Refused
  | None, _, _ => Refused
  | _, _, _ => Unmodelled
  end.

(* `_dynamic_default_parameters`, as a table (algorithm, key whose truthiness is the condition, key to set, value): for
   `lme_fit`, a truthy `force_independent_random_effects` without an explicit `method` *)
Definition dyn_row := (string * string * string * jv)%type.
Definition dynamic_table : list dyn_row :=
  [("lme_fit", "force_independent_random_effects", "method", JList [JStr "lbfgs"; JStr "bfgs"])].
Definition dynamic_defaults_with (table : list dyn_row) (name : string) (kwargs : dict) (p : dict) : dict :=
  fold_left (fun p row =>
    match row with
    | (algo, ck, key, val) =>
        if String.eqb name algo && match dget kwargs ck with Some v => truthy v | None => false end then
          match dget kwargs key with
          | None | Some JNull => dset p key val
          | Some _ => p
          end
        else p
    end) table p.
Definition dynamic_defaults := dynamic_defaults_with dynamic_table.

(* `_manage_kwargs`, parameterised by the list of special keys and the merge table (so that the regenerated ones can be plugged in) *)
Definition manage_kwargs_with (special : list string) (act : bool -> bool -> bool -> mact) (dyn : list dyn_row)
           (s : settings) (kwargs : dict) : outcome settings :=
  obind (if mem_str "seed" special then match dget kwargs "seed" with Some v => get_seed v | None => Done (s_seed s) end else Done (s_seed s)) (fun sd =>
  let im := if mem_str "algorithm_initialization_method" special
            then match dget kwargs "algorithm_initialization_method" with Some v => v | None => s_init s end else s_init s in
  obind (if mem_str "device" special
         then match dget kwargs "device" with Some v => obind (get_device v) (fun d => Done (Some d)) | None => Done (s_device s) end
         else Done (s_device s)) (fun dv =>
  let rest := filter (fun kv => negb (mem_str (fst kv) special)) kwargs in
  obind (mergev_with act (JDict rest) (s_params s)) (fun p =>
  Done {| s_name := s_name s; s_seed := sd; s_init := im; s_device := dv; s_params := dynamic_defaults_with dyn (s_name s) kwargs p |}))).
Definition manage_kwargs := manage_kwargs_with special_keys merge_act dynamic_table.

(* `AlgorithmSettings(name, **kwargs)` given the parsed default file of `name` *)
Definition resolve (file : dict) (det : bool) (kwargs : dict) : outcome settings :=
  obind (load_defaults file det) (fun s => manage_kwargs s kwargs).

(* ---------------------------------------------------------------------- save / load *)
Definition save (s : settings) : dict :=
  ([("name", JStr (s_name s)); ("seed", s_seed s); ("algorithm_initialization_method", s_init s)]
   ++ match s_device s with Some d => [("device", d)] | None => [] end
   ++ [("parameters", JDict (s_params s))])%list.

(* `AlgorithmSettings.load` of a parsed file `j`, given the default file of the name it holds *)
Definition load (file : dict) (det : bool) (j : dict) : outcome settings :=
  match dget j "name" with
  | None => Refused
  | Some _ =>
      obind (resolve file det []) (fun s0 =>
      obind (match dget j "parameters" with Some pv => mergev pv (s_params s0) | None => Done (s_params s0) end) (fun p =>
      obind (match dget j "seed" with Some v => get_seed v | None => Done (s_seed s0) end) (fun sd =>
      let im := match dget j "algorithm_initialization_method" with Some v => v | None => s_init s0 end in
      obind (match dget j "device" with Some v => obind (get_device v) (fun d => Done (Some d)) | None => Done (s_device s0) end) (fun dv =>
      if is_some (dget j "loss") then Refused
      else if negb (forallb (fun k => mem_str k known_keys) (keys j)) then Refused
      else Done {| s_name := s_name s0; s_seed := sd; s_init := im; s_device := dv; s_params := p |}))))
  end.

Definition settings_eqb (a b : settings) : bool :=
  String.eqb (s_name a) (s_name b) && jv_eqb (s_seed a) (s_seed b) && jv_eqb (s_init a) (s_init b)
  && match s_device a, s_device b with Some x, Some y => jv_eqb x y | None, None => true | _, _ => false end
  && entries_eqb jv_eqb (s_params a) (s_params b).

(* ---------------------------------------------------------------------- the algorithm's side (pure level)
   `algo_parameters = deepcopy(settings.parameters)`: at the level of values, the same tree *)
Definition algo_view (s : settings) : dict := s_params s.

(* `int(frac * n_iter)` in binary64, truncated toward zero (Saem/AnnealFloat.v) *)
Definition jfloat (n : Z) (d : positive) : float := (Z2F n / Z2F (Zpos d))%float.
Definition int_of_frac (fr : jv) (n_iter : jv) : outcome Z :=
  match fr, n_iter with
  | JFloat n d, JInt z => match F2Z_trunc (jfloat n d * Z2F z) with Some r => Done r | None => Failed end
  | JInt a, JInt z => Done (a * z)%Z
  | JFloat _ _, JNull | JInt _, JNull => Failed           (* TypeError: number * None *)
  | _, _ => Unmodelled
  end.

(* the count that wins: a key that is present and not None *)
Definition explicit_count (p : dict) (k : string) : option jv :=
  match dget p k with Some JNull | None => None | Some v => Some v end.

(* AlgorithmWithSamplersMixin.__init__: `n_burn_in_iter` from the fraction unless an explicit count is given *)
Definition burn_in_write (p : dict) : outcome dict :=
  match dget p "n_burn_in_iter_frac" with
  | None => Failed                                              (* KeyError *)
  | Some fr =>
      match explicit_count p "n_burn_in_iter" with
      | Some _ => Done p
      | None =>
          match fr with
          | JNull => Refused
          | _ => match dget p "n_iter" with
                 | None => Failed
                 | Some n => obind (int_of_frac fr n) (fun z => Done (dset p "n_burn_in_iter" (JInt z)))
                 end
          end
      end
  end.

(* AlgorithmWithAnnealingMixin.__init__: `annealing.n_iter`, only when annealing is on *)
Definition annealing_write (p : dict) : outcome dict :=
  match dget p "annealing" with
  | None => Done p                                              (* `.get("annealing", {})` *)
  | Some (JDict a) =>
      if negb (match dget a "do_annealing" with Some v => truthy v | None => false end) then Done p else
      match dget a "n_iter_frac" with
      | None => Failed
      | Some fr =>
          match explicit_count a "n_iter" with
          | Some _ => Done p
          | None =>
              match fr with
              | JNull => Refused
              | _ => match dget p "n_iter" with
                     | None => Failed
                     | Some n => obind (int_of_frac fr n) (fun z => Done (dset p "annealing" (JDict (dset a "n_iter" (JInt z)))))
                     end
              end
          end
      end
  | Some _ => Failed
  end.

(* what the constructors of the sampling algorithms leave in `algo_parameters` (annealing first: it is the outer mixin of
   the fit; the two writes address different keys) *)
Definition ctor_view (samplers annealing : bool) (s : settings) : outcome dict :=
  obind (if samplers then burn_in_write (algo_view s) else Done (algo_view s)) (fun p =>
  if annealing then annealing_write p else Done p).

(* ---------------------------------------------------------------------- heap level: dictionaries as objects
   A dictionary object holds, per key, a value (`HA`: anything that is not a dictionary object) or the address of another
   dictionary object (`HR`).  `halloc` is what `json.load` / a literal / `deepcopy` of a tree produce: fresh objects. *)
Definition addr := nat.
Inductive hval := HA (v : jv) | HR (a : addr).
Definition hobj := list (string * hval).
Definition heap := list hobj.

Section AllocRec.
  Variable rec : jv -> heap -> heap * hval.
  Fixpoint alloc_entries (d : dict) (h : heap) : heap * hobj :=
    match d with
    | [] => (h, [])
    | (k, x) :: t => let (h1, hv) := rec x h in let (h2, es) := alloc_entries t h1 in (h2, (k, hv) :: es)
    end.
End AllocRec.
Fixpoint halloc (v : jv) (h : heap) {struct v} : heap * hval :=
  match v with
  | JDict d => let (h1, es) := alloc_entries halloc d h in ((h1 ++ [es])%list, HR (List.length h1))
  | _ => (h, HA v)
  end.

Fixpoint hget (o : hobj) (k : string) : option hval :=
  match o with [] => None | (k', v) :: t => if String.eqb k k' then Some v else hget t k end.
Fixpoint hset (o : hobj) (k : string) (v : hval) : hobj :=
  match o with
  | [] => [(k, v)]
  | (k', v') :: t => if String.eqb k k' then (k, v) :: t else (k', v') :: hset t k v
  end.
Fixpoint hupd (h : heap) (a : addr) (o : hobj) : heap :=
  match h, a with
  | [], _ => []
  | _ :: t, O => o :: t
  | x :: t, S a' => x :: hupd t a' o
  end.

(* the tree seen from a value, nested dictionary objects resolved; explicit fuel (None = dangling address or fuel exhausted) *)
Section ViewRec.
  Variable rec : hval -> option jv.
  Fixpoint view_entries (o : hobj) : option dict :=
    match o with
    | [] => Some []
    | (k, x) :: t => match rec x, view_entries t with Some v, Some r => Some ((k, v) :: r) | _, _ => None end
    end.
End ViewRec.
Fixpoint hview (f : nat) (h : heap) (v : hval) : option jv :=
  match v with
  | HA a => Some a
  | HR a => match f with
            | O => None
            | S f' => match nth_error h a with
                      | None => None
                      | Some o => option_map JDict (view_entries (hview f' h) o)
                      end
            end
  end.

(* how the algorithm obtains ITS parameters from `settings.parameters` (kind read from the source: SrcProg.copy_kind) *)
Definition hdeepcopy (f : nat) (h : heap) (v : hval) : option (heap * hval) :=
  match hview f h v with Some t => Some (halloc t h) | None => None end.
Definition hshallow (h : heap) (v : hval) : option (heap * hval) :=
  match v with
  | HA a => Some (h, HA a)
  | HR a => match nth_error h a with Some o => Some ((h ++ [o])%list, HR (List.length h)) | None => None end
  end.
Definition halias (h : heap) (v : hval) : option (heap * hval) := Some (h, v).

(* what an algorithm does with its parameters: `algo_parameters[p1]...[pn][k] = value` (the value is a fresh tree) *)
Record hwrite := { w_path : list string; w_key : string; w_val : jv }.
Fixpoint hfollow (f : nat) (h : heap) (a : addr) (path : list string) {struct path} : option addr :=
  match path with
  | [] => Some a
  | p :: t => match f with
              | O => None
              | S f' => match nth_error h a with
                        | Some o => match hget o p with Some (HR b) => hfollow f' h b t | _ => None end
                        | None => None
                        end
              end
  end.
(* a write that cannot be made (missing key on the path, not a dictionary) raises: the heap is as before *)
Definition do_hwrite (root : hval) (h : heap) (w : hwrite) : heap :=
  match root with
  | HA _ => h
  | HR a =>
      match hfollow (S (List.length (w_path w))) h a (w_path w) with
      | Some b =>
          match nth_error h b with
          | Some o => let (h1, hv) := halloc (w_val w) h in hupd h1 b (hset o (w_key w) hv)
          | None => h
          end
      | None => h
      end
  end.
Definition do_hwrites (root : hval) (h : heap) (ws : list hwrite) : heap := fold_left (do_hwrite root) ws h.

(* every address stored in the heap is allocated *)
Definition obj_closed (n : nat) (o : hobj) : Prop := forall k b, In (k, HR b) o -> b < n.
Definition closed (h : heap) : Prop := forall a o, nth_error h a = Some o -> obj_closed (List.length h) o.
Definition hval_in (h : heap) (v : hval) : Prop := match v with HA _ => True | HR a => a < List.length h end.

(* the heap-level nested update `merge(ref at ra, new at na)`, with the log of the addresses it assigns into.
   `v` is stored as it is: a nested dictionary of the caller becomes SHARED between the caller and the settings. *)
Definition hdict_at (h : heap) (o : option hval) : bool :=
  match o with Some (HR b) => is_some (nth_error h b) | _ => false end.
Definition is_href (v : hval) : bool := match v with HR _ => true | HA v => is_dict v end.
Section HMergeEntries.
  Variable act : bool -> bool -> bool -> mact.
  Variable rec : heap -> addr -> addr -> option (heap * list addr).
  Variable ra : addr.
  Fixpoint hmerge_entries (nd : hobj) (h : heap) (log : list addr) {struct nd} : option (heap * list addr) :=
    match nd with
    | [] => Some (h, log)
    | (k, v) :: t =>
        match nth_error h ra with
        | None => None
        | Some rd =>
            let r := hget rd k in
            match act (is_some r) (hdict_at h r) (is_href v) with
            | MSet => hmerge_entries t (hupd h ra (hset rd k v)) (ra :: log)
            | MErr => None
            | MRec => match r, v with
                      | Some (HR rb), HR nb =>
                          match rec h rb nb with
                          | Some (h', log') => hmerge_entries t h' (log' ++ log)%list
                          | None => None
                          end
                      | _, _ => None
                      end
            end
        end
    end.
End HMergeEntries.
Fixpoint hmerge_with (act : bool -> bool -> bool -> mact) (f : nat) (h : heap) (ra na : addr) {struct f}
  : option (heap * list addr) :=
  match f with
  | O => None
  | S f' =>
      match nth_error h na with
      | None => None
      | Some nd => hmerge_entries act (hmerge_with act f') ra nd h []
      end
  end.
Definition hmerge := hmerge_with merge_act.

(* where the default dictionary of a new settings object comes from: parsed afresh at every construction (today's source),
   or one object kept and handed out again (the wrong variant) *)
Inductive defaults_source := FreshLoad | SharedObject.

(* `AlgorithmSettings(name, **kw).parameters` at heap level: `cache` = address of a kept default object (used by
   SharedObject only); `kw` = address of the keyword dictionary.  Returns the heap, the value of `.parameters`, the log. *)
Definition hresolve (src : defaults_source) (f : nat) (defaults : dict) (h : heap) (cache kw : addr)
  : option (heap * hval * list addr) :=
  match src with
  | FreshLoad =>
      let (h1, r) := halloc (JDict defaults) h in
      match r with
      | HR ra => match hmerge f h1 ra kw with Some (h2, log) => Some (h2, r, log) | None => None end
      | HA _ => None
      end
  | SharedObject =>
      match hmerge f h cache kw with Some (h2, log) => Some (h2, HR cache, log) | None => None end
  end.

(* which nested dictionaries of `.parameters` ARE caller objects (paths from the root; addresses below `n0`) *)
Fixpoint shared_paths (f : nat) (n0 : nat) (h : heap) (a : addr) (prefix : list string) : list (list string) :=
  match f with
  | O => []
  | S f' =>
      match nth_error h a with
      | None => []
      | Some o =>
          flat_map (fun kv => match snd kv with
                              | HR b => if Nat.ltb b n0 then [(prefix ++ [fst kv])%list] else shared_paths f' n0 h b (prefix ++ [fst kv])%list
                              | HA _ => []
                              end) o
      end
  end.
