(** C18 — the definitions regenerated from the source (gen/GenC18.v) are the model's, the constants the
    code holds today satisfy the side conditions of the theorems, and the witnesses of the refuted clauses.
    Since leaspy 6d6bb6f the precision before the loop is [max(rounding_options)] = 3 ([tie_precision_init]):
    the choice is total and the former F10 family (spacing < 0.001 -> round(None)) runs ([min_spacing_runs]). *)
From Coq Require Import ZArith QArith Qround Qabs Bool List String Lia Lqa.
From Leaspy Require Import Base.QAux Api.Simulate Api.SimulateProofs.
From LeaspyGen Require Import GenC18.
Import ListNotations.
Open Scope string_scope.

Lemma tie_rows : gen_rows_random = random_rows /\ gen_rows_frame = frame_rows.
Proof. split; reflexivity. Qed.

Lemma tie_keys : gen_random_required = random_required /\ gen_random_optional = random_optional.
Proof. split; reflexivity. Qed.

Lemma tie_final : gen_random_final = random_final.
Proof. reflexivity. Qed.

Lemma tie_precision ms : gen_precision ms = precision_of gen_rounding_options gen_precision_init ms.
Proof. reflexivity. Qed.

(** the value before the loop is the largest key of the options, i.e. the finest precision, 3 decimals
    (false of the code before 6d6bb6f, where it was [None]) *)
Lemma tie_precision_init : gen_precision_init = max_key gen_rounding_options /\ gen_precision_init = Some 3%Z.
Proof. split; reflexivity. Qed.

Lemma tie_beta mu v :
  beta_params mu v = if Qeq_bool v 0 then None else Some (gen_alpha mu v, gen_beta mu v).
Proof. reflexivity. Qed.

Lemma tie_adj_var mu var : gen_adj_var var (gen_max_var mu) = adj_var gen_clamp_factor mu var.
Proof. reflexivity. Qed.

(** side conditions of the value theorems, computed on the constants of the current source *)
Lemma tie_constants :
  0 < gen_clip_lo /\ gen_clip_lo <= gen_clip_hi /\ gen_clip_hi < 1 /\ 0 < gen_clamp_factor /\ gen_clamp_factor < 1 /\
  Qabs (gen_clip_lo - (1 # 100000000)) <= 1 # 10 ^ 20 /\ Qabs (gen_clip_hi - (9999999 # 10000000)) <= 1 # 10 ^ 15 /\
  Qabs (gen_clamp_factor - (99 # 100)) <= 1 # 10 ^ 15.
Proof. vm_compute. repeat split; first [reflexivity | discriminate]. Qed.

(** the documented precisions: 0..3 decimals, thresholds 10^-p (as floats), default spacing one day *)
Lemma tie_options :
  map fst gen_rounding_options = [0; 1; 2; 3]%Z /\
  forallb (fun pv => Qle_bool (Qabs (snd pv - 1 / pow10 (fst pv))) (1 # 10 ^ 17)) gen_rounding_options = true /\
  Qabs (gen_default_spacing - (1 # 365)) <= 1 # 10 ^ 18.
Proof. vm_compute. repeat split; first [reflexivity | discriminate]. Qed.

Lemma default_precision : precision_of gen_rounding_options gen_precision_init gen_default_spacing = Some 3%Z.
Proof. reflexivity. Qed.

(** rounding comes first, the first of several visits at one rounded age is the one kept *)
Lemma tie_order : gen_round_before_dedup = true /\ gen_keep_first = true.
Proof. split; reflexivity. Qed.

(** no option fits exactly below the smallest threshold (0.001 as a float) ... *)
Lemma no_option_fits_gen ms :
  Forall (fun pv => ms < snd pv) gen_rounding_options <-> ms < (1152921504606847 # 1152921504606846976).
Proof.
  unfold gen_rounding_options. split.
  - intros H. repeat (inversion H as [|? ? ? H']; subst; clear H; rename H' into H); simpl in *. assumption.
  - intros H. repeat constructor; simpl; lra.
Qed.

(** ... and then the ages are rounded at the finest precision *)
Lemma precision_finest_gen ms :
  ms < (1152921504606847 # 1152921504606846976) -> precision_of gen_rounding_options gen_precision_init ms = Some 3%Z.
Proof. intros H. apply no_option_fits_gen in H. now rewrite (precision_fallback _ _ _ H). Qed.

(** the choice is total: every spacing (whatever its sign or size) gets a precision in 0..3 *)
Lemma precision_total_gen ms :
  exists p, precision_of gen_rounding_options gen_precision_init ms = Some p /\ (0 <= p <= 3)%Z.
Proof.
  change gen_precision_init with (Some 3%Z).
  destruct (precision_total gen_rounding_options 3 ms) as (p & E & H). exists p. split; [exact E|].
  destruct H as [->|H]; [lia|]. simpl in H. lia.
Qed.

Lemma precision_some_gen ms p :
  precision_of gen_rounding_options gen_precision_init ms = Some p ->
  (exists l1 v l2, gen_rounding_options = (l1 ++ (p, v) :: l2)%list /\ v <= ms /\ Forall (fun pv => ms < snd pv) l1) \/
  (p = 3%Z /\ ms < (1152921504606847 # 1152921504606846976)).
Proof.
  intros H. apply precision_some in H. destruct H as [H|[E H]]; [now left | right].
  split; [change gen_precision_init with (Some 3%Z) in E; congruence | now apply no_option_fits_gen].
Qed.

(* ------------------------------------------------------------------------------------------ *)
(** * witnesses *)

Definition good_params (n : pyval) (extra : dict) : dict :=
  ([ ("patient_number", n); ("first_visit_mean", VFloat 0); ("first_visit_std", VFloat (2 # 5));
    ("time_follow_up_mean", VInt 4); ("time_follow_up_std", VFloat (1 # 2));
    ("distance_visit_mean", VFloat (1 # 2)); ("distance_visit_std", VFloat (1 # 10)) ] ++ extra)%list.
Definition two_features := FsList [FStr "Y0"; FStr "Y1"].
Definition random_design (n : pyval) (extra : dict) : design :=
  {| d_features := two_features; d_visit_type := Some VtRandom; d_params := good_params n extra |}.
Definition table_design (f : frame) : design :=
  {| d_features := two_features; d_visit_type := Some VtDataframe; d_params := [("df_visits", VFrame f)] |}.
Definition shape21 := {| dimension := 2; source_dimension := 1 |}.
Definition sim := simulate_outcome gen_rounding_options gen_precision_init gen_default_spacing.
Definition accepted (d : design) : Prop := exists ps, construct d = Ok ps.

(** non-vacuity: an ordinary design is accepted and runs — also with a spacing below every option (0.0005, 0) *)
Example good_design_runs :
  accepted (random_design (VInt 5) [("min_spacing_between_visits", VFloat (1 # 100))]) /\
  sim shape21 (random_design (VInt 5) [("min_spacing_between_visits", VFloat (1 # 100))]) = Ok tt /\
  sim shape21 (random_design (VInt 5) []) = Ok tt /\
  sim shape21 (table_design {| has_id := true; has_time := true;
                               rows := [(IdStr "a", Some 50); (IdStr "b", Some 51); (IdStr "a", Some 52)] |}) = Ok tt /\
  sim shape21 (random_design (VInt 5) [("min_spacing_between_visits", VFloat (1 # 2000))]) = Ok tt /\
  sim shape21 (random_design (VInt 5) [("min_spacing_between_visits", VInt 0)]) = Ok tt.
Proof. split; [eexists; reflexivity|]. repeat split; reflexivity. Qed.

(** the former F10 family (repaired by leaspy 6d6bb6f): every spacing >= 0 — in particular those in [0, 0.001[, for which
    no option fits — is accepted by the constructor AND the run completes, with the ages rounded to 3 decimals *)
Lemma min_spacing_runs (ms : Q) :
  0 <= ms ->
  accepted (random_design (VInt 5) [("min_spacing_between_visits", VFloat ms)]) /\
  sim shape21 (random_design (VInt 5) [("min_spacing_between_visits", VFloat ms)]) = Ok tt /\
  (ms < (1152921504606847 # 1152921504606846976) -> gen_precision ms = Some 3%Z).
Proof.
  intros H0.
  assert (E : Qlt_bool ms 0 = false).
  { apply not_true_is_false. intros C. apply Qlt_bool_iff in C. lra. }
  assert (A : construct (random_design (VInt 5) [("min_spacing_between_visits", VFloat ms)]) =
              Ok (good_params (VInt 5) [("min_spacing_between_visits", VFloat ms)])).
  { unfold construct, validate, check_params. cbn. rewrite E. cbn. reflexivity. }
  split; [eexists; exact A|]. split; [|intros H; rewrite tie_precision; now apply precision_finest_gen].
  unfold sim. change gen_precision_init with (Some 3%Z). apply simulate_ok_iff.
  eexists. split; [exact A|]. exists 5%Z. repeat split; try reflexivity; try lia. discriminate.
Qed.

(** ages are rounded to the documented precision for EVERY spacing (also < 0.001, where it is 3 decimals): the precision
    exists, lies in 0..3, every requested visit is present at its age rounded to that precision (nearest multiple of
    10^-p, exactly representable), and each individual's ages are strictly increasing *)
Lemma ages_rounded_every_spacing (ms : Q) :
  exists p, gen_precision ms = Some p /\ (0 <= p <= 3)%Z /\
    (ms < (1152921504606847 # 1152921504606846976) -> p = 3%Z) /\
    forall (id : string) (l : list (string * Q * list Q)),
      Sorted.StronglySorted Z.lt (ages_of p id l) /\
      forall t v, In (id, t, v) l ->
        In (age_key p t) (ages_of p id l) /\ Qabs (inject_Z (age_key p t) - t * pow10 p) <= 1 # 2 /\
        age_of p (age_key p t) * pow10 p == inject_Z (age_key p t).
Proof.
  destruct (precision_total_gen ms) as (p & E & Hp). exists p. rewrite tie_precision.
  split; [exact E|]. split; [exact Hp|]. split.
  - intros H. apply precision_finest_gen in H. congruence.
  - intros id l. split; [apply ages_unique_increasing|]. intros t v H.
    split; [now apply (ages_complete p id l t v)|]. split; [apply age_key_near | apply age_of_scaled; lia].
Qed.

(** an accepted design completes exactly when its stored parameters are [runnable_core]: no condition on the spacing is left *)
Lemma sim_ok_iff m d : sim m d = Ok tt <-> exists ps, construct d = Ok ps /\ runnable_core m (d_features d) ps.
Proof. unfold sim. change gen_precision_init with (Some 3%Z). apply simulate_ok_iff. Qed.

Lemma run_ok_iff_gen m vt feats ps :
  run_outcome gen_rounding_options gen_precision_init gen_default_spacing m vt feats ps = Ok tt <->
  runnable gen_default_spacing m vt feats ps.
Proof. change gen_precision_init with (Some 3%Z). apply run_ok_iff. Qed.

(** further accepted designs on which the run raises (each replayed on the implementation) *)
Lemma accepted_crash_families :
  (* a logistic model without sources: torch.stack([]) *)
  (accepted (random_design (VInt 5) []) /\ sim {| dimension := 2; source_dimension := 0 |} (random_design (VInt 5) []) = Crash) /\
  (* one individual and at least one source: std of a single draw *)
  (accepted (random_design (VInt 1) []) /\ sim shape21 (random_design (VInt 1) []) = Crash) /\
  (* patient_number = True is an int for isinstance *)
  (accepted (random_design (VBool true) []) /\ sim shape21 (random_design (VBool true) []) = Crash) /\
  (* number of feature names different from the model dimension *)
  (accepted (random_design (VInt 5) []) /\ sim {| dimension := 3; source_dimension := 1 |} (random_design (VInt 5) []) = Crash) /\
  (* duplicated feature names *)
  (let d := {| d_features := FsList [FStr "Y0"; FStr "Y0"]; d_visit_type := Some VtRandom; d_params := good_params (VInt 5) [] |} in
   accepted d /\ sim shape21 d = Crash) /\
  (* integer IDs in the visit table *)
  (let d := table_design {| has_id := true; has_time := true; rows := [(IdInt 1, Some 50); (IdInt 2, Some 51)] |} in
   accepted d /\ sim shape21 d = Crash) /\
  (* a null ID in the visit table *)
  (let d := table_design {| has_id := true; has_time := true; rows := [(IdStr "a", Some 50); (IdNull, Some 51); (IdStr "b", Some 51)] |} in
   accepted d /\ sim shape21 d = Crash) /\
  (* an empty visit table *)
  (let d := table_design {| has_id := true; has_time := true; rows := [] |} in accepted d /\ sim shape21 d = Crash).
Proof. repeat split; try (eexists; reflexivity); reflexivity. Qed.

(** designs violating the documented types that are not refused with LeaspyAlgoInputError *)
Lemma refusal_class_refuted :
  construct (random_design VStr []) = Crash /\                                     (* TypeError: '<=' str/int *)
  construct (random_design (VInt 5) [("min_spacing_between_visits", VNone)]) = Crash /\
  construct {| d_features := two_features; d_visit_type := Some VtRandom;
               d_params := [("patient_number", VInt 5)] |} = Crash /\               (* KeyError *)
  construct {| d_features := two_features; d_visit_type := None; d_params := [] |} = Crash /\
  construct {| d_features := two_features; d_visit_type := Some VtDataframe; d_params := [("df_visits", VStr)] |} = Crash /\
  construct (table_design {| has_id := false; has_time := true; rows := [] |}) = Crash /\
  (* whereas these are refused properly *)
  construct (random_design (VFloat (5 # 2)) []) = Refuse /\
  construct (random_design (VInt 0) []) = Refuse /\
  construct (table_design {| has_id := true; has_time := false; rows := [] |}) = Refuse /\
  construct (table_design {| has_id := true; has_time := true; rows := [(IdStr "a", None)] |}) = Refuse.
Proof. repeat split; reflexivity. Qed.

(** accepted, but with a negative mean step: for steps that are all <= 0 the visit loop never ends *)
Lemma negative_step_accepted :
  accepted {| d_features := two_features; d_visit_type := Some VtRandom;
              d_params := [ ("patient_number", VInt 5); ("first_visit_mean", VFloat 0); ("first_visit_std", VFloat (2 # 5));
                            ("time_follow_up_mean", VInt 4); ("time_follow_up_std", VFloat (1 # 2));
                            ("distance_visit_mean", VFloat (-1)); ("distance_visit_std", VFloat (1 # 10)) ] |}.
Proof. eexists; reflexivity. Qed.
