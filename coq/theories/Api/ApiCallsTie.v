(* Executable side of the tie for C13 (definitions only; run with vm_compute from harness/props/c13.py).

   A recorded call is a list of `rop = (kind, state, variable)` (conventions of ApiTie.v; `state` is ABSOLUTE here: 0 = the
   model's state when the call starts, i+1 = the i-th state created by a clone during the call).  Each checker
     1. builds the MODEL'S script of ApiCalls.v for that call (from the call's inputs / from the parts of the trace that the
        theorems leave arbitrary: optimiser and sampler activity),
     2. runs it inside Coq on the set/unset pattern of the model's state (`Shape`) and compares the log it emits with the
        recorded trace, operation by operation,
     3. evaluates the computable hypotheses of the theorems of Props/C13.v on it (`untouched_ev`, `writes_in`, `clones_from`,
        `flow_all`, seeds first). *)
From Coq Require Import List Arith Bool.
From Leaspy Require Import Api.ApiModel Api.ApiProofs Api.ApiInst Api.ApiTie Api.ApiCalls.
Import ListNotations.

(* the recorded trace in the format of the model's log: set / unset / revert are assignments, is_variable_set is a read,
   a clone carries the id of the new state, generator events carry nothing *)
Fixpoint norm (next : nat) (t : list rop) : list rop :=
  match t with
  | [] => []
  | (k, r, n) :: t' =>
      match k with
      | 0 | 9 => (0, r, n) :: norm next t'
      | 1 | 2 | 5 => (1, r, n) :: norm next t'
      | 3 => (3, r, next) :: norm (S next) t'
      | 4 => (4, r, 0) :: norm next t'
      | 6 => (6, 0, 0) :: norm next t'
      | 7 => (7, 0, 0) :: norm next t'
      | 8 => (8, r, 0) :: norm next t'
      | _ => (k, r, n) :: norm next t'
      end
  end.

Definition runs_as (script : list (ev U)) (s0 : st U) (recorded : list rop) : bool :=
  check_script script s0 (norm 1 recorded).

Definition decoded (t : list rop) : list (ev U) := match decode_all t with Some d => d | None => [] end.
Definition decodes (t : list rop) : bool := match decode_all t with Some _ => true | None => false end.

Definition ancf (anc : list (list nat)) : nat -> list nat := fun n => nth n anc [].
Definition flow_ok (anc : list (list nat)) (kept : list nat) (script : list (ev U)) : bool :=
  match flow_all U (ancf anc) 1 ([ApiTie.mem kept], 0) script with Some _ => true | None => false end.

Definition nat_list_eqb := list_eqb Nat.eqb.
Definition is_indep (anc : list (list nat)) (n : nat) : bool := nat_list_eqb (ancf anc n) [n].
Definition count_clones (t : list rop) : nat := length (filter (fun e => match e with (3, _, _) => true | _ => false end) t).

(* ---------------------------------------------------------------------- estimate
   case = (anc, kept, t-variable, variables read at the end, per request the variables assigned after t (in order), shape, trace) *)
Definition est_reqs (reqs : list (list nat)) : list (ereq U) :=
  map (fun vs => (Some tt, map (fun v => (v, Some tt)) vs)) reqs.

Definition check_estimate_call (c : list (list nat) * list nat * nat * list nat * list (list nat) * list (option U) * list rop) : bool :=
  match c with
  | (anc, kept, tvar, outs, reqs, shape, t) =>
      let script := estimate_many U 0 tvar outs (est_reqs reqs) in
      runs_as script shape t
      && forallb (untouched_ev U) script && forallb (nodraw_ev U) script
      && flow_ok anc kept script
  end.

(* ---------------------------------------------------------------------- simulate (and any read-only call)
   case = (anc, kept, shape, trace): the trace itself is the script *)
Definition check_simulate_call (c : list (list nat) * list nat * list (option U) * list rop) : bool :=
  match c with
  | (anc, kept, shape, t) =>
      decodes t && runs_as (decoded t) shape t && seeds_first t
      && forallb (writes_in U (fun _ => false)) (decoded t)
      && flow_ok anc kept (decoded t)
  end.

(* ---------------------------------------------------------------------- scipy_minimize
   case = (anc, kept, data variables, individual variables, shape, number of individuals, trace)
   trace = three seeds; reads of the model's state; then `work` (arbitrary for the theorem, must address clones only) *)
Fixpoint split_reads_cur (t : list rop) : list nat * list rop :=
  match t with
  | (0, 0, n) :: t' => let (a, b) := split_reads_cur t' in (n :: a, b)
  | _ => ([], t)
  end.

Definition scipy_parts (t : list rop) : list nat * list rop := split_reads_cur (skipn 3 t).

Definition check_scipy_call (c : list (list nat) * list nat * list nat * list nat * list (option U) * nat * list rop) : bool :=
  match c with
  | (anc, kept, dvars, ivars, shape, nind, t) =>
      let (scal, work) := scipy_parts t in
      decodes work && seeds_first t
      && runs_as (scipy_call U 0 scal (decoded work)) shape t
      && forallb (untouched_ev U) (decoded work)
      && forallb (fun n => forallb (ApiTie.mem kept) (ancf anc n)) scal
      && (count_clones work =? nind)
  end.

(* the hypothesis of C13_history_independent on the recorded call (see C13_scipy_start_refuted) *)
Definition check_scipy_flow (c : list (list nat) * list nat * list nat * list nat * list (option U) * nat * list rop) : bool :=
  match c with
  | (anc, kept, dvars, ivars, shape, nind, t) => decodes t && flow_ok anc kept (decoded t)
  end.

(* ---------------------------------------------------------------------- MCMC personalisation
   case = (anc, kept, data variables, individual variables, shape, trace)
   trace = pre (no clone) ; clone of the model's state ; unset of every data / individual variable on it ; model.state := it ; tail *)
Fixpoint split_noclone (t : list rop) : list rop * list rop :=
  match t with
  | (3, r, n) :: t' => ([], t)
  | e :: t' => let (a, b) := split_noclone t' in (e :: a, b)
  | [] => ([], [])
  end.

Fixpoint split_unsets (t : list rop) : list nat * list rop :=
  match t with
  | (2, 1, n) :: t' => let (a, b) := split_unsets t' in (n :: a, b)
  | _ => ([], t)
  end.

Definition subset (a b : list nat) : bool := forallb (ApiTie.mem b) a.

Definition check_mcmc_call (c : list (list nat) * list nat * list nat * list nat * list (option U) * list rop) : bool :=
  match c with
  | (anc, kept, dvars, ivars, shape, t) =>
      let (pre, rest) := split_noclone t in
      match rest with
      | (3, 0, _) :: rest1 =>
          let (us, rest2) := split_unsets rest1 in
          match rest2 with
          | (8, 1, _) :: tail =>
              decodes pre && decodes tail && seeds_first t
              && runs_as (mcmc_call U (decoded pre) us [] (decoded tail)) shape t
              && forallb (fun e => writes_in U (ApiProofs.mem (us ++ [])) e && noclone_ev U e) (decoded pre)
              && forallb (clones_from U 1) (decoded tail)
              && subset us (dvars ++ ivars) && subset (dvars ++ ivars) us
              && forallb (fun n => negb (ApiTie.mem kept n) && is_indep anc n) us
              && flow_ok anc kept (decoded t)
          | _ => false
          end
      | _ => false
      end
  end.

(* self-test of the checkers on hand-written traces (3 variables: 0 = t (data), 1 = parameter, 2 = model = f(t, parameter)) *)
Example checkers_selftest :
  check_estimate_call ([[0]; [1]; [0; 1]], [1], 0, [2], [[]; []], [None; Some tt; None],
                       [(3,0,0); (1,1,0); (0,1,2); (3,0,0); (1,2,0); (0,2,2)]) = true
  /\ check_estimate_call ([[0]; [1]; [0; 1]], [1], 0, [2], [[]], [None; Some tt; None],
                          [(1,0,0); (0,0,2)]) = false
  /\ check_mcmc_call ([[0]; [1]; [0; 1]], [1], [0], [], [None; Some tt; None],
                      [(7,0,0); (7,0,1); (7,0,2); (1,0,0); (0,0,2); (6,0,2); (1,0,0); (5,0,0); (3,0,0); (2,1,0); (8,1,0); (3,1,0); (1,2,0)]) = true
  /\ check_mcmc_call ([[0]; [1]; [0; 1]], [1], [0], [], [None; Some tt; None],
                      [(7,0,0); (7,0,1); (7,0,2); (1,0,0); (1,0,1); (3,0,0); (2,1,0); (8,1,0)]) = false
  /\ check_mcmc_call ([[0]; [1]; [0; 1]], [1], [0], [], [None; Some tt; None],
                      [(7,0,0); (7,0,1); (7,0,2); (1,0,0); (3,0,0); (8,1,0)]) = false
  /\ check_scipy_call ([[0]; [1]; [0; 1]], [1], [0], [], [None; Some tt; None], 1,
                       [(7,0,0); (7,0,1); (7,0,2); (0,0,1); (3,0,0); (1,1,0); (0,1,2)]) = true
  /\ check_scipy_call ([[0]; [1]; [0; 1]], [1], [0], [], [None; Some tt; None], 1,
                       [(7,0,0); (7,0,1); (7,0,2); (0,0,1); (3,0,0); (1,0,0); (0,1,2)]) = false
  /\ check_scipy_flow ([[0]; [1]; [0; 1]], [1], [0], [], [None; Some tt; None], 1,
                       [(7,0,0); (7,0,1); (7,0,2); (0,0,1); (3,0,0); (9,1,0); (1,1,0); (0,1,2)]) = false
  /\ check_simulate_call ([[0]; [1]; [0; 1]], [1], [None; Some tt; None],
                          [(7,0,0); (7,0,1); (7,0,2); (0,0,1); (6,0,1); (3,0,0); (1,1,0); (0,1,2)]) = true
  /\ check_simulate_call ([[0]; [1]; [0; 1]], [1], [None; Some tt; None],
                          [(7,0,0); (7,0,1); (7,0,2); (0,0,1); (1,0,1)]) = false.
Proof. vm_compute. repeat split; reflexivity. Qed.
