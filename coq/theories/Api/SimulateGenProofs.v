(** C18 — proofs about the generation model of Api/SimulateGen.v: for EVERY arithmetic and every tape. *)
From Coq Require Import ZArith QArith Qabs Bool List String Lia Lqa Sorted Permutation.
From Leaspy Require Import Base.QAux Api.Simulate Api.SimulateProofs Api.SimulateGen.
Import ListNotations.

(* ------------------------------------------------------------------------------------------ *)
(** * lists *)

Lemma map_fst_combine {A B} (a : list A) : forall b : list B, List.length a = List.length b -> map fst (combine a b) = a.
Proof. induction a as [|x a IH]; intros [|y b] H; simpl in *; try discriminate; [reflexivity|]. f_equal. apply IH. lia. Qed.

Lemma Forall_combine_snd {A B} (Pr : B -> Prop) (a : list A) : forall b : list B,
  Forall Pr b -> Forall (fun it => Pr (snd it)) (combine a b).
Proof.
  induction a as [|x a IH]; intros [|y b] H; simpl; try constructor.
  - inversion H; subst. assumption.
  - inversion H; subst. now apply IH.
Qed.

Lemma ssorted_lt_gap l : StronglySorted Z.lt l -> forall l1 a b l2, l = (l1 ++ a :: b :: l2)%list -> (a + 1 <= b)%Z.
Proof.
  intros H l1. revert l H. induction l1 as [|x l1 IH]; intros l H a b l2 ->; simpl in H.
  - inversion H as [|? ? _ Hf]; subst. inversion Hf; subst. lia.
  - inversion H; subst. eapply IH; eauto.
Qed.

(** a strictly increasing list is determined by its elements *)
Lemma ssorted_lt_ext l1 : forall l2,
  StronglySorted Z.lt l1 -> StronglySorted Z.lt l2 -> (forall k, In k l1 <-> In k l2) -> l1 = l2.
Proof.
  induction l1 as [|a l1 IH]; intros [|b l2] H1 H2 E.
  - reflexivity.
  - exfalso. exact (proj2 (E b) (or_introl eq_refl)).
  - exfalso. exact (proj1 (E a) (or_introl eq_refl)).
  - inversion H1 as [|? ? S1 F1]; subst. inversion H2 as [|? ? S2 F2]; subst.
    rewrite Forall_forall in F1, F2.
    assert (a = b).
    { destruct (proj1 (E a) (or_introl eq_refl)) as [->|Ha]; [reflexivity|].
      destruct (proj2 (E b) (or_introl eq_refl)) as [->|Hb]; [reflexivity|].
      specialize (F1 _ Hb). specialize (F2 _ Ha). lia. }
    subst b. f_equal. apply IH; auto. intros k. split; intros Hk.
    + destruct (proj1 (E k) (or_intror Hk)) as [<-|]; [|assumption]. specialize (F1 _ Hk). lia.
    + destruct (proj2 (E k) (or_intror Hk)) as [<-|]; [|assumption]. specialize (F2 _ Hk). lia.
Qed.

Lemma idv_eqb_eq a b : idv_eqb a b = true <-> a = b.
Proof.
  destruct a, b; simpl; split; intros H; try discriminate; try reflexivity.
  - apply String.eqb_eq in H. now subst.
  - injection H as <-. apply String.eqb_refl.
  - apply Z.eqb_eq in H. now subst.
  - injection H as <-. apply Z.eqb_refl.
Qed.

Lemma tape_size_app {T} (a b : list (draw T)) : tape_size (a ++ b) = (tape_size a + tape_size b)%nat.
Proof. induction a as [|x a IH]; simpl; [reflexivity|]. rewrite IH. lia. Qed.

Lemma calls_draws_app n a b : calls_draws n (a ++ b) = (calls_draws n a + calls_draws n b)%nat.
Proof. induction a as [|x a IH]; simpl; [reflexivity|]. rewrite IH. lia. Qed.

(** units: consecutive keys one unit apart are at least 10^-p apart as ages *)
Lemma age_of_gap p a b : (0 <= p)%Z -> (a + 1 <= b)%Z -> age_of p a + 1 / pow10 p <= age_of p b.
Proof.
  intros Hp H. unfold age_of. pose proof (pow10_pos p Hp) as P.
  assert (E : inject_Z a / pow10 p + 1 / pow10 p == (inject_Z a + 1) / pow10 p) by (field; lra).
  rewrite E. unfold Qdiv. apply Qmult_le_compat_r; [|apply Qlt_le_weak, Qinv_lt_0_compat, P].
  change 1 with (inject_Z 1). rewrite <- inject_Z_plus. rewrite <- Zle_Qle. exact H.
Qed.

(* ------------------------------------------------------------------------------------------ *)
Section GenProofs.
  Variable T : Type.
  Variable add : T -> T -> T.
  Variable absT : T -> T.
  Variable ltb : T -> T -> bool.
  Variable key : Z -> T -> Z.
  Variable ofQ : Q -> T.

  (** * post-processing *)

  Lemma final_ages_sorted p out id : StronglySorted Z.lt (final_ages T key p out id).
  Proof.
    unfold final_ages. change (fun r : srow => snd (rkey r)) with kz.
    apply ssorted_le_nodup_lt.
    - apply ssorted_map_le, sort_rows_sorted.
    - eapply Permutation_NoDup; [apply Permutation_map, Permutation_sym, sort_rows_perm|].
      apply (NoDup_map_kz id).
      + intros r. apply rows_of_id.
      + unfold rows_of. apply NoDup_map_filter, dedup_first_nodup.
  Qed.

  Lemma in_grows p out r :
    In r (grows T key p out) <-> exists id l t, In (id, l) out /\ In t l /\ r = (id, key p t, @nil Q).
  Proof.
    unfold grows. rewrite in_flat_map. split.
    - intros ([id l] & Hin & Hr). simpl in Hr. apply in_map_iff in Hr. destruct Hr as (t & <- & Ht).
      exists id, l, t. auto.
    - intros (id & l & t & H1 & H2 & ->). exists (id, l). split; [exact H1|]. simpl. apply in_map_iff. eauto.
  Qed.

  (** the returned ages of an individual are exactly the rounded requested ages of that individual *)
  Lemma final_ages_in p out id k :
    In k (final_ages T key p out id) <-> exists l t, In (id, l) out /\ In t l /\ k = key p t.
  Proof.
    unfold final_ages. rewrite in_map_iff. split.
    - intros (r & <- & Hr). eapply Permutation_in in Hr; [|apply sort_rows_perm].
      pose proof (rows_of_id _ _ _ Hr) as Hid. unfold rows_of in Hr. apply filter_In in Hr. destruct Hr as [Hr _].
      apply dedup_first_incl in Hr. apply in_grows in Hr. destruct Hr as (id' & l & t & H1 & H2 & ->).
      simpl in *. subst id'. eauto.
    - intros (l & t & H1 & H2 & ->).
      assert (G : In (id, key p t, @nil Q) (grows T key p out)) by (apply in_grows; exists id, l, t; auto).
      destruct (dedup_first_complete _ _ G) as (r' & Hr' & E). exists r'. split; [now rewrite E|].
      eapply Permutation_in; [apply Permutation_sym, sort_rows_perm|]. unfold rows_of. apply filter_In.
      split; [exact Hr'|]. rewrite E. simpl. apply String.eqb_refl.
  Qed.

  Lemma final_ages_nonempty p out id l : In (id, l) out -> l <> [] -> final_ages T key p out id <> [].
  Proof.
    intros H Hl C. destruct l as [|t l]; [now apply Hl|].
    assert (K : In (key p t) (final_ages T key p out id)) by (apply final_ages_in; exists (t :: l), t; simpl; auto).
    rewrite C in K. exact K.
  Qed.

  Lemma final_table_ids p out : map fst (final_table T key p out) = map fst out.
  Proof. unfold final_table. rewrite map_map. reflexivity. Qed.

  Lemma final_table_in p out id ks : In (id, ks) (final_table T key p out) -> ks = final_ages T key p out id /\ In id (map fst out).
  Proof.
    unfold final_table. intros H. apply in_map_iff in H. destruct H as ([i l] & E & H). simpl in E. injection E as <- <-.
    split; [reflexivity|]. apply in_map_iff. exists (i, l). auto.
  Qed.

  (** * consumption of the tape: every logged call is one element of the tape, and conversely *)

  Lemma eval_vec_draws n e x : forall tp l r g,
    eval_vec T add absT n e x tp = GOk (l, r, g) -> tape_size tp = (calls_draws n g + tape_size r)%nat /\ g = static_calls x.
  Proof.
    induction x as [c| |[[lo sc] [|]]|a IH|a IHa b IHb]; simpl; intros tp l r g H.
    - destruct (elookup T c e); [|discriminate]. injection H as <- <- <-. auto.
    - discriminate.
    - destruct tp as [|[v|s] tp']; try discriminate.
      destruct (List.length v =? n)%nat eqn:E; [|discriminate]. injection H as <- <- <-.
      apply Nat.eqb_eq in E. simpl. unfold call_draws. simpl. split; [lia | reflexivity].
    - discriminate.
    - destruct (eval_vec T add absT n e a tp) as [[[l1 r1] g1]| | |] eqn:E; simpl in H; try discriminate.
      injection H as <- <- <-. eapply IH; eauto.
    - destruct (eval_vec T add absT n e a tp) as [[[l1 r1] g1]| | |] eqn:E1; simpl in H; try discriminate.
      destruct (eval_vec T add absT n e b r1) as [[[l2 r2] g2]| | |] eqn:E2; simpl in H; try discriminate.
      destruct (zip_add T add l1 l2); [|discriminate]. injection H as <- <- <-.
      destruct (IHa _ _ _ _ E1) as [A1 A2]. destruct (IHb _ _ _ _ E2) as [B1 B2].
      rewrite calls_draws_app. split; [lia | congruence].
  Qed.

  Lemma eval_scal_draws n t x : forall tp v r g,
    eval_scal T add absT t x tp = GOk (v, r, g) -> tape_size tp = (calls_draws n g + tape_size r)%nat /\ g = static_calls x.
  Proof.
    revert t. induction x as [c| |[[lo sc] [|]]|a IH|a IHa b IHb]; simpl; intros t tp v r g H.
    - discriminate.
    - injection H as <- <- <-. auto.
    - discriminate.
    - destruct tp as [|[w|s] tp']; try discriminate. injection H as <- <- <-. simpl. unfold call_draws. simpl. auto.
    - destruct (eval_scal T add absT t a tp) as [[[v1 r1] g1]| | |] eqn:E; simpl in H; try discriminate.
      injection H as <- <- <-. eapply IH; eauto.
    - destruct (eval_scal T add absT t a tp) as [[[v1 r1] g1]| | |] eqn:E1; simpl in H; try discriminate.
      destruct (eval_scal T add absT t b r1) as [[[v2 r2] g2]| | |] eqn:E2; simpl in H; try discriminate.
      injection H as <- <- <-.
      destruct (IHa _ _ _ _ _ E1) as [A1 A2]. destruct (IHb _ _ _ _ _ E2) as [B1 B2].
      rewrite calls_draws_app. split; [lia | congruence].
  Qed.

  Lemma run_loop_draws n step : forall fuel t fu tp l r g,
    run_loop T add absT ltb fuel step t fu tp = GOk (l, r, g) ->
    tape_size tp = (calls_draws n g + tape_size r)%nat /\ g = flat_map (fun _ => static_calls step) l.
  Proof.
    induction fuel as [|f IH]; intros t fu tp l r g; simpl.
    - destruct (ltb t fu); [discriminate|]. intros H. injection H as <- <- <-. auto.
    - destruct (ltb t fu); [|intros H; injection H as <- <- <-; auto].
      destruct (eval_scal T add absT t step tp) as [[[t' r1] g1]| | |] eqn:E1; simpl; try discriminate.
      destruct (run_loop T add absT ltb f step t' fu r1) as [[[l2 r2] g2]| | |] eqn:E2; simpl; try discriminate.
      intros H. injection H as <- <- <-.
      destruct (eval_scal_draws n _ _ _ _ _ _ E1) as [A1 A2]. destruct (IH _ _ _ _ _ _ E2) as [B1 B2].
      rewrite calls_draws_app. simpl. split; [lia | congruence].
  Qed.

  Lemma run_inds_draws n fuel lp e : forall is tp vs r g,
    run_inds T add absT ltb fuel lp e is tp = GOk (vs, r, g) ->
    tape_size tp = (calls_draws n g + tape_size r)%nat /\
    g = flat_map (fun v => flat_map (fun _ => static_calls (lp_step lp)) (loop_ages lp v)) vs /\
    List.length vs = List.length is /\ (lp_keep_start lp = true -> Forall (fun l => l <> []) vs).
  Proof.
    induction is as [|i rest IH]; simpl; intros tp vs r g H.
    - injection H as <- <- <-. repeat split; auto.
    - destruct (col_at T e (lp_start lp) i) as [t0|]; [|discriminate].
      destruct (col_at T e (lp_end lp) i) as [fu|]; [|discriminate].
      destruct (run_loop T add absT ltb fuel (lp_step lp) t0 fu tp) as [[[l r1] g1]| | |] eqn:E1; simpl in H; try discriminate.
      destruct (run_inds T add absT ltb fuel lp e rest r1) as [[[ls r2] g2]| | |] eqn:E2; simpl in H; try discriminate.
      injection H as <- <- <-.
      destruct (run_loop_draws n _ _ _ _ _ _ _ _ E1) as [A1 A2]. destruct (IH _ _ _ _ E2) as (B1 & B2 & B3 & B4).
      rewrite calls_draws_app. split; [lia|]. split.
      + simpl. unfold loop_ages at 1. destruct (lp_keep_start lp); simpl; congruence.
      + split; [simpl; now rewrite B3|]. intros K. constructor; [rewrite K; discriminate | auto].
  Qed.

  Lemma run_cols_draws n : forall cs e tp e' r g,
    run_cols T add absT n e cs tp = GOk (e', r, g) ->
    tape_size tp = (calls_draws n g + tape_size r)%nat /\ g = cols_calls cs.
  Proof.
    induction cs as [|[c x] rest IH]; simpl; intros e tp e' r g H.
    - injection H as <- <- <-. auto.
    - destruct (eval_vec T add absT n e x tp) as [[[l r1] g1]| | |] eqn:E1; simpl in H; try discriminate.
      destruct (run_cols T add absT n ((c, l) :: e) rest r1) as [[[e2 r2] g2]| | |] eqn:E2; simpl in H; try discriminate.
      injection H as <- <- <-.
      destruct (eval_vec_draws _ _ _ _ _ _ _ E1) as [A1 A2]. destruct (IH _ _ _ _ _ E2) as [B1 B2].
      rewrite calls_draws_app. unfold cols_calls in *. simpl. split; [lia | congruence].
  Qed.

  (** * the random design *)

  Lemma run_random_spec P n nsrc tp out r g :
    run_random T add absT ltb P n nsrc tp = GOk (out, r, g) ->
    map fst out = ids_random n /\
    (lp_keep_start (gp_loop P) = true -> Forall (fun it => snd it <> []) out) /\
    tape_size tp = (calls_draws n g + tape_size r)%nat /\
    g = (cols_calls (ip_cols P nsrc) ++ cols_calls (gp_cols P) ++ loop_calls (gp_loop P) out)%list.
  Proof.
    unfold run_random.
    destruct (run_cols T add absT n [] (ip_cols P nsrc) tp) as [[[e r1] g1]| | |] eqn:E1; simpl; try discriminate.
    destruct (run_cols T add absT n e (gp_cols P) r1) as [[[e' r2] g2]| | |] eqn:E2; simpl; try discriminate.
    destruct (run_inds T add absT ltb (S (List.length r2)) (gp_loop P) e' (seq 0 n) r2) as [[[vs r3] g3]| | |] eqn:E3;
      simpl; try discriminate.
    intros H. injection H as <- <- <-.
    destruct (run_cols_draws _ _ _ _ _ _ _ E1) as [A1 A2]. destruct (run_cols_draws _ _ _ _ _ _ _ E2) as [B1 B2].
    destruct (run_inds_draws n _ _ _ _ _ _ _ _ E3) as (C1 & C2 & C3 & C4). rewrite seq_length in C3.
    assert (L : List.length (ids_random n) = List.length vs) by (rewrite C3; apply ids_random_spec).
    split; [now apply map_fst_combine|]. split; [intros K; apply (Forall_combine_snd (fun l : list T => l <> [])); auto|].
    rewrite !calls_draws_app. split; [lia|]. subst g1 g2 g3. f_equal. f_equal.
    unfold loop_calls. clear -L. revert vs L. generalize (ids_random n) as ids.
    induction ids as [|i ids IH]; intros [|v vs] L; simpl in *; try discriminate; [reflexivity|].
    f_equal. apply IH. lia.
  Qed.

  (** * the table design *)

  Lemma in_table_ids f s : In s (table_ids f) <-> In (IdStr s) (map fst (rows f)).
  Proof.
    unfold table_ids. rewrite in_flat_map. split.
    - intros (i & Hi & Hs). apply (proj1 (uniq_in idv_eqb idv_eqb_eq _ _)) in Hi. apply filter_In in Hi. destruct Hi as [Hi _].
      destruct i; simpl in Hs; try contradiction. destruct Hs as [<-|[]]. exact Hi.
    - intros H. exists (IdStr s). split; [|simpl; auto].
      apply (proj2 (uniq_in idv_eqb idv_eqb_eq _ _)). apply filter_In. split; [exact H | reflexivity].
  Qed.

  Lemma table_ids_nodup f : NoDup (table_ids f).
  Proof.
    unfold table_ids. generalize (uniq_nodup idv_eqb idv_eqb_eq (filter (fun i => negb (is_null i)) (map fst (rows f)))).
    generalize (uniq idv_eqb (filter (fun i => negb (is_null i)) (map fst (rows f)))) as l.
    induction l as [|i l IH]; intros Hn; simpl; [constructor|]. inversion Hn as [|? ? Hx Hd]; subst.
    destruct i as [s| |]; simpl; auto. constructor; [|auto].
    intros C. apply in_flat_map in C. destruct C as (j & Hj & Hs). destruct j; simpl in Hs; try contradiction.
    destruct Hs as [<-|[]]. contradiction.
  Qed.

  (** as many individuals as the constructor counted ([patient_number] of a table design is [n_groups]) *)
  Lemma table_ids_length f : all_string_ids f = true -> List.length (table_ids f) = n_groups f.
  Proof.
    intros H. unfold table_ids, n_groups.
    assert (A : forall i, In i (uniq idv_eqb (filter (fun i => negb (is_null i)) (map fst (rows f)))) -> exists s, i = IdStr s).
    { intros i Hi. apply (proj1 (uniq_in idv_eqb idv_eqb_eq _ _)) in Hi. apply filter_In in Hi. destruct Hi as [Hi _].
      apply in_map_iff in Hi. destruct Hi as (r & <- & Hr). unfold all_string_ids in H. rewrite forallb_forall in H.
      specialize (H _ Hr). destruct (fst r); try discriminate. eauto. }
    revert A. generalize (uniq idv_eqb (filter (fun i => negb (is_null i)) (map fst (rows f)))) as l.
    induction l as [|i l IH]; intros A; simpl; [reflexivity|].
    destruct (A i (or_introl eq_refl)) as (s & ->). simpl. f_equal. apply IH. intros j Hj. apply A. now right.
  Qed.

  Lemma in_table_times f id t : In t (table_times T ofQ f id) <-> exists q, In (IdStr id, Some q) (rows f) /\ t = ofQ q.
  Proof.
    unfold table_times. rewrite in_flat_map. split.
    - intros ([i [q|]] & Hr & Ht); destruct i as [s| |]; simpl in Ht; try contradiction.
      destruct (String.eqb s id) eqn:E; [|contradiction]. apply String.eqb_eq in E. subst s.
      destruct Ht as [<-|[]]. eauto.
    - intros (q & Hr & ->). exists (IdStr id, Some q). split; [exact Hr|]. simpl. rewrite String.eqb_refl. simpl. auto.
  Qed.

  Lemma run_table_spec P nsrc f tp out r g :
    run_table T add absT ofQ P nsrc f tp = GOk (out, r, g) ->
    all_string_ids f = true /\ out = map (fun id => (id, table_times T ofQ f id)) (table_ids f) /\
    tape_size tp = (calls_draws (n_groups f) g + tape_size r)%nat /\ g = cols_calls (ip_cols P nsrc).
  Proof.
    unfold run_table. destruct (all_string_ids f) eqn:A; simpl; [|discriminate].
    destruct (run_cols T add absT (List.length (table_ids f)) [] (ip_cols P nsrc) tp) as [[[e r1] g1]| | |] eqn:E1;
      simpl; try discriminate.
    intros H. injection H as <- <- <-. destruct (run_cols_draws _ _ _ _ _ _ _ E1) as [A1 A2].
    rewrite (table_ids_length f A) in A1. auto.
  Qed.

  (** the ages of a table-driven individual: exactly the table's ages of that ID, rounded — whatever the order (and the
      labels, which the model does not have) of the table's rows *)
  Lemma table_ages_exact f p id k :
    In k (final_ages T key p (map (fun id => (id, table_times T ofQ f id)) (table_ids f)) id) <->
    exists q, In (IdStr id, Some q) (rows f) /\ k = key p (ofQ q).
  Proof.
    rewrite final_ages_in. split.
    - intros (l & t & H1 & H2 & ->). apply in_map_iff in H1. destruct H1 as (i & E & Hi). injection E as -> <-.
      apply in_table_times in H2. destruct H2 as (q & Hq & ->). eauto.
    - intros (q & Hq & ->). exists (table_times T ofQ f id), (ofQ q). split; [|split; [|reflexivity]].
      + apply in_map_iff. exists id. split; [reflexivity|]. apply in_table_ids. apply in_map_iff. exists (IdStr id, Some q). auto.
      + apply in_table_times. eauto.
  Qed.

  Lemma table_ages_permutation f f' p id :
    Permutation (rows f) (rows f') ->
    final_ages T key p (map (fun id => (id, table_times T ofQ f id)) (table_ids f)) id =
    final_ages T key p (map (fun id => (id, table_times T ofQ f' id)) (table_ids f')) id.
  Proof.
    intros Hp. apply ssorted_lt_ext; try apply final_ages_sorted. intros k. rewrite !table_ages_exact.
    split; intros (q & Hq & ->); exists q; (split; [|reflexivity]).
    - eapply Permutation_in; eauto.
    - eapply Permutation_in; [apply Permutation_sym|]; eauto.
  Qed.

  (** * the whole generation *)

  Notation generate := (generate T add absT ltb key ofQ).

  (** every individual of the requested design, once, in the order of the parameter table; each with at least one age;
      ages strictly increasing (hence unique) integers in units of 10^-p, consecutive ones at least one unit apart *)
  Definition ages_wellformed (o : gen_out T) : Prop :=
    map fst (go_ages o) = map fst (go_requested o) /\
    forall id ks, In (id, ks) (go_ages o) ->
      ks = final_ages T key (go_precision o) (go_requested o) id /\ ks <> [] /\ StronglySorted Z.lt ks /\
      (forall l1 a b l2, ks = (l1 ++ a :: b :: l2)%list -> (a + 1 <= b)%Z) /\
      (forall k, In k ks <-> exists l t, In (id, l) (go_requested o) /\ In t l /\ k = key (go_precision o) t).

  Lemma wellformed_of p out r g :
    Forall (fun it => snd it <> []) out ->
    ages_wellformed {| go_precision := p; go_requested := out; go_ages := final_table T key p out; go_rest := r; go_calls := g |}.
  Proof.
    intros F. split; [apply final_table_ids|]. simpl. intros id ks H.
    apply final_table_in in H. destruct H as [-> Hid]. split; [reflexivity|].
    apply in_map_iff in Hid. destruct Hid as ([i l] & E & Hin). simpl in E. subst i.
    split; [|split; [apply final_ages_sorted|split; [apply ssorted_lt_gap, final_ages_sorted | intros k; apply final_ages_in]]].
    rewrite Forall_forall in F. apply (final_ages_nonempty p out id l Hin). exact (F _ Hin).
  Qed.

  Lemma table_out_nonempty f :
    Forall (fun it : string * list T => snd it <> []) (map (fun id => (id, table_times T ofQ f id)) (table_ids f)) ->
    True.
  Proof. trivial. Qed.

  (** a table individual has at least one age when the table has no null TIME (validated by the constructor) *)
  Lemma table_times_nonempty f id :
    existsb (fun r => match snd r with None => true | Some _ => false end) (rows f) = false ->
    In id (table_ids f) -> table_times T ofQ f id <> [].
  Proof.
    intros Hn Hid C. apply in_table_ids in Hid. apply in_map_iff in Hid. destruct Hid as ([i [q|]] & E & Hr); simpl in E; subst i.
    - assert (K : In (ofQ q) (table_times T ofQ f id)) by (apply in_table_times; eauto). rewrite C in K. exact K.
    - assert (X : existsb (fun r : idv * option Q => match snd r with None => true | Some _ => false end) (rows f) = true).
      { apply existsb_exists. exists (IdStr id, None). auto. }
      congruence.
  Qed.

  Section Generate.
    Variable opts : list (Z * Q).
    Variable init : option Z.
    Variable dflt : Q.
    Variable P : gen_prog.
    Hypothesis keep : lp_keep_start (gp_loop P) = true.

    (** random design: the requested number of individuals "0".."n-1", well-formed ages, the precision is the one of the decision
        table, the tape is consumed exactly by the logged calls *)
    Lemma generate_random nsrc ps tp o :
      generate opts init dflt P nsrc VtRandom ps tp = GOk o ->
      exists n ms, lookup "patient_number" ps = Some (VInt n) /\ (0 <= n)%Z /\ min_spacing_of dflt ps = Some ms /\
        precision_of opts init ms = Some (go_precision o) /\
        map fst (go_ages o) = ids_random (Z.to_nat n) /\ List.length (go_ages o) = Z.to_nat n /\
        ages_wellformed o /\
        tape_size tp = (calls_draws (Z.to_nat n) (go_calls o) + tape_size (go_rest o))%nat /\
        go_calls o = (cols_calls (ip_cols P nsrc) ++ cols_calls (gp_cols P) ++ loop_calls (gp_loop P) (go_requested o))%list.
    Proof.
      unfold SimulateGen.generate. destruct (lookup "patient_number" ps) as [[n| | | | |]|]; try discriminate.
      destruct (min_spacing_of dflt ps) as [ms|]; [|discriminate].
      destruct (precision_of opts init ms) as [p|] eqn:Ep; [|discriminate].
      destruct (n <? 0)%Z eqn:En; [discriminate|]. apply Z.ltb_ge in En.
      destruct (run_random T add absT ltb P (Z.to_nat n) nsrc tp) as [[[out r] g]| | |] eqn:E; simpl; try discriminate.
      intros H. injection H as <-. apply run_random_spec in E. destruct E as (E1 & E2 & E3 & E4). specialize (E2 keep).
      exists n, ms. simpl.
      split; [reflexivity|]. split; [exact En|]. split; [reflexivity|]. split; [exact Ep|].
      split; [rewrite final_table_ids; exact E1|].
      split; [rewrite <- (map_length fst), final_table_ids, E1; apply ids_random_spec|].
      split; [now apply (wellformed_of p out r g)|]. split; assumption.
    Qed.

    (** table design: exactly the individuals of the table, well-formed ages that are exactly the table's ages of that ID rounded
        at the default precision, in any row order; the draws consumed are a function of the design and the model only *)
    Lemma generate_table nsrc ps tp o :
      generate opts init dflt P nsrc VtDataframe ps tp = GOk o ->
      existsb (fun r => match snd r with None => true | Some _ => false end)
              (match lookup "df_visits" ps with Some (VFrame f) => rows f | _ => [] end) = false ->
      exists f, lookup "df_visits" ps = Some (VFrame f) /\ all_string_ids f = true /\
        precision_of opts init dflt = Some (go_precision o) /\
        map fst (go_ages o) = table_ids f /\ NoDup (map fst (go_ages o)) /\ List.length (go_ages o) = n_groups f /\
        ages_wellformed o /\
        (forall id ks, In (id, ks) (go_ages o) ->
           forall k, In k ks <-> exists q, In (IdStr id, Some q) (rows f) /\ k = key (go_precision o) (ofQ q)) /\
        tape_size tp = (calls_draws (n_groups f) (cols_calls (ip_cols P nsrc)) + tape_size (go_rest o))%nat /\
        go_calls o = cols_calls (ip_cols P nsrc).
    Proof.
      unfold SimulateGen.generate. destruct (lookup "df_visits" ps) as [[| | | | |f]|]; try discriminate.
      destruct (precision_of opts init dflt) as [p|] eqn:Ep; [|discriminate].
      destruct (run_table T add absT ofQ P nsrc f tp) as [[[out r] g]| | |] eqn:E; simpl; try discriminate.
      intros H Hnull. injection H as <-. apply run_table_spec in E. destruct E as (A & -> & E3 & ->).
      exists f. simpl.
      assert (I : map fst (final_table T key p (map (fun id => (id, table_times T ofQ f id)) (table_ids f))) = table_ids f).
      { rewrite final_table_ids, map_map. simpl. apply map_id. }
      split; [reflexivity|]. split; [exact A|]. split; [reflexivity|]. split; [exact I|].
      split; [rewrite I; apply table_ids_nodup|].
      split; [rewrite <- (map_length fst), I; now apply table_ids_length|].
      split.
      { apply (wellformed_of p _ r). apply Forall_forall. intros [i l] Hi. apply in_map_iff in Hi.
        destruct Hi as (id & E & Hid). injection E as <- <-. simpl. now apply table_times_nonempty. }
      split; [|split; [exact E3 | reflexivity]].
      intros id ks H k. apply final_table_in in H. destruct H as [-> _]. apply table_ages_exact.
    Qed.

    (** never a crash inside the generation of an accepted design whose count is a genuine integer: the precision is total
        ([init] an integer), the columns exist, the count is a size.  What is left is the tape: too short ([GExhausted]: the visit
        loop has not ended — F10j) or not of the shape the code asks for ([GMismatch]). *)
  End Generate.
End GenProofs.

(* ------------------------------------------------------------------------------------------ *)
(** * the calls and the draws of the program of the current source ([model_prog]) *)

Lemma cols_calls_app a b : cols_calls (a ++ b) = (cols_calls a ++ cols_calls b)%list.
Proof. unfold cols_calls. apply flat_map_app. Qed.

Lemma cols_calls_sources k : cols_calls (repeat ("sources"%string, CDraw call_source) k) = repeat call_source k.
Proof. induction k as [|k IH]; simpl; [reflexivity|]. unfold cols_calls in *. simpl. now rewrite IH. Qed.

Lemma ip_calls_model nsrc : cols_calls (ip_cols model_prog nsrc) = calls_ip nsrc.
Proof. unfold ip_cols, calls_ip. rewrite cols_calls_app, cols_calls_sources. reflexivity. Qed.

Lemma loop_calls_model {T} (out : list (string * list T)) : loop_calls model_loop out = repeat call_step (later_visits out).
Proof.
  assert (A : forall l : list T, flat_map (fun _ => static_calls (lp_step model_loop)) l = repeat call_step (List.length l)).
  { induction l as [|x l IHl]; [reflexivity|].
    change (call_step :: flat_map (fun _ : T => static_calls (lp_step model_loop)) l = call_step :: repeat call_step (List.length l)).
    now rewrite IHl. }
  induction out as [|[id v] out IH]; [reflexivity|].
  change (loop_calls model_loop ((id, v) :: out))
    with (flat_map (fun _ : T => static_calls (lp_step model_loop)) (tl v) ++ loop_calls model_loop out)%list.
  change (later_visits ((id, v) :: out)) with (List.length (tl v) + later_visits out)%nat.
  rewrite IH, A, repeat_app. reflexivity.
Qed.

Lemma calls_draws_repeat n c k : calls_draws n (repeat c k) = (k * call_draws n c)%nat.
Proof. induction k as [|k IH]; simpl; [reflexivity|]. rewrite IH. lia. Qed.

Lemma calls_draws_ip n nsrc : calls_draws n (calls_ip nsrc) = ((2 + nsrc) * n)%nat.
Proof. unfold calls_ip. rewrite calls_draws_app, calls_draws_repeat. simpl. unfold call_draws. simpl. lia. Qed.

Lemma calls_draws_random n nsrc k : calls_draws n (calls_random nsrc k) = ((4 + nsrc) * n + k)%nat.
Proof.
  unfold calls_random. rewrite !calls_draws_app, calls_draws_ip, calls_draws_repeat. simpl. unfold call_draws. simpl. lia.
Qed.

(* ------------------------------------------------------------------------------------------ *)
(** * what the constructor guarantees to the generation *)

(** an accepted table design stores the number of groups as a genuine integer, and its table has no null TIME *)
Lemma accepted_table d ps :
  construct d = Ok ps -> d_visit_type d = Some VtDataframe ->
  exists f, ps = [("patient_number", VInt (Z.of_nat (n_groups f))); ("df_visits", VFrame f)]%string /\
            existsb (fun r : idv * option Q => match snd r with None => true | Some _ => false end) (rows f) = false.
Proof.
  unfold construct. intros H E. rewrite E in H. unfold set_param_study in H.
  destruct (lookup "df_visits" (d_params d)) as [[| | | | |f]|]; try discriminate.
  destruct (has_id f) eqn:Hid; [|discriminate].
  destruct (validate VtDataframe (d_features d) _) as [[]| |] eqn:V; try discriminate. injection H as <-.
  exists f. split; [reflexivity|]. unfold validate in V. destruct (check_features (d_features d)); try discriminate.
  destruct (check_params _ frame_rows) as [[]| |]; try discriminate. unfold frame_checks in V. simpl in V. rewrite Hid in V. simpl in V.
  destruct (has_time f); simpl in V; [|discriminate].
  destruct (existsb _ (rows f)); [discriminate|reflexivity].
Qed.
