(** C17 — the selection of mode_posterior ignores the temperature of the run (PersonalizeAnneal.v). *)
From Coq Require Import String ZArith QArith List Bool Lia ZifyBool.
From Leaspy Require Import Base.QAux Api.Personalize Api.PersonalizeProofs Api.PersonalizeAnneal.
Import ListNotations.

(** * argmin only sees the values up to == *)
Lemma Qlt_bool_ext x x' y y' : (x == x')%Q -> (y == y')%Q -> Qlt_bool x y = Qlt_bool x' y'.
Proof. intros Hx Hy. unfold Qlt_bool. now rewrite Hx, Hy. Qed.

Lemma argmin_from_ext l l' : Forall2 Qeq l l' ->
  forall bi b b' i, (b == b')%Q -> argmin_from bi b i l = argmin_from bi b' i l'.
Proof.
  induction 1 as [|x y l l' Hxy _ IH]; intros bi b b' i Hb; simpl; [reflexivity|].
  rewrite (Qlt_bool_ext x y b b' Hxy Hb). destruct (Qlt_bool y b'); apply IH; assumption.
Qed.

Lemma argmin_first_ext l l' : Forall2 Qeq l l' -> argmin_first l = argmin_first l'.
Proof. destruct 1 as [|x y l l' Hxy H]; simpl; [reflexivity|]. f_equal. now apply argmin_from_ext. Qed.

Lemma loss_w_1 c : (loss_w 1 c == mode_loss c)%Q.
Proof. unfold loss_w, mode_loss. ring. Qed.

Lemma loss_w_ext w w' c : (w == w')%Q -> (loss_w w c == loss_w w' c)%Q.
Proof. intros H. unfold loss_w. now rewrite H. Qed.

Lemma Forall2_map_same {A} (f g : A -> Q) (l : list A) : (forall a, (f a == g a)%Q) -> Forall2 Qeq (map f l) (map g l).
Proof. intros H. induction l; simpl; constructor; auto. Qed.

(** * the weighted selection at weight == 1 is the model's selection *)
Lemma mode_row_w_ext w w' h i : (w == w')%Q -> mode_row_w w h i = mode_row_w w' h i.
Proof.
  intros H. unfold mode_row_w. destruct (column h i) as [col|e]; simpl; [|reflexivity].
  rewrite (argmin_first_ext (map (loss_w w) col) (map (loss_w w') col)); [reflexivity|].
  apply Forall2_map_same. intros c. now apply loss_w_ext.
Qed.

Lemma mode_row_w_1 w h i : (w == 1)%Q -> mode_row_w w h i = mode_row h i.
Proof.
  intros H. rewrite (mode_row_w_ext w 1 h i H). unfold mode_row_w, mode_row. destruct (column h i) as [col|e]; simpl; [|reflexivity].
  rewrite (argmin_first_ext (map (loss_w 1) col) (map mode_loss col)); [reflexivity|].
  apply Forall2_map_same. exact loss_w_1.
Qed.

Lemma mode_posterior_w_1 w h n_ind : (w == 1)%Q -> mode_posterior_w w h n_ind = mode_posterior h n_ind.
Proof.
  intros H. unfold mode_posterior_w, mode_posterior. destruct h; [reflexivity|]. f_equal. apply map_ext. intros i. now apply mode_row_w_1.
Qed.

Lemma personalize_mode_w_1 w c n nb ids : (w == 1)%Q -> personalize_mode_w w c n nb ids = personalize_mode c n nb ids.
Proof. intros H. unfold personalize_mode_w, personalize_mode. now rewrite mode_posterior_w_1. Qed.

(** the annealed run returns what the plain model returns on its chain, whatever the schedule *)
Lemma annealed_is_plain r n nb ids : personalize_mode_annealed r n nb ids = personalize_mode (run_chain r) n nb ids.
Proof. unfold personalize_mode_annealed, selection_weight, regularity_factor. apply personalize_mode_w_1. reflexivity. Qed.

(** * the statement of C17_mode for an annealed run: UNTEMPERED loss, for every schedule; the schedule is irrelevant *)
Theorem mode_ignores_temperature c tinv n nb ids out :
  personalize_mode_annealed (mkRun c tinv) n nb ids = Ok out ->
  (aligned ids out /\
   forall i, (i < length ids)%nat -> exists k cl,
     kept n nb k /\ nth_error (c k) i = Some cl /\ nth_error (map snd out) i = Some (vals cl) /\
     (forall k' cl', kept n nb k' -> nth_error (c k') i = Some cl' -> (mode_loss cl <= mode_loss cl')%Q) /\
     (forall k' cl', kept n nb k' -> (k' < k)%Z -> nth_error (c k') i = Some cl' -> (mode_loss cl < mode_loss cl')%Q)) /\
  (forall tinv', personalize_mode_annealed (mkRun c tinv') n nb ids = Ok out).
Proof.
  intros H. rewrite annealed_is_plain in H. simpl in H. split.
  - apply personalize_mode_spec in H. unfold aligned. tauto.
  - intros tinv'. rewrite annealed_is_plain. exact H.
Qed.

(** the tempered rule agrees with the code's rule when the run ends at temperature 1 (every default run) ... *)
Lemma tempered_agrees_at_T1 r n nb ids :
  (run_tinv r (n + 1) == 1)%Q -> personalize_mode_tempered r n nb ids = personalize_mode_annealed r n nb ids.
Proof.
  intros H. rewrite annealed_is_plain. unfold personalize_mode_tempered. apply personalize_mode_w_1.
  unfold regularity_factor. rewrite H. reflexivity.
Qed.

(** ... and differs from it on a run that ends at temperature 3: it returns a kept draw of strictly HIGHER loss *)
Definition ex_run : annealed_run :=
  mkRun (fun k => if (k =? 1)%Z then [mkCell [10] 1 3] else [mkCell [20] 2 1]) (fun _ => 1 # 3).

Lemma tempered_selection_differs :
  exists r n nb ids out out' k k' cl cl',
    (0 < run_tinv r (n + 1) /\ run_tinv r (n + 1) < 1)%Q /\
    personalize_mode_annealed r n nb ids = Ok out /\ personalize_mode_tempered r n nb ids = Ok out' /\
    kept n nb k /\ kept n nb k' /\ nth_error (run_chain r k) 0 = Some cl /\ nth_error (run_chain r k') 0 = Some cl' /\
    map snd out = [vals cl] /\ map snd out' = [vals cl'] /\ (mode_loss cl < mode_loss cl')%Q.
Proof.
  exists ex_run, 2%Z, 0%Z, [StrId "a"], [("a"%string, [20])], [("a"%string, [10])], 2%Z, 1%Z, (mkCell [20] 2 1), (mkCell [10] 1 3).
  repeat split; try reflexivity; try (unfold kept; lia).
Qed.

(** non-vacuity of [mode_ignores_temperature]: a run at temperature 3 throughout, two schedules, same answer *)
Example ex_annealed : personalize_mode_annealed ex_run 2 0 [StrId "a"] = Ok [("a"%string, [20])] /\
  personalize_mode_annealed (mkRun (run_chain ex_run) (fun k => 1 # 7)) 2 0 [StrId "a"] = Ok [("a"%string, [20])].
Proof. split; vm_compute; reflexivity. Qed.
