(* C13 — the flow check on the programs REGENERATED from today's source (LeaspyGen.GenC13), symbolically, for every instance
   (any number of individuals / requests, any variable lists, any values, any sampler / optimiser activity):
   * `gen_mcmc` and `gen_estimate(_joint)` PASS it under computable hypotheses on the instance (what the initialisation
     functions read is determined by kept variables; kept + data + individual variables are closed / the variables read by
     estimate depend on kept variables, "t" and the given individual parameters only) — so `C13_history_independent` applies
     to the generated programs without evaluating the check on a trace;
   * `gen_scipy` FAILS it as soon as the per-individual initialisation reads a variable that is not determined by kept + data
     variables (it reads the individual values the state holds: finding F6), with a concrete pair of states on the memo
     table giving different answers. *)
From Coq Require Import List Arith Bool String Lia.
From Leaspy Require Import Api.ApiModel Api.ApiProofs Api.ApiCalls Api.ApiCallsProofs Api.SrcProg Api.SrcProgProofs
  Api.SrcProgGenProofs Api.SrcFlow Api.SrcFlowProofs.
From LeaspyGen Require Import GenC13.
Import ListNotations.

Section GenFlow.
  Variable V : Type.
  Variable sread : st V -> nat -> st V * option V.
  Variable swrite : st V -> nat -> option V -> st V.
  Variable sclone : st V -> st V.
  Variable tracked : list nat.
  Variable tape : gen -> nat -> V.
  Variable seed_pos : gen -> nat -> nat.
  Variable anc : nat -> list nat.
  Variable indep : nat -> bool.
  Variable simOn : view -> st V -> st V -> Prop.
  Hypothesis SI : state_interface V sread swrite sclone anc indep simOn.

  Notation api_call := (api_call V sread swrite sclone tracked tape seed_pos).
  Notation flow_all := (flow_all V anc).

  Lemma gen_mcmc_denotes (I : inst V) :
    denote V I gen_mcmc
    = Some (mcmc_full_reads V (i_seed V I) (inst_data V I) (inst_init V I) (inst_sampling V I) (mcmc_dvars V I) (i_ind V I) (mcmc_tail V I)).
  Proof. rewrite gen_mcmc_is_ref, ref_mcmc_denotes, mcmc_call_is_full_reads. reflexivity. Qed.

  Lemma mcmc_closed_hyp (kept : view) (I : inst V) :
    closed anc (mcmc_view V kept I) ->
    closed anc (vadds (map (it_var V) (inst_init V I)) (vadds (map fst (inst_data V I)) kept)).
  Proof. now rewrite inst_init_vars, inst_data_vars. Qed.

  (* MCMC personalisation as written in the source today *)
  Theorem src_mcmc_history_independent (kept : view) (I : inst V) :
    mcmc_reads_kept V anc kept I = true ->
    closed anc (mcmc_view V kept I) ->
    exists script,
      denote V I gen_mcmc = Some script
      /\ flow_all 1 ([kept], 0) script <> None
      /\ forall s s' p p', simOn kept s s' -> orel (same_outcome V) (api_call script s p) (api_call script s' p').
  Proof.
    intros Hr Hc. eexists. split; [apply gen_mcmc_denotes|]. apply mcmc_closed_hyp in Hc. split.
    - rewrite mcmc_full_reads_seeded, (flow_seeded V anc). apply mcmc_reads_flow; assumption.
    - intros s s' p p' Hs.
      apply (mcmc_reads_history_independent V sread swrite sclone tracked tape seed_pos anc indep simOn SI kept); assumption.
  Qed.

  (* ... clean AND repeatable: the call leaves every data / individual variable unset, the kept variables as they were, and
     the same call on the object as left, from wherever the generators were left, has the same outcome *)
  Theorem src_mcmc_repeat_same_answer (kept : view) (I : inst V) :
    sampling_ok V I = true ->
    mcmc_reads_kept V anc kept I = true ->
    closed anc (mcmc_view V kept I) ->
    (forall n, In n (mcmc_dvars V I ++ i_ind V I) -> kept n = false /\ indep n = true) ->
    exists script,
      denote V I gen_mcmc = Some script
      /\ forall s p c1, simOn ApiModel.top s s -> api_call script s p = Some c1 ->
           exists s1, model_state V c1 = Some s1 /\ cCur c1 = 1 /\ simOn kept s1 s
                      /\ (forall n, In n (mcmc_dvars V I ++ i_ind V I) -> snd (sread s1 n) = None)
                      /\ orel (same_outcome V) (api_call script s1 (cPos c1)) (Some c1).
  Proof.
    intros Hw Hr Hc Hvars. eexists. split; [apply gen_mcmc_denotes|]. apply mcmc_closed_hyp in Hc.
    intros s p c1 Hwf H.
    apply (mcmc_reads_repeat_same_answer V sread swrite sclone tracked tape seed_pos anc indep simOn SI kept) with (p := p);
      try assumption.
    - intros nv Hnv. apply in_or_app. left. rewrite <- inst_data_vars. apply in_map. exact Hnv.
    - intros x Hx. apply in_or_app. right. rewrite <- inst_init_vars. apply in_map. exact Hx.
    - pose proof (mcmc_pre_ok V I Hw) as Hpre. rewrite mcmc_pre_is_reads in Hpre.
      rewrite !forallb_app in Hpre. repeat (apply andb_true_iff in Hpre as (_ & Hpre)). exact Hpre.
    - apply mcmc_tail_late.
  Qed.

  (* estimate as written in the source today, any number of requests *)
  Theorem src_estimate_history_independent (joint : bool) (kept : view) (I : inst V) :
    est_flow_ok V anc kept (i_name V I "t")
                (if joint then estj_outs V I else [i_name V I "model"])
                (map (if joint then estj_req V I else est_req V I) (seq 0 (i_n V I))) = true ->
    exists script,
      denote V I (if joint then gen_estimate_joint else gen_estimate) = Some script
      /\ flow_all 1 ([kept], 0) script <> None
      /\ forall s s' p, simOn kept s s' -> orel (same_outcome V) (api_call script s p) (api_call script s' p).
  Proof.
    intros H. destruct joint.
    - rewrite gen_estimate_joint_is_ref, ref_estimate_joint_denotes. eexists. split; [reflexivity|]. split.
      + apply estimate_many_flow. exact H.
      + intros s s' p Hs.
        apply (estimate_many_history_independent V sread swrite sclone tracked tape seed_pos anc indep simOn SI kept); assumption.
    - rewrite gen_estimate_is_ref, ref_estimate_denotes. eexists. split; [reflexivity|]. split.
      + apply estimate_many_flow. exact H.
      + intros s s' p Hs.
        apply (estimate_many_history_independent V sread swrite sclone tracked tape seed_pos anc indep simOn SI kept); assumption.
  Qed.

  (* ------------------------------------------------------------------ scipy_minimize: the flow check REJECTS the generated program *)
  Lemma flow_gets_cur_or reads : forall (v : view) rest,
    flow_all 1 ([v], 0) (map (fun m => EGet Cur m) reads ++ rest) = None
    \/ flow_all 1 ([v], 0) (map (fun m => EGet Cur m) reads ++ rest) = flow_all 1 ([v], 0) rest.
  Proof.
    induction reads as [|m t IH]; intros v rest; [right; reflexivity|].
    simpl map. rewrite <- app_comm_cons, (flow_all_cons V anc). simpl.
    destruct (forallb v (anc m)); [apply IH | left; reflexivity].
  Qed.

  Theorem src_scipy_flow_rejected (kept : view) (I : inst V) n script :
    i_n V I <> 0 -> scipy_first_read V I n ->
    forallb (vadds (mcmc_dvars V I) kept) (anc n) = false ->
    denote V I gen_scipy = Some script ->
    flow_all 1 ([kept], 0) script = None.
  Proof.
    intros Hn (w & Hw) Hbad. rewrite gen_scipy_is_ref. unfold denote, ref_scipy.
    destruct (i_n V I) as [|c] eqn:En; [contradiction|].
    cbn [denote_from denote_stmt denote_atom resolve_obj lookup d_env d_next d_repl bind_of idx_binds count_clones app String.eqb
         Ascii.eqb Bool.eqb].
    rewrite En, denote_loop_S.
    cbn [denote_atoms denote_atom resolve_obj lookup d_env d_next d_repl bind_of app String.eqb Ascii.eqb Bool.eqb Nat.add Nat.mul
         Nat.eqb put_evs vars map].
    rewrite Hw.
    match goal with |- context [denote_loop V I ?b ?d 1 c] => destruct (denote_loop V I b d 1 c) as [[e1 d1]|]; [|discriminate] end.
    match goal with |- context [denote_loop V I ?b ?d 0 (S c)] => destruct (denote_loop V I b d 0 (S c)) as [[e2 d2]|]; [|discriminate] end.
    intros H. injection H as <-.
    cbn [seed_all app map lop_on]. repeat (rewrite (flow_all_cons V anc); cbn [flow]).
    rewrite <- ?app_assoc.
    match goal with |- ApiModel.flow_all V anc 1 ([kept], 0) (map ?f (i_scal V I) ++ ?rest) = None =>
      destruct (flow_gets_cur_or (i_scal V I) kept rest) as [E|E]; rewrite E; [reflexivity|] end.
    rewrite (flow_all_cons V anc). cbn [flow resolve nth_error app].
    rewrite (flow_all_cons V anc). cbn [flow resolve nth_error Nat.add upd].
    rewrite (flow_sets_loc0 V anc (fun n0 => n0) (fun n0 => konst V (i_val V I "obs_model.getter(dataset)" 0 n0))).
    cbn [app]. rewrite (flow_all_cons V anc). cbn [flow resolve nth_error Nat.add]. rewrite map_id.
    change (vadds (i_obs V I) (vadd (i_name V I "t") kept)) with (vadds (mcmc_dvars V I) kept). rewrite Hbad. reflexivity.
  Qed.
End GenFlow.

(* ---------------------------------------------------------------------- witnesses on the memo table of ApiInst.v *)
From Coq Require Import ZArith.
From Leaspy Require Import Api.ApiInst Api.ApiCallsInst.

Module FlowDemo.
  Import Memo.
  Local Open Scope string_scope.

  (* "a" (variable 0) is the individual variable, "b" (1) the kept parameter, "c" (2) = a + b; "t" is outside the table *)
  Definition names (s : string) : nat := if String.eqb s "t" then 3 else if String.eqb s "model" then 2 else 1.

  (* scipy_minimize on one individual: `put_individual_parameters` reads the individual variable of the clone (set or not),
     draws a prior sample only if it was unset, reads it again as start point; the optimiser assigns and reads the result *)
  Definition scipy_inst : inst V :=
    Inst V names [] [0] [1] [] [1] (fun _ _ => []) 3 1
         (fun _ _ _ => Some 1%Z) (fun _ => []) (fun _ _ => None)
         (fun tag j => if String.eqb tag "patient" then [LSet 0 opt; LGet 0]
                       else [LGet 0; LDraw GTorch (is_unset V);
                             LSetIf 0 (fun r => match r with Some d :: None :: _ => Some (Some d) | _ => None end); LGet 0])
         (fun _ _ => 0).

  (* the generated scipy program on this instance: the hypotheses of src_scipy_flow_rejected hold, the flow check rejects the
     script, and two states that agree on the kept variable (after a fit / after a load) give different answers: the state
     left by a fit returns its own stale value 5 *)
  Lemma scipy_flow_refuted :
    exists script,
      denote V scipy_inst gen_scipy = Some script
      /\ i_n V scipy_inst <> 0 /\ scipy_first_read V scipy_inst 0
      /\ forallb (vadds (mcmc_dvars V scipy_inst) kept) (anc 0) = false
      /\ flow_all V anc 1 ([kept], 0) script = None
      /\ simOn kept after_fit after_load
      /\ option_map (fun c => cRegs c) (api_call script after_fit (0, 0, 0))
         <> option_map (fun c => cRegs c) (api_call script after_load (0, 0, 0))
      /\ option_map (fun c => hd_or (cRegs c)) (api_call script after_fit (0, 0, 0)) = Some (Some 5%Z).
  Proof.
    eexists. split; [vm_compute; reflexivity|].
    split; [discriminate|]. split; [eexists; reflexivity|]. split; [reflexivity|]. split; [vm_compute; reflexivity|].
    split; [exact (proj1 scipy_start_refuted)|]. split; [vm_compute; discriminate | vm_compute; reflexivity].
  Qed.

  (* non-vacuity of src_mcmc_history_independent / src_estimate_history_independent: the instances of SrcProgGenProofs.SrcDemo
     meet the hypotheses *)
  Lemma mcmc_flow_demo :
    mcmc_reads_kept V anc kept SrcDemo.mcmc_inst = true
    /\ forallb (fun n => forallb (mcmc_view V kept SrcDemo.mcmc_inst) (anc n)) [0; 1; 2; 3; 4] = true
    /\ match denote V SrcDemo.mcmc_inst gen_mcmc with
       | Some sc => option_map (fun c => cRegs c) (api_call sc after_fit (4, 5, 6))
                    = option_map (fun c => cRegs c) (api_call sc after_load (1, 1, 1))
       | None => False
       end.
  Proof. split; [reflexivity|]. split; [reflexivity|]. vm_compute. reflexivity. Qed.

  Lemma mcmc_view_closed : closed anc (mcmc_view V kept SrcDemo.mcmc_inst).
  Proof. intros n. do 3 (destruct n as [|n]; [reflexivity|]). reflexivity. Qed.

  Lemma estimate_flow_demo :
    est_flow_ok V anc kept (i_name V SrcDemo.est_inst "t") [i_name V SrcDemo.est_inst "model"]
                (map (est_req V SrcDemo.est_inst) (seq 0 (i_n V SrcDemo.est_inst))) = true.
  Proof. reflexivity. Qed.
End FlowDemo.
