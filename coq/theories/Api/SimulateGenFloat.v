(** C18 — the binary64 instance of the generation model (SimulateGen.v), over Coq's primitive floats, and the checker
    the recorded runs are re-executed with (harness/props/c18.py, [generation_cases]).  Used only by the correspondence
    (vm_compute, compared bit for bit with [float.hex()] of the implementation); the theorems of SimulateGenProofs.v hold for
    this instance as for any other, none rests on the definitions below.

    numpy: [np.random.normal] returns binary64; [+], [np.abs], [<] are the IEEE operations; [Series.round(p)] is
    [rint(x * 10^p) / 10^p] ([rint(x)] for p = 0), ties to even. *)
From Coq Require Import ZArith QArith Bool List String PrimFloat Uint63 FloatOps SpecFloat.
From Leaspy Require Import Base.QAux Api.Simulate Api.SimulateGen Saem.AnnealFloat.
Import ListNotations.

Definition two52 : float := 0x1p52%float.

(** round to the nearest integer, ties to even (the default rounding mode does it at magnitude 2^52) *)
Definition f_rint (x : float) : float :=
  if (abs x <? two52)%float then
    (if (x <? 0)%float then (x - two52) + two52 else (x + two52) - two52)%float
  else x.

Definition f_finite (x : float) : bool :=
  match Prim2SF x with S754_zero _ | S754_finite _ _ _ => true | _ => false end.

Definition f_pow10 (p : Z) : float := Z2F (10 ^ p).

(** the rounded age in units of 10^-p; 0 for a NaN / infinite age — [check_generation] tests finiteness first *)
Definition f_key (p : Z) (x : float) : Z :=
  match F2Z_trunc (f_rint (if (p =? 0)%Z then x else x * f_pow10 p)%float) with Some z => z | None => 0%Z end.

(** the age pandas stores for key [k] *)
Definition f_age (p : Z) (k : Z) : float := if (p =? 0)%Z then Z2F k else (Z2F k / f_pow10 p)%float.

(** a binary64 given as its exact rational (dyadic, denominator below 2^62 — else NaN) *)
Definition f_ofQ (q : Q) : float :=
  if (Z.pos (Qden q) <? 2 ^ 62)%Z && (Z.abs (Qnum q) <? 2 ^ 62)%Z then (Z2F (Qnum q) / Z2F (Z.pos (Qden q)))%float else nan.

Definition f_generate := generate float PrimFloat.add PrimFloat.abs PrimFloat.ltb f_key f_ofQ.

(** ** comparison with a recorded run *)

(** the numeric value of the symbolic parameters: (kind, key, value), kind in "hyper" / "model" / "study" *)
Definition valuation := list (string * string * Q).
Fixpoint vlookup (kind k : string) (v : valuation) : option Q :=
  match v with
  | [] => None
  | (kind', k', q) :: r => if String.eqb kind kind' && String.eqb k k' then Some q else vlookup kind k r
  end.
Definition val_of (v : valuation) (d : dparam) : option Q :=
  match d with
  | PConst q => Some q
  | PHyper k => vlookup "hyper" k v
  | PModel k => vlookup "model" k v
  | PStudy k => vlookup "study" k v
  end.

(** a recorded call: location, scale, size ([None]: a scalar draw) *)
Definition rcall := (Q * Q * option nat)%type.
Definition call_matches (v : valuation) (n : nat) (c : dcall) (r : rcall) : bool :=
  match c, r with
  | (lo, sc, sz), (rl, rs, rn) =>
      match val_of v lo, val_of v sc with
      | Some ql, Some qs =>
          Qeq_bool ql rl && Qeq_bool qs rs &&
          match sz, rn with SzN, Some m => Nat.eqb m n | SzScalar, None => true | _, _ => false end
      | _, _ => false
      end
  end.

Fixpoint all2 {A B} (f : A -> B -> bool) (a : list A) (b : list B) : bool :=
  match a, b with
  | [], [] => true
  | x :: a', y :: b' => f x y && all2 f a' b'
  | _, _ => false
  end.

Definition same_requested (a b : list (string * list float)) : bool :=
  all2 (fun x y => String.eqb (fst x) (fst y) && all2 fbits_eq (snd x) (snd y)) a b.
Definition same_keys (a b : list (string * list Z)) : bool :=
  all2 (fun x y => String.eqb (fst x) (fst y) && all2 Z.eqb (snd x) (snd y)) a b.
(** the stored ages, bit for bit *)
Definition same_ages (p : Z) (a : list (string * list Z)) (b : list (string * list float)) : bool :=
  all2 (fun x y => String.eqb (fst x) (fst y) && all2 (fun k t => fbits_eq (f_age p k) t) (snd x) (snd y)) a b.

Definition nsrc_of (m : model_shape) : nat := source_dimension m.

(** what the implementation did on one call *)
Record observed := {
  ob_precision : Z;                             (** documented precision of the design (independent oracle) *)
  ob_requested : list (string * list float);    (** [_generate_visit_ages], per individual of the parameter table *)
  ob_keys : list (string * list Z);             (** ages of [Result.data], in units of 10^-p *)
  ob_ages : list (string * list float);         (** ages of [Result.data] *)
  ob_calls : list rcall                         (** the calls of [numpy.random.normal], in order *)
}.

Section Check.
  Variable opts : list (Z * Q).
  Variable init : option Z.
  Variable dflt : Q.
  Variable P : gen_prog.

  (** the design goes through the modelled constructor, the generation is re-executed on the recorded tape, and everything the
      implementation produced is compared: precision, requested ages (bits), returned ages (integers and bits), the calls made,
      and the tape is consumed exactly *)
  Definition check_generation (m : model_shape) (d : design) (v : valuation) (tp : list (draw float)) (ob : observed) : bool :=
    match construct d, d_visit_type d with
    | Ok ps, Some vt =>
        match f_generate opts init dflt P (nsrc_of m) vt ps tp with
        | GOk o =>
            Z.eqb (go_precision o) (ob_precision ob) &&
            forallb (fun it => forallb f_finite (snd it)) (go_requested o) &&
            same_requested (go_requested o) (ob_requested ob) &&
            same_keys (go_ages o) (ob_keys ob) &&
            same_ages (go_precision o) (go_ages o) (ob_ages ob) &&
            all2 (call_matches v (List.length (go_ages o))) (go_calls o) (ob_calls ob) &&
            match go_rest o with [] => true | _ => false end &&
            Nat.eqb (consumed float tp o) (tape_size tp)
        | _ => false
        end
    | _, _ => false
    end.
End Check.
