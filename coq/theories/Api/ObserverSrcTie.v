(* C11 — the operation lists REGENERATED from today's source (coq/gen/GenC11Obs.v) contain allowed operations only, hence every
   script that realises them is read-only: the `read_only` hypothesis of the logging theorems is discharged from the source. *)
From Coq Require Import List Arith Bool ZArith.
From Coq Require String.
From Leaspy Require Import Api.ApiModel Api.ApiProofs Api.ApiInst Api.RunProg Api.RunProgProofs Api.RunProgTie Api.ApiTie
     Api.ObserverSrc Api.ObserverSrcProofs.
From LeaspyGen Require Import GenC11 GenC11Obs.
Import ListNotations.

(* ---------------------------------------------------------------------- T1: decided on the generated value *)
Lemma gen_ops_allowed : forallb (fun o => ops_allowed (gen_observer_ops o)) all_onames = true.
Proof. vm_compute. reflexivity. Qed.

Lemma gen_ops_allowed_each o : ops_allowed (gen_observer_ops o) = true.
Proof.
  pose proof gen_ops_allowed as H. unfold all_onames in H. simpl in H.
  repeat (apply andb_true_iff in H as (? & H)). destruct o; assumption.
Qed.

(* every method has been read: no empty list except possibly a method that touches nothing (none today) *)
Lemma gen_ops_nonempty : forallb (fun o => negb (Nat.eqb (length (gen_observer_ops o)) 0)) all_onames = true.
Proof. vm_compute. reflexivity. Qed.

Section OnGenerated.
  Variable V : Type.
  Variable sread : st V -> nat -> st V * option V.
  Variable swrite : st V -> nat -> option V -> st V.
  Variable sclone : st V -> st V.
  Variable tracked : list nat.
  Variable tape : gen -> nat -> V.
  Variable seed_pos : gen -> nat -> nat.
  Notation run_prog := (run_prog V sread swrite sclone tracked tape seed_pos).

  Theorem gen_observers_read_only (oi : oname -> nat -> list (ev V)) :
    (forall o i, realises V (gen_observer_ops o) (oi o i) = true) -> forall o i, read_only V (oi o i) = true.
  Proof. intros H o i. eapply realises_read_only; [apply gen_ops_allowed_each | apply H]. Qed.

  Theorem gen_logging_transparent_observers_from_source anc indep simOn :
    state_interface V sread swrite sclone anc indep simOn ->
    forall seed interp oi oi' base e e' c c1,
      e_aflag e FSeedSet = true -> same_algorithm e e' -> e_lflag e' LHasManager = false ->
      wf_cfg V simOn c -> (forall o i, realises V (gen_observer_ops o) (oi o i) = true) ->
      run_prog seed interp oi base e fit_prog c = Some c1 ->
      exists c2, run_prog seed interp oi' base e' fit_prog c = Some c2 /\ same_results V sread c1 c2.
  Proof.
    intros I seed interp oi oi' base e e' c c1 H1 H2 H3 H4 H5 H6.
    eapply gen_logging_transparent; eauto. apply gen_observers_read_only; auto.
  Qed.

  (* no hypothesis on the observers at all: for EVERY reading of the names (which variables a name denotes at each call, which
     variables a model-level reader reads, what is assigned on a clone) the canonical scripts of the generated lists *)
  Definition src_observers (vars : oname -> nat -> String.string -> list nat) (mv : oname -> nat -> list nat)
             (w : oname -> nat -> regs V -> option V) (o : oname) (i : nat) : list (ev V) :=
    den V (vars o i) (mv o i) (w o i) (gen_observer_ops o).

  Theorem gen_logging_transparent_canonical_observers anc indep simOn :
    state_interface V sread swrite sclone anc indep simOn ->
    forall vars mv w seed interp oi' base e e' c c1,
      e_aflag e FSeedSet = true -> same_algorithm e e' -> e_lflag e' LHasManager = false ->
      wf_cfg V simOn c ->
      run_prog seed interp (src_observers vars mv w) base e fit_prog c = Some c1 ->
      exists c2, run_prog seed interp oi' base e' fit_prog c = Some c2 /\ same_results V sread c1 c2.
  Proof.
    intros I vars mv w seed interp oi' base e e' c c1 H1 H2 H3 H4 H6.
    eapply gen_logging_transparent_observers_from_source; eauto.
    intros o i. apply den_realises.
  Qed.

  Theorem gen_observer_frame_from_source o (s : list (ev V)) c c' :
    realises V (gen_observer_ops o) s = true -> run_obs V sread swrite sclone tracked tape seed_pos s c = Some c' ->
    cPos c' = cPos c /\ cCur c' = cCur c /\ cRegs c' = cRegs c /\ cLog c' = cLog c /\ length (cS c') = length (cS c).
  Proof. intros R. apply observer_frame. eapply realises_read_only; [apply gen_ops_allowed_each | exact R]. Qed.
End OnGenerated.

(* ---------------------------------------------------------------------- non-vacuity on the memo table of ApiInst.v *)
Module GenObsDemo.
  Import Memo GenDemo.
  Definition vars1 (o : oname) (i : nat) (s : String.string) : list nat := [i mod 2].
  Definition mv1 (o : oname) (i : nat) : list nat := [2; 0].
  Definition w1 (o : oname) (i : nat) (r : regs V) : option V := Some 5%Z.
  Definition oi_src := src_observers V vars1 mv1 w1.
  Definition run (e : env) := run_prog V sread swrite sclone tracked tape seed_pos 3 interp1 oi_src 1 e fit_prog c0.

  (* the scripts read from the source do something (at least one event in total) and the logged run equals the plain one *)
  Example observers_do_something : negb (Nat.eqb (length (flat_map (fun o => oi_src o 1) all_onames)) 0) = true.
  Proof. vm_compute. reflexivity. Qed.

  Example logged_equals_plain :
    final_view (run e1) = final_view (run (logging_off e1)) /\ final_view (run e1) <> None.
  Proof. split; vm_compute; [reflexivity | discriminate]. Qed.
End GenObsDemo.

(* ---------------------------------------------------------------------- T2: a recorded observer call performs only the operations
   read from the source.  case = (the methods the output manager ran at that iteration — 0 print_algo, 1 print_model, 2 print_time,
   3 save, 4 plot-patients, 5 plot-convergence —, the State / generator operations recorded during the call, ApiTie.v encoding) *)
Definition oname_of (n : nat) : option oname :=
  match n with
  | 0 => Some OPrintAlgo | 1 => Some OPrintModel | 2 => Some OPrintTime | 3 => Some OSave | 4 => Some OPlotPatients
  | 5 => Some OPlotConvergence | _ => None
  end.
Definition ops_of_codes (l : list nat) : list obs_op :=
  flat_map (fun n => match oname_of n with Some o => gen_observer_ops o | None => [] end) l.
Definition check_observer_segment (c : list nat * list rop) : bool :=
  match c with
  | (obs, seg) =>
      forallb (fun n => match oname_of n with Some _ => true | None => false end) obs
      && match decode_all seg with Some d => realises U (ops_of_codes obs) d | None => false end
  end.

(* the check is not vacuous: a save-only call may not read through the model, a print call may not clone, nobody may draw *)
Example check_observer_segment_refuses :
  check_observer_segment ([3], [(4, 0, 0)]) = true /\ check_observer_segment ([3], [(4, 0, 0); (3, 0, 0)]) = false
  /\ check_observer_segment ([0; 1; 2], [(6, 0, 2)]) = false /\ check_observer_segment ([4], [(1, 0, 3)]) = false
  /\ check_observer_segment ([4], [(3, 0, 0); (1, 1, 3); (0, 1, 2); (0, 0, 1)]) = true.
Proof. vm_compute. repeat split; reflexivity. Qed.
