(* Executable side of the flow theorems on the generated programs (C13; run with vm_compute from harness/props/c13.py).

   For each recorded MCMC / estimate / scipy call the harness passes the independent-ancestor table of the model's DAG, the
   kept variables and the static instance (SrcProgTie.sinst: variable lists, what the initialisation functions read, the
   opaque activities cut out of the trace).  The checkers evaluate the HYPOTHESES of
   C13_src_mcmc_history_independent / C13_src_estimate_history_independent on that instance (they are about the DAG and
   the instance, not about a trace) and, redundantly, the flow check on the script the generated program denotes.
   For scipy the checker evaluates the hypotheses of C13_src_scipy_flow_refuted (the first thing the per-individual
   initialisation does is read a variable that kept + data variables do not determine). *)
From Coq Require Import List Arith Bool String.
From Leaspy Require Import Api.ApiModel Api.ApiProofs Api.ApiInst Api.ApiTie Api.ApiCalls Api.ApiCallsTie Api.SrcProg
  Api.SrcProgProofs Api.SrcProgTie Api.SrcFlow.
From LeaspyGen Require Import GenC13.
Import ListNotations.

(* `closed` on a finite table: variables beyond the table have no ancestor *)
Definition closed_b (anc : list (list nat)) (U : view) : bool :=
  forallb (fun n => forallb U (ancf anc n)) (seq 0 (List.length anc)).

(* case = (anc, kept, instance) *)
Definition check_mcmc_flow_src (c : list (list nat) * list nat * sinst) : bool :=
  match c with
  | (anc, kept, s) =>
      let I := inst_of s in
      mcmc_reads_kept U (ancf anc) (ApiTie.mem kept) I
      && closed_b anc (mcmc_view U (ApiTie.mem kept) I)
      && match denote U I gen_mcmc with Some sc => flow_ok anc kept sc | None => false end
  end.

(* case = (joint?, anc, kept, instance) *)
Definition check_estimate_flow_src (c : bool * list (list nat) * list nat * sinst) : bool :=
  match c with
  | (joint, anc, kept, s) =>
      let I := inst_of s in
      est_flow_ok U (ancf anc) (ApiTie.mem kept) (i_name U I "t")
                  (if joint then estj_outs U I else [i_name U I "model"])
                  (map (if joint then estj_req U I else est_req U I) (seq 0 (i_n U I)))
      && match denote U I (if joint then gen_estimate_joint else gen_estimate) with
         | Some sc => flow_ok anc kept sc
         | None => false
         end
  end.

(* case = (anc, kept, instance): true when the hypotheses of the refutation hold on the recorded instance AND the flow check
   rejects the denoted script *)
Definition check_scipy_flow_src (c : list (list nat) * list nat * sinst) : bool :=
  match c with
  | (anc, kept, s) =>
      let I := inst_of s in
      negb (i_n U I =? 0)
      && match i_work U I "put_individual_parameters" 0 with
         | LGet n :: _ => negb (forallb (vadds (mcmc_dvars U I) (ApiTie.mem kept)) (ancf anc n))
         | _ => false
         end
      && match denote U I gen_scipy with Some sc => negb (flow_ok anc kept sc) | None => false end
  end.

(* self-test (3 variables: 0 = t (data), 1 = parameter (kept), 2 = individual variable; 3 = model = f(t, parameter, individual)) *)
Definition flow_sinst (n : nat) (reads : list (nat * list nat)) (work : list (string * list (list rop))) : sinst :=
  SInst [("t"%string, 0); ("model"%string, 3)] [] [2] [1] [] [1] n
        [("pyt_individual_parameters"%string, [[]]); ("individual_parameters"%string, [[2]; [2]])] reads work [].

Example flow_checkers_selftest :
  (* the initial value of the individual variable is computed from the parameter: accepted *)
  check_mcmc_flow_src ([[0]; [1]; [2]; [0; 1; 2]], [1], flow_sinst 1 [(2, [1])] [("sampling"%string, [[(0,0,3); (1,0,2)]])]) = true
  (* ... from the model value, which depends on what the state held for the individual variable: rejected *)
  /\ check_mcmc_flow_src ([[0]; [1]; [2]; [0; 1; 2]], [1], flow_sinst 1 [(2, [3])] [("sampling"%string, [[]])]) = false
  (* an independent variable that is neither kept, data nor individual: not closed *)
  /\ check_mcmc_flow_src ([[0]; [1]; [2]; [0; 1; 2; 4]; [4]], [1], flow_sinst 1 [(2, [1])] [("sampling"%string, [[(0,0,3)]])]) = false
  /\ check_estimate_flow_src (false, [[0]; [1]; [2]; [0; 1; 2]], [1], flow_sinst 2 [] []) = true
  (* the trajectory depends on a variable the request does not assign *)
  /\ check_estimate_flow_src (false, [[0]; [1]; [2]; [0; 1; 2; 4]; [4]], [1], flow_sinst 2 [] []) = false
  (* scipy: the initialisation reads the individual variable of the clone first *)
  /\ check_scipy_flow_src ([[0]; [1]; [2]; [0; 1; 2]], [1],
                           flow_sinst 1 [] [("put_individual_parameters"%string, [[(9,1,2); (0,1,2)]]); ("patient"%string, [[(0,1,3)]])]) = true
  (* ... reads the parameter only: the refutation does not apply *)
  /\ check_scipy_flow_src ([[0]; [1]; [2]; [0; 1; 2]], [1],
                           flow_sinst 1 [] [("put_individual_parameters"%string, [[(0,1,1); (1,1,2)]]); ("patient"%string, [[(0,1,3)]])]) = false.
Proof. vm_compute. repeat split; reflexivity. Qed.

(* the finite check decides the hypothesis `closed` of the theorems *)
Lemma closed_b_sound anc U : closed_b anc U = true -> closed (ancf anc) U.
Proof.
  intros H n. unfold closed_b in H. rewrite forallb_forall in H.
  destruct (Compare_dec.lt_dec n (List.length anc)) as [L|L].
  - apply H. apply in_seq. split; [apply Nat.le_0_l | exact L].
  - unfold ancf. rewrite nth_overflow; [reflexivity|]. apply Nat.nlt_ge. exact L.
Qed.
