(* C11 — the CONTROL FLOW of a fit as a small structured program over named events (definitions only).

   `coq/gen/GenC11.v` (regenerated on every run from $VERIF_REPO/src/leaspy by harness/translate/c11_run.py) is a value
   `fit_prog : prog` read off the source of

     algo/base.py                  BaseAlgorithm.run, _initialize_seed
     algo/fit/mcmc_saem.py         TensorMcmcSaemAlgorithm._run, _initialize_algo, _iteration, _maximization_step
     algo/algo_with_annealing.py   _update_temperature (checked to touch the temperature registers only)
     algo/fit/fit_output_manager.py FitOutputManager.iteration (the guards under which anything is logged)

   This file gives such a program a semantics (loops unfolded for every n_iter, every variable order, every value of the
   configuration flags and periodicities) and a decidable shape check `well_shaped`.  RunProgProofs.v proves that every
   well-shaped program denotes exactly `fit_run` of ApiModel.v — the hand-written script of a fit. *)
From Coq Require Import List Arith Bool.
From Leaspy Require Import Api.ApiModel.
Import ListNotations.

(* ---------------------------------------------------------------------- names *)
(* algorithm-side events: what performs State / generator operations in a fit *)
Inductive aname :=
| ASeedPy | ASeedNp | ASeedTorch          (* random.seed / np.random.seed / torch.manual_seed              base.py *)
| ADeviceEnter | ADeviceExit              (* with self._device_manager(model, dataset)                     mcmc_saem.py *)
| AInitData                               (* with state.auto_fork(None): model.put_data_variables(state, dataset) *)
| AInitIndiv                              (* model.put_individual_parameters(state, dataset) *)
| AInitSamplers                           (* self._initialize_samplers(state, dataset) *)
| AInitAnnealing                          (* self._initialize_annealing() *)
| AOrder                                  (* variables = sorted(population latent + individual latent) *)
| AShuffle                                (* shuffle(variables)  — python's generator *)
| ASample                                 (* self.samplers[variable].sample(state, temperature_inv=...)   per variable *)
| ASuffStats                              (* model.compute_sufficient_statistics(state) *)
| AMStep                                  (* model.update_parameters(state, self.sufficient_statistics, burn_in=...) *)
| ATemperature                            (* self._update_temperature() *)
| AFitMetrics                             (* model.fit_metrics = self._get_fit_metrics() *)
| AFinClone                               (* model_state = state.clone() *)
| AFinPopMode                             (* with model_state.auto_fork(None): put_population_latent_variables(PRIOR_MODE) *)
| AFinReplace.                            (* model.state = model_state *)

(* observer-side events: the methods `FitOutputManager.iteration` may call *)
Inductive oname := OPrintAlgo | OPrintModel | OPrintTime | OSave | OPlotPatients | OPlotConvergence.

Inductive period := PerPrint | PerSave | PerPlot | PerPlotPatients.
(* configuration that does not depend on logging *)
Inductive aflag := FSeedSet | FProgressBar | FRandomOrder.
(* logging configuration *)
Inductive lflag := LHasManager | LHasCurrentIteration | LPathNone.

(* tests met in the source *)
Inductive gexp :=
| GTrue
| GA (f : aflag)            (* seed is not None | algo_parameters["progress_bar"] | random_order_variables *)
| GL (f : lflag)            (* output_manager is not None | hasattr(algo, "current_iteration") | path_output is None *)
| GPerSet (p : period)      (* self.periodicity_x is not None *)
| GIterZero                 (* iteration == 0 *)
| GIterDiv (p : period)     (* iteration % self.periodicity_x == 0 *)
| GNot (g : gexp) | GAnd (a b : gexp) | GOr (a b : gexp).

Inductive prog :=
| PSkip                           (* statements without State / generator / observer event: console, timing, local bookkeeping *)
| PEv (a : aname)
| PObs (o : oname)
| PSeq (p q : prog)
| PIter (body : prog)             (* for self.current_iteration in range(1, n_iter + 1) *)
| PVars (body : prog)             (* for variable in variables *)
| PIf (g : gexp) (t e : prog).

Definition pseq (l : list prog) : prog := fold_right PSeq PSkip l.

(* ---------------------------------------------------------------------- configurations and unfolding *)
Record env := Env {
  e_niter : nat;
  e_order : nat -> list nat;        (* the variables sampled at iteration i, in the order they are sampled *)
  e_aflag : aflag -> bool;
  e_lflag : lflag -> bool;
  e_per : period -> option nat      (* a periodicity: None, or an integer (>= 1 in every accepted OutputsSettings) *)
}.

Definition divides (p : option nat) (i : nat) : bool :=
  match p with Some q => (i mod q =? 0) | None => false end.

Fixpoint geval (e : env) (i : nat) (g : gexp) : bool :=
  match g with
  | GTrue => true
  | GA f => e_aflag e f
  | GL f => e_lflag e f
  | GPerSet p => match e_per e p with Some _ => true | None => false end
  | GIterZero => (i =? 0)
  | GIterDiv p => divides (e_per e p) i
  | GNot a => negb (geval e i a)
  | GAnd a b => geval e i a && geval e i b
  | GOr a b => geval e i a || geval e i b
  end.

(* an executed named event: iteration (0 outside the loop), variable (0 outside the sampler loop) *)
Inductive item := IAlg (a : aname) (i k : nat) | IObs (o : oname) (i : nat).

Fixpoint unf (e : env) (p : prog) (i k : nat) : list item :=
  match p with
  | PSkip => []
  | PEv a => [IAlg a i k]
  | PObs o => [IObs o i]
  | PSeq p q => unf e p i k ++ unf e q i k
  | PIter b => flat_map (fun i' => unf e b i' 0) (seq 1 (e_niter e))
  | PVars b => flat_map (fun k' => unf e b i k') (e_order e i)
  | PIf g t f => if geval e i g then unf e t i k else unf e f i k
  end.

Definition unfold (e : env) (p : prog) : list item := unf e p 0 0.

Definition is_alg (it : item) : bool := match it with IAlg _ _ _ => true | IObs _ _ => false end.
Definition is_obs (it : item) : bool := negb (is_alg it).

(* the same configuration with logging off: no output manager, no periodicity *)
Definition logging_off (e : env) : env :=
  Env (e_niter e) (e_order e) (e_aflag e) (fun _ => false) (fun _ => None).
(* two configurations that differ in their logging part only *)
Definition same_algorithm (e e' : env) : Prop :=
  e_niter e = e_niter e' /\ (forall i, e_order e i = e_order e' i) /\ (forall f, e_aflag e f = e_aflag e' f).

(* ---------------------------------------------------------------------- running a program on the API model *)
Section Run.
  Variable V : Type.
  Variable sread : st V -> nat -> st V * option V.
  Variable swrite : st V -> nat -> option V -> st V.
  Variable sclone : st V -> st V.
  Variable tracked : list nat.
  Variable tape : gen -> nat -> V.
  Variable seed_pos : gen -> nat -> nat.

  (* what each named event does: ANY event script per (name, iteration, variable) — except the three seeds *)
  Variable seed : nat.
  Variable interp : aname -> nat -> nat -> list (ev V).
  Variable ointerp : oname -> nat -> list (ev V).

  Definition ainterp (a : aname) (i k : nat) : list (ev V) :=
    match a with
    | ASeedPy => [ESeed GPy seed]
    | ASeedNp => [ESeed GNp seed]
    | ASeedTorch => [ESeed GTorch seed]
    | _ => interp a i k
    end.

  Fixpoint run_items (base : nat) (l : list item) (c : cfg V) : option (cfg V) :=
    match l with
    | [] => Some c
    | IAlg a i k :: t =>
        match exec V sread swrite sclone tracked tape seed_pos base (ainterp a i k) c with
        | None => None
        | Some c' => run_items base t c'
        end
    | IObs o i :: t =>
        match run_obs V sread swrite sclone tracked tape seed_pos (ointerp o i) c with
        | None => None
        | Some c' => run_items base t c'
        end
    end.

  Definition run_prog (base : nat) (e : env) (p : prog) (c : cfg V) : option (cfg V) := run_items base (unfold e p) c.

  (* the event script / the observer scripts of a list of executed named events *)
  Definition script_of (l : list item) : list (ev V) :=
    flat_map (fun it => match it with IAlg a i k => ainterp a i k | IObs _ _ => [] end) l.
  Definition observers_of (l : list item) : list (list (ev V)) :=
    flat_map (fun it => match it with IObs o i => [ointerp o i] | IAlg _ _ _ => [] end) l.
End Run.

(* ---------------------------------------------------------------------- the shape check (decidable, on the program alone) *)
(* a test that does not read the logging configuration *)
Fixpoint galg (g : gexp) : bool :=
  match g with
  | GTrue | GA _ => true
  | GL _ | GPerSet _ | GIterZero | GIterDiv _ => false
  | GNot a => galg a
  | GAnd a b | GOr a b => galg a && galg b
  end.

(* algorithm part: no observer call, no iteration loop, no test on the logging configuration *)
Fixpoint alg_part (p : prog) : bool :=
  match p with
  | PSkip | PEv _ => true
  | PObs _ | PIter _ => false
  | PSeq a b => alg_part a && alg_part b
  | PVars b => alg_part b
  | PIf g t f => galg g && alg_part t && alg_part f
  end.

(* observer part: no algorithm event (no State write, no draw, no seed: nothing but observer calls), no loop *)
Fixpoint obs_part (p : prog) : bool :=
  match p with
  | PSkip | PObs _ => true
  | PEv _ | PIter _ | PVars _ => false
  | PSeq a b => obs_part a && obs_part b
  | PIf _ t f => obs_part t && obs_part f
  end.

(* propositional check of `g -> h` over all valuations of the 15 atoms (sound for every configuration and iteration) *)
Definition atom_ix (g : gexp) : option nat :=
  match g with
  | GA FSeedSet => Some 0 | GA FProgressBar => Some 1 | GA FRandomOrder => Some 2
  | GL LHasManager => Some 3 | GL LHasCurrentIteration => Some 4 | GL LPathNone => Some 5
  | GPerSet PerPrint => Some 6 | GPerSet PerSave => Some 7 | GPerSet PerPlot => Some 8 | GPerSet PerPlotPatients => Some 9
  | GIterZero => Some 10
  | GIterDiv PerPrint => Some 11 | GIterDiv PerSave => Some 12 | GIterDiv PerPlot => Some 13 | GIterDiv PerPlotPatients => Some 14
  | _ => None
  end.
Definition n_atoms := 15.

Fixpoint gbits (v : list bool) (g : gexp) : bool :=
  match g with
  | GTrue => true
  | GNot a => negb (gbits v a)
  | GAnd a b => gbits v a && gbits v b
  | GOr a b => gbits v a || gbits v b
  | _ => match atom_ix g with Some n => nth n v false | None => false end
  end.

Fixpoint all_bits (n : nat) : list (list bool) :=
  match n with
  | O => [[]]
  | S m => map (cons false) (all_bits m) ++ map (cons true) (all_bits m)
  end.

Definition gimplies (g h : gexp) : bool := forallb (fun v => implb (gbits v g) (gbits v h)) (all_bits n_atoms).

(* the test can only hold when an output manager exists (decided propositionally: `g -> output_manager is not None`) *)
Definition needs_manager (g : gexp) : bool := gimplies g (GL LHasManager).

(* every observer call sits under `if self.output_manager is not None` *)
Fixpoint managed (u : bool) (p : prog) : bool :=
  match p with
  | PSkip | PEv _ => true
  | PObs _ => u
  | PSeq a b => managed u a && managed u b
  | PIter b | PVars b => managed u b
  | PIf g t f => managed (u || needs_manager g) t && managed u f
  end.

Fixpoint flatten (p : prog) : list prog :=
  match p with
  | PSkip => []
  | PSeq a b => flatten a ++ flatten b
  | _ => [p]
  end.

Fixpoint span_alg (l : list prog) : list prog * list prog :=
  match l with
  | [] => ([], [])
  | p :: t => if alg_part p then (p :: fst (span_alg t), snd (span_alg t)) else ([], l)
  end.

(* one iteration: algorithm statements, then observer statements (all of them under the output-manager test) *)
Definition body_ok (b : prog) : bool :=
  forallb obs_part (snd (span_alg (flatten b))) && forallb (managed false) (snd (span_alg (flatten b))).

Fixpoint split_iter (l : list prog) : option (list prog * prog * list prog) :=
  match l with
  | [] => None
  | PIter b :: t => Some ([], b, t)
  | p :: t => match split_iter t with
              | Some (pre, b, post) => Some (p :: pre, b, post)
              | None => None
              end
  end.

Definition is_seeds (p : prog) : bool :=
  match p with
  | PIf (GA FSeedSet) t f =>
      match flatten t, flatten f with
      | [PEv ASeedPy; PEv ASeedNp; PEv ASeedTorch], [] => true
      | _, _ => false
      end
  | _ => false
  end.

(* the whole run: [if seed is not None: three seeds]; algorithm statements; the iteration loop; algorithm statements *)
Definition well_shaped (p : prog) : bool :=
  match split_iter (flatten p) with
  | Some (s :: init, b, fin) => is_seeds s && forallb alg_part init && body_ok b && forallb alg_part fin
  | _ => false
  end.

(* the parts of a well-shaped program (dummy values otherwise) *)
Definition p_init (p : prog) : list prog :=
  match split_iter (flatten p) with Some (_ :: init, _, _) => init | _ => [] end.
Definition p_body (p : prog) : prog :=
  match split_iter (flatten p) with Some (_, b, _) => b | _ => PSkip end.
Definition p_fin (p : prog) : list prog :=
  match split_iter (flatten p) with Some (_, _, fin) => fin | _ => [] end.

Definition unf_list (e : env) (l : list prog) (i k : nat) : list item := flat_map (fun q => unf e q i k) l.

(* ---------------------------------------------------------------------- the guards of the observer calls *)
(* every observer call of a (loop-free) program with the conjunction of the tests on the path to it *)
Fixpoint pguards (path : gexp) (p : prog) : list (oname * gexp) :=
  match p with
  | PSkip | PEv _ => []
  | PObs o => [(o, path)]
  | PSeq a b => pguards path a ++ pguards path b
  | PIter b | PVars b => pguards path b
  | PIf g t f => pguards (GAnd path g) t ++ pguards (GAnd path (GNot g)) f
  end.

(* what the property expects: when may the output manager do what *)
Definition periodic (p : period) : gexp := GAnd (GPerSet p) (GOr GIterZero (GIterDiv p)).
Definition called : gexp := GAnd (GL LHasManager) (GL LHasCurrentIteration).
Definition obs_guard (o : oname) : gexp :=
  match o with
  | OPrintAlgo | OPrintModel | OPrintTime => GAnd called (periodic PerPrint)
  | OSave => GAnd called (GAnd (GNot (GL LPathNone)) (periodic PerSave))
  | OPlotPatients => GAnd called (GAnd (GNot (GL LPathNone)) (periodic PerPlotPatients))
  | OPlotConvergence => GAnd called (GAnd (GNot (GL LPathNone)) (GAnd (GPerSet PerPlot) (GIterDiv PerPlot)))
  end.

(* every observer call of the iteration body happens under (at least) the guard the property expects *)
Definition guards_ok (p : prog) : bool :=
  forallb (fun og => gimplies (snd og) (obs_guard (fst og))) (pguards GTrue (p_body p)).

(* ---------------------------------------------------------------------- executable side of the trace tie (T2) *)
Definition acode (a : aname) : nat :=
  match a with
  | ASeedPy => 0 | ASeedNp => 1 | ASeedTorch => 2 | ADeviceEnter => 3 | ADeviceExit => 4 | AInitData => 5 | AInitIndiv => 6
  | AInitSamplers => 7 | AInitAnnealing => 8 | AOrder => 9 | AShuffle => 10 | ASample => 11 | ASuffStats => 12 | AMStep => 13
  | ATemperature => 14 | AFitMetrics => 15 | AFinClone => 16 | AFinPopMode => 17 | AFinReplace => 18
  end.
Definition ocode (o : oname) : nat :=
  match o with OPrintAlgo => 100 | OPrintModel => 101 | OPrintTime => 102 | OSave => 103 | OPlotPatients => 104 | OPlotConvergence => 105 end.

(* events the recorder cannot see as calls (a context manager, a local assignment) are left out on both sides *)
Definition observable (it : item) : bool :=
  match it with IAlg ADeviceEnter _ _ | IAlg ADeviceExit _ _ | IAlg AOrder _ _ => false | _ => true end.
Definition in_loop (a : aname) : bool :=
  match a with AShuffle | ASample | ASuffStats | AMStep | ATemperature => true | _ => false end.
(* (code, iteration, variable): the iteration of an algorithm event outside the loop is not compared *)
Definition item_key (it : item) : nat * nat * nat :=
  match it with
  | IAlg a i k => (acode a, if in_loop a then i else 0, k)
  | IObs o i => (ocode o, i, 0)
  end.
Definition keys (l : list item) : list (nat * nat * nat) := map item_key (filter observable l).
