(** C18 — static well-formedness of a generation program (Api/SimulateGen.v): the check under which the interpreter
    never takes a [GCrash] branch.  Definitions only; proofs in SimulateGenWfProofs.v; evaluated on the program regenerated
    from the source ([GenC18.gen_prog_src]) in SimulateGenWfTie.v.

    [GCrash] inside [run_random] / [run_table] is: a column read before it is assigned ([CCol] not bound), the running
    [time] used outside the visit loop, a scalar draw in a column expression / a sized draw in the loop step, two columns of
    different lengths added, the loop's start / end column missing or shorter than the cohort.  [prog_wf] excludes all of
    them syntactically: every column expression only names columns assigned BEFORE it (in the order of the statements), uses
    sized draws only; the loop step only uses [time] and scalar draws; the loop's two columns are assigned. *)
From Coq Require Import ZArith QArith Bool List String.
From Leaspy Require Import Base.QAux Api.Simulate Api.SimulateGen.
Import ListNotations.

(** the columns assigned so far *)
Definition sdom := list string.
Definition in_dom (c : string) (d : sdom) : bool := existsb (String.eqb c) d.

(** a column expression over columns of [d] *)
Fixpoint vec_wf (d : sdom) (x : cexpr) : bool :=
  match x with
  | CCol c => in_dom c d
  | CTime => false
  | CDraw (_, _, SzN) => true
  | CDraw (_, _, SzScalar) => false
  | CAbs a => vec_wf d a
  | CAdd a b => vec_wf d a && vec_wf d b
  end.

(** a scalar expression of the visit loop *)
Fixpoint scal_wf (x : cexpr) : bool :=
  match x with
  | CTime => true
  | CCol _ => false
  | CDraw (_, _, SzScalar) => true
  | CDraw (_, _, SzN) => false
  | CAbs a => scal_wf a
  | CAdd a b => scal_wf a && scal_wf b
  end.

(** successive column assignments: the columns known afterwards ([None] = some expression is not well-formed) *)
Fixpoint cols_wf (d : sdom) (cs : list (string * cexpr)) : option sdom :=
  match cs with
  | [] => Some d
  | (c, x) :: r => if vec_wf d x then cols_wf (c :: d) r else None
  end.

Definition prog_wf (P : gen_prog) : bool :=
  match cols_wf [] (gp_ip P) with
  | None => false
  | Some d1 =>
      vec_wf d1 (gp_source P) &&
      match cols_wf d1 (gp_cols P) with
      | None => false
      | Some d2 =>
          in_dom (lp_start (gp_loop P)) d2 && in_dom (lp_end (gp_loop P)) d2 && scal_wf (lp_step (gp_loop P))
      end
  end.

(** the individual-parameter columns are plain sized draws (then a table design consumes exactly one vector per column) *)
Definition is_vec_draw (x : cexpr) : bool := match x with CDraw (_, _, SzN) => true | _ => false end.
Definition ip_draws_only (P : gen_prog) : bool :=
  forallb (fun c => is_vec_draw (snd c)) (gp_ip P) && is_vec_draw (gp_source P).

(** outcomes *)
Definition not_crash {A} (x : gres A) : Prop := match x with GCrash => False | _ => True end.
Definition gpost {A} (Q : A -> Prop) (x : gres A) : Prop :=
  match x with GOk a => Q a | GCrash => False | _ => True end.

(** a tape made of [k] vectors of [n] values each, then [rest] *)
Definition vec_tape {T} (vs : list (list T)) (rest : list (draw T)) : list (draw T) := (map DVec vs ++ rest)%list.
