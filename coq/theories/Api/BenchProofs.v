(** C20 — proofs about the benchmark-model definitions of Bench.v.
    Order-free specifications ([is_last], [is_last_known], [is_max], [is_mean]) and the theorems that the
    executable definitions (which mirror the code: stable sort by age, argmax, nanmax, nanmean) meet them. *)
From Coq Require Import QArith Qfield Qround List Bool Arith Lia Permutation Sorted Setoid.
From Leaspy Require Import Base.QAux Api.Bench.
Import ListNotations.

(* ==================================================================================== *)
(** * Specifications (no reference to any order of the rows) *)

(** two visits never share an age (rows with equal ages are the same row) *)
Definition distinct_times {A} (l : list (Q * A)) : Prop :=
  forall r r', In r l -> In r' l -> fst r == fst r' -> r = r'.

(** [a] is the payload of a visit whose age is >= every age *)
Definition is_last {A} (l : list (Q * A)) (a : A) : Prop :=
  exists t, In (t, a) l /\ forall t' a', In (t', a') l -> t' <= t.

(** value at the greatest age where the feature is present; missing iff missing at every visit *)
Definition is_last_known (h : hist) (v : value) : Prop :=
  match v with
  | Some x => exists t, In (t, Some x) h /\ forall t' x', In (t', Some x') h -> t' <= t
  | None => forall t v', In (t, v') h -> v' = None
  end.

(** greatest present value; missing iff missing at every visit *)
Definition is_max (h : hist) (v : value) : Prop :=
  match v with
  | Some m => (exists t, In (t, Some m) h) /\ forall t x, In (t, Some x) h -> x <= m
  | None => forall t v', In (t, v') h -> v' = None
  end.

(** arithmetic mean of the present values; missing iff missing at every visit *)
Definition is_mean (h : hist) (v : value) : Prop :=
  match v with
  | Some m => present_values h <> [] /\ m * Qnat (length (present_values h)) == sumQ (present_values h)
  | None => forall t v', In (t, v') h -> v' = None
  end.

Definition veq (a b : value) : Prop :=
  match a, b with
  | Some x, Some y => x == y
  | None, None => True
  | _, _ => False
  end.

(** spec-level column of a rectangular table *)
Definition col (j : nat) (t : table) : hist := map (fun r => (fst r, nth j (snd r) None)) t.
Definition wf (d : nat) (t : table) : Prop := Forall (fun r => length (snd r) = d) t.

(* ==================================================================================== *)
(** * The stable sort *)

Definition ge_time {A} (a b : Q * A) : Prop := fst b <= fst a.

Lemma insert_desc_perm {A} (r : Q * A) l : Permutation (insert_desc r l) (r :: l).
Proof.
  induction l as [|x l IH]; simpl; [reflexivity|].
  destruct (Qle_bool (fst x) (fst r)); [reflexivity|].
  rewrite IH. apply perm_swap.
Qed.

Lemma sort_desc_perm {A} (l : list (Q * A)) : Permutation (sort_desc l) l.
Proof.
  induction l as [|r l IH]; simpl; [reflexivity|].
  rewrite insert_desc_perm. now rewrite IH.
Qed.

Lemma sort_desc_In {A} (l : list (Q * A)) x : In x (sort_desc l) <-> In x l.
Proof. split; apply Permutation_in; [|symmetry]; apply sort_desc_perm. Qed.

Lemma Qle_bool_false x y : Qle_bool x y = false -> y < x.
Proof.
  intros H. apply Qnot_le_lt. intros C. apply Qle_bool_iff in C. congruence.
Qed.

Lemma insert_desc_sorted {A} (r : Q * A) l :
  StronglySorted ge_time l -> StronglySorted ge_time (insert_desc r l).
Proof.
  induction 1 as [|x l Hs IH Hx]; simpl.
  - constructor; constructor.
  - destruct (Qle_bool (fst x) (fst r)) eqn:E.
    + apply Qle_bool_iff in E. constructor; [constructor; assumption|].
      constructor; [exact E|].
      rewrite Forall_forall in *. intros y Hy. unfold ge_time in *.
      eapply Qle_trans; [apply Hx, Hy|exact E].
    + apply Qle_bool_false in E. constructor; [exact IH|].
      rewrite Forall_forall in *. intros y Hy.
      apply (Permutation_in _ (insert_desc_perm r l)) in Hy. destruct Hy as [<-|Hy].
      * unfold ge_time. now apply Qlt_le_weak.
      * now apply Hx.
Qed.

Lemma sort_desc_sorted {A} (l : list (Q * A)) : StronglySorted ge_time (sort_desc l).
Proof. induction l; simpl; [constructor|now apply insert_desc_sorted]. Qed.

(** stability: among visits of equal (greatest) age the first one in input order comes first *)
Lemma insert_desc_hd {A} (r : Q * A) l :
  exists l', insert_desc r l = hd r (if match l with [] => true | x :: _ => Qle_bool (fst x) (fst r) end then [r] else l) :: l'.
Proof.
  destruct l as [|x l]; simpl; [now exists []|].
  destruct (Qle_bool (fst x) (fst r)); eexists; reflexivity.
Qed.

(* ==================================================================================== *)
(** * 'last' *)

Lemma last_row_nil {A} : @last_row A [] = Err Empty.
Proof. reflexivity. Qed.

Theorem last_row_sound {A} (l : list (Q * A)) :
  l <> [] -> exists a, last_row l = Ok a /\ is_last l a.
Proof.
  intros Hne. unfold last_row.
  pose proof (sort_desc_sorted l) as Hs. pose proof (sort_desc_In l) as Hin.
  destruct (sort_desc l) as [|[t a] s] eqn:E.
  - exfalso. destruct l as [|x l]; [congruence|]. destruct (proj2 (Hin x)); now left.
  - exists a. split; [reflexivity|]. exists t. split.
    + apply Hin. now left.
    + intros t' a' H'. apply Hin in H'. inversion Hs as [|? ? _ Hall]; subst.
      destruct H' as [H'|H'].
      * inversion H'; subst. apply Qle_refl.
      * rewrite Forall_forall in Hall. apply (Hall _ H').
Qed.

Lemma is_last_unique {A} (l : list (Q * A)) a a' :
  distinct_times l -> is_last l a -> is_last l a' -> a = a'.
Proof.
  intros D [t [Hi Hm]] [t' [Hi' Hm']].
  assert (E : (t, a) = (t', a')).
  { apply D; trivial. simpl. apply Qle_antisym; [eapply Hm'|eapply Hm]; eassumption. }
  now inversion E.
Qed.

Theorem last_row_complete {A} (l : list (Q * A)) a :
  distinct_times l -> is_last l a -> last_row l = Ok a.
Proof.
  intros D H. assert (Hne : l <> []) by (destruct H as [t [Hi _]]; intros ->; inversion Hi).
  destruct (last_row_sound l Hne) as [a' [E H']]. rewrite E. f_equal. eapply is_last_unique; eassumption.
Qed.

Lemma is_last_perm {A} (l l' : list (Q * A)) a : Permutation l l' -> is_last l a -> is_last l' a.
Proof.
  intros P [t [Hi Hm]]. exists t. split; [eapply Permutation_in; eassumption|].
  intros t' a' H. eapply Hm. eapply Permutation_in; [symmetry|]; eassumption.
Qed.

Lemma distinct_times_perm {A} (l l' : list (Q * A)) : Permutation l l' -> distinct_times l -> distinct_times l'.
Proof.
  intros P D r r' H H'. apply D; eapply Permutation_in; try eassumption; now symmetry.
Qed.

Theorem last_row_perm {A} (l l' : list (Q * A)) :
  Permutation l l' -> distinct_times l -> last_row l = last_row l'.
Proof.
  intros P D. destruct l as [|x l].
  - apply Permutation_nil in P. now subst.
  - assert (Hne : x :: l <> []) by congruence.
    destruct (last_row_sound _ Hne) as [a [E H]]. rewrite E. symmetry.
    apply last_row_complete; [eapply distinct_times_perm|eapply is_last_perm]; eassumption.
Qed.

(** what the code does when several visits share the greatest age (only reachable when ages collide,
    see [last_rounded_refuted]): the first of them in input order wins *)
Lemma last_row_tie_first {A} (t : Q) (a b : A) l :
  (forall r, In r l -> fst r <= t) -> last_row ((t, a) :: l) = Ok a.
Proof.
  intros H. unfold last_row. simpl.
  pose proof (sort_desc_In l) as Hin.
  destruct (sort_desc l) as [|x s]; simpl; [reflexivity|].
  assert (Hx : fst x <= t) by (apply H, Hin; now left).
  apply Qle_bool_iff in Hx. now rewrite Hx.
Qed.

(* ==================================================================================== *)
(** * 'last-known' *)

Fixpoint first_present (s : list value) : value :=
  match s with
  | [] => None
  | Some x :: _ => Some x
  | None :: s' => first_present s'
  end.

Lemma no_present_first s : existsb (fun b => b) (map present s) = false -> first_present s = None.
Proof.
  induction s as [|[x|] s IH]; simpl; intros H; [reflexivity|discriminate|now apply IH].
Qed.

Lemma argmax_first_present s :
  s <> [] -> nth_error s (argmax_first (map present s)) = Some (first_present s).
Proof.
  induction s as [|v s IH]; [congruence|]. intros _.
  destruct v as [x|]; simpl; [reflexivity|].
  destruct (existsb (fun b => b) (map present s)) eqn:E.
  - simpl. apply IH. intros ->. discriminate.
  - simpl. now rewrite no_present_first.
Qed.

Lemma last_known1_eq (h : hist) :
  last_known1 h = match h with [] => Err Empty | _ => Ok (first_present (map snd (sort_desc h))) end.
Proof.
  unfold last_known1.
  destruct (map snd (sort_desc h)) as [|v s] eqn:E.
  - destruct h as [|x h]; [reflexivity|]. exfalso.
    apply map_eq_nil in E. pose proof (sort_desc_In (x :: h) x) as Hin. rewrite E in Hin.
    apply Hin. now left.
  - rewrite argmax_first_present by congruence.
    destruct h; [discriminate E|reflexivity].
Qed.

Lemma first_present_sorted (s : hist) :
  StronglySorted ge_time s -> is_last_known s (first_present (map snd s)).
Proof.
  induction 1 as [|[t0 v0] s Hs IH Hall]; simpl.
  - intros t v [].
  - destruct v0 as [x|]; simpl.
    + exists t0. split; [now left|]. intros t' x' [H|H].
      * inversion H; subst. apply Qle_refl.
      * rewrite Forall_forall in Hall. apply (Hall _ H).
    + destruct (first_present (map snd s)) as [x|]; simpl in *.
      * destruct IH as [t [Hi Hm]]. exists t. split; [now right|].
        intros t' x' [H|H]; [inversion H|]. eapply Hm; eassumption.
      * intros t v' [H|H]; [now inversion H|]. eapply IH; eassumption.
Qed.

Lemma is_last_known_perm h h' v : Permutation h h' -> is_last_known h v -> is_last_known h' v.
Proof.
  intros P. destruct v as [x|]; simpl.
  - intros [t [Hi Hm]]. exists t. split; [eapply Permutation_in; eassumption|].
    intros t' x' H. eapply Hm. eapply Permutation_in; [symmetry|]; eassumption.
  - intros H t v' Hi. eapply H. eapply Permutation_in; [symmetry|]; eassumption.
Qed.

Theorem last_known1_sound (h : hist) :
  h <> [] -> exists v, last_known1 h = Ok v /\ is_last_known h v.
Proof.
  intros Hne. rewrite last_known1_eq. destruct h as [|x h]; [congruence|].
  eexists. split; [reflexivity|].
  eapply is_last_known_perm; [apply sort_desc_perm|]. apply first_present_sorted, sort_desc_sorted.
Qed.

Lemma last_known1_nil : last_known1 [] = Err Empty.
Proof. reflexivity. Qed.

(** the [Err Shape] branch of [last_known1] is dead code *)
Lemma last_known1_total h : last_known1 h <> Err Shape.
Proof.
  destruct h as [|x h]; [discriminate|].
  destruct (last_known1_sound (x :: h)) as [v [E _]]; [congruence|]. rewrite E. discriminate.
Qed.

Lemma is_last_known_unique h v v' :
  distinct_times h -> is_last_known h v -> is_last_known h v' -> v = v'.
Proof.
  intros D. destruct v as [x|], v' as [x'|]; simpl; trivial.
  - intros [t [Hi Hm]] [t' [Hi' Hm']].
    assert (E : (t, Some x) = (t', Some x')).
    { apply D; trivial. simpl. apply Qle_antisym; [eapply Hm'|eapply Hm]; eassumption. }
    now inversion E.
  - intros [t [Hi _]] H. discriminate (H _ _ Hi).
  - intros H [t [Hi _]]. discriminate (H _ _ Hi).
Qed.

Theorem last_known1_complete h v :
  h <> [] -> distinct_times h -> is_last_known h v -> last_known1 h = Ok v.
Proof.
  intros Hne D H. destruct (last_known1_sound h Hne) as [v' [E H']]. rewrite E. f_equal.
  eapply is_last_known_unique; eassumption.
Qed.

Theorem last_known1_perm h h' :
  Permutation h h' -> distinct_times h -> last_known1 h = last_known1 h'.
Proof.
  intros P D. destruct h as [|x h].
  - apply Permutation_nil in P. now subst.
  - assert (Hne : x :: h <> []) by congruence.
    assert (Hne' : h' <> []) by (intros ->; apply Permutation_sym, Permutation_nil in P; congruence).
    destruct (last_known1_sound _ Hne) as [v [E H]]. rewrite E. symmetry.
    apply last_known1_complete; trivial; [eapply distinct_times_perm|eapply is_last_known_perm]; eassumption.
Qed.

(** "value will be NaN if and only if all values for this feature are NaN" *)
Theorem last_known1_none_iff h :
  h <> [] -> (last_known1 h = Ok None <-> forall t v, In (t, v) h -> v = None).
Proof.
  intros Hne. destruct (last_known1_sound h Hne) as [v [E H]]. rewrite E. split.
  - intros Ev. inversion Ev; subst. exact H.
  - intros Hall. destruct v as [x|]; [|reflexivity]. destruct H as [t [Hi _]]. discriminate (Hall _ _ Hi).
Qed.

(* ==================================================================================== *)
(** * 'max' *)

Lemma present_values_In h x : In x (present_values h) <-> exists t, In (t, Some x) h.
Proof.
  induction h as [|[t [y|]] h IH]; simpl.
  - split; [intros []|intros [? []]].
  - split.
    + intros [<-|H]; [exists t; now left|]. apply IH in H as [t' H]. exists t'. now right.
    + intros [t' [H|H]]; [inversion H; now left|]. right. apply IH. now exists t'.
  - rewrite IH. split; intros [t' H]; exists t'; [now right|]. destruct H as [H|H]; [inversion H|exact H].
Qed.

Lemma present_values_nil h : present_values h = [] <-> forall t v, In (t, v) h -> v = None.
Proof.
  split.
  - intros E t [x|] H; [|reflexivity]. exfalso.
    assert (Hx : In x (present_values h)) by (apply present_values_In; now exists t). rewrite E in Hx. inversion Hx.
  - intros H. destruct (present_values h) as [|x xs] eqn:E; [reflexivity|]. exfalso.
    assert (Hx : In x (present_values h)) by (rewrite E; now left).
    apply present_values_In in Hx as [t Hx]. discriminate (H _ _ Hx).
Qed.

Lemma qmax2_cases a b : (qmax2 a b = a /\ b <= a) \/ (qmax2 a b = b /\ a <= b).
Proof.
  unfold qmax2. destruct (Qle_bool a b) eqn:E.
  - right. split; [reflexivity|now apply Qle_bool_iff].
  - left. split; [reflexivity|]. apply Qlt_le_weak. now apply Qle_bool_false.
Qed.

Lemma fold_qmax2 xs x :
  In (fold_left qmax2 xs x) (x :: xs) /\ forall y, In y (x :: xs) -> y <= fold_left qmax2 xs x.
Proof.
  revert x. induction xs as [|z xs IH]; intros x; simpl.
  - split; [now left|]. intros y [<-|[]]. apply Qle_refl.
  - destruct (IH (qmax2 x z)) as [Hi Hm]. split.
    + destruct Hi as [Hi|Hi]; [|now right; right].
      rewrite <- Hi. destruct (qmax2_cases x z) as [[E _]|[E _]]; rewrite E; [now left|right; now left].
    + intros y Hy.
      assert (Hq : y <= qmax2 x z \/ In y xs).
      { destruct Hy as [<-|[<-|Hy]]; [left|left|now right];
        destruct (qmax2_cases x z) as [[E H]|[E H]]; rewrite E; trivial; apply Qle_refl. }
      destruct Hq as [Hq|Hq]; [|apply Hm; now right].
      eapply Qle_trans; [exact Hq|]. apply Hm. now left.
Qed.

Theorem max1_sound h : h <> [] -> exists v, max1 h = Ok v /\ is_max h v.
Proof.
  intros Hne. unfold max1. destruct h as [|r h]; [congruence|]. set (h0 := r :: h) in *.
  destruct (present_values h0) as [|x xs] eqn:E.
  - exists None. split; [reflexivity|]. exact (proj1 (present_values_nil h0) E).
  - exists (Some (fold_left qmax2 xs x)). split; [reflexivity|]. cbn [is_max].
    destruct (fold_qmax2 xs x) as [Hi Hm]. split.
    + apply (proj1 (present_values_In h0 _)). now rewrite E.
    + intros t y Hy. apply Hm. rewrite <- E. apply (proj2 (present_values_In h0 y)). now exists t.
Qed.

Lemma max1_nil : max1 [] = Err Empty.
Proof. reflexivity. Qed.

Lemma is_max_unique h v v' : is_max h v -> is_max h v' -> veq v v'.
Proof.
  destruct v as [m|], v' as [m'|]; simpl; trivial.
  - intros [[t Hi] Hm] [[t' Hi'] Hm']. apply Qle_antisym; [eapply Hm'|eapply Hm]; eassumption.
  - intros [[t Hi] _] H. discriminate (H _ _ Hi).
  - intros H [[t Hi] _]. discriminate (H _ _ Hi).
Qed.

Lemma is_max_perm h h' v : Permutation h h' -> is_max h v -> is_max h' v.
Proof.
  intros P. destruct v as [m|]; simpl.
  - intros [[t Hi] Hm]. split; [exists t; eapply Permutation_in; eassumption|].
    intros t' x H. eapply Hm. eapply Permutation_in; [symmetry|]; eassumption.
  - intros H t v' Hi. eapply H. eapply Permutation_in; [symmetry|]; eassumption.
Qed.

(** no hypothesis on the ages: the maximum does not look at them *)
Theorem max1_perm h h' v v' :
  Permutation h h' -> max1 h = Ok v -> max1 h' = Ok v' -> veq v v'.
Proof.
  intros P E E'. destruct h as [|x h]; [discriminate|].
  assert (Hne : x :: h <> []) by congruence.
  assert (Hne' : h' <> []) by (intros ->; apply Permutation_sym, Permutation_nil in P; congruence).
  destruct (max1_sound _ Hne) as [w [Ew Hw]]. destruct (max1_sound _ Hne') as [w' [Ew' Hw']].
  rewrite E in Ew. rewrite E' in Ew'. inversion Ew; inversion Ew'; subst.
  eapply is_max_unique; [eapply is_max_perm; eassumption|eassumption].
Qed.

Theorem max1_none_iff h : h <> [] -> (max1 h = Ok None <-> forall t v, In (t, v) h -> v = None).
Proof.
  intros Hne. destruct (max1_sound h Hne) as [v [E H]]. rewrite E. split.
  - intros Ev. inversion Ev; subst. exact H.
  - intros Hall. destruct v as [x|]; [|reflexivity]. destruct H as [[t Hi] _]. discriminate (Hall _ _ Hi).
Qed.

(* ==================================================================================== *)
(** * 'mean' *)

Lemma Qnat_pos n : (0 < n)%nat -> 0 < Qnat n.
Proof.
  intros H. unfold Qnat, Qlt, inject_Z. cbn [Qnum Qden]. lia.
Qed.

Lemma Qnat_neq0 n : (0 < n)%nat -> ~ Qnat n == 0.
Proof.
  intros H. unfold Qnat, Qeq, inject_Z. cbn [Qnum Qden]. lia.
Qed.

Theorem mean1_sound h : exists v, mean1 h = Ok v /\ is_mean h v.
Proof.
  unfold mean1. destruct (present_values h) as [|x xs] eqn:E.
  - exists None. split; [reflexivity|]. exact (proj1 (present_values_nil h) E).
  - eexists. split; [reflexivity|]. cbn [is_mean]. rewrite E. split; [discriminate|].
    set (n := Qnat (length (x :: xs))). set (s := sumQ (x :: xs)).
    assert (Hn : ~ n == 0) by (apply Qnat_neq0; simpl; lia).
    field. exact Hn.
Qed.

Lemma is_mean_unique h v v' : is_mean h v -> is_mean h v' -> veq v v'.
Proof.
  destruct v as [m|], v' as [m'|]; simpl; trivial.
  - intros [Hne E] [_ E'].
    assert (Hn : ~ Qnat (length (present_values h)) == 0).
    { destruct (present_values h) as [|x xs]; [congruence|]. apply Qnat_neq0. simpl. lia. }
    apply (Qmult_inj_r _ _ _ Hn). now rewrite E, E'.
  - intros [Hne _] H. apply present_values_nil in H. congruence.
  - intros H [Hne _]. apply present_values_nil in H. congruence.
Qed.

Lemma present_values_perm h h' : Permutation h h' -> Permutation (present_values h) (present_values h').
Proof.
  induction 1 as [|[t [x|]] l l' P IH|[t [x|]] [t' [y|]] l|l l' l'' P IH P' IH']; simpl;
    try reflexivity; try (now constructor); try assumption.
  all: try apply perm_swap; try (etransitivity; eassumption).
Qed.

Lemma sumQ_perm l l' : Permutation l l' -> sumQ l == sumQ l'.
Proof.
  induction 1; simpl.
  - reflexivity.
  - now rewrite IHPermutation.
  - ring.
  - etransitivity; eassumption.
Qed.

Lemma is_mean_perm h h' v : Permutation h h' -> is_mean h v -> is_mean h' v.
Proof.
  intros P. pose proof (present_values_perm _ _ P) as PP. destruct v as [m|]; simpl.
  - intros [Hne E]. split.
    + intros C. rewrite C in PP. apply Permutation_sym, Permutation_nil in PP. congruence.
    + rewrite <- (Permutation_length PP), <- (sumQ_perm _ _ PP). exact E.
  - intros H t v' Hi. eapply H. eapply Permutation_in; [symmetry|]; eassumption.
Qed.

Theorem mean1_perm h h' v v' :
  Permutation h h' -> mean1 h = Ok v -> mean1 h' = Ok v' -> veq v v'.
Proof.
  intros P E E'.
  destruct (mean1_sound h) as [w [Ew Hw]]. destruct (mean1_sound h') as [w' [Ew' Hw']].
  rewrite E in Ew. rewrite E' in Ew'. inversion Ew; inversion Ew'; subst.
  eapply is_mean_unique; [eapply is_mean_perm; eassumption|eassumption].
Qed.

(** the mean lies between the least and the greatest present value *)
Lemma sumQ_bounds (lo hi : Q) l : (forall x, In x l -> lo <= x /\ x <= hi) ->
  lo * Qnat (length l) <= sumQ l /\ sumQ l <= hi * Qnat (length l).
Proof.
  induction l as [|x l IH]; intros H; cbn [length sumQ].
  - assert (E0 : Qnat 0 == 0) by reflexivity. rewrite E0. split.
    + setoid_replace (lo * 0) with 0 by ring. apply Qle_refl.
    + setoid_replace (hi * 0) with 0 by ring. apply Qle_refl.
  - destruct IH as [IH1 IH2]; [intros y Hy; apply H; now right|].
    destruct (H x) as [H1 H2]; [now left|].
    assert (E : Qnat (S (length l)) == 1 + Qnat (length l)).
    { unfold Qnat. rewrite Nat2Z.inj_succ, <- Z.add_1_l, inject_Z_plus. reflexivity. }
    rewrite E. split.
    + setoid_replace (lo * (1 + Qnat (length l))) with (lo + lo * Qnat (length l)) by ring.
      apply Qplus_le_compat; assumption.
    + setoid_replace (hi * (1 + Qnat (length l))) with (hi + hi * Qnat (length l)) by ring.
      apply Qplus_le_compat; assumption.
Qed.

(* ==================================================================================== *)
(** * Tables: per-feature application *)

Lemma column_ok d t j : wf d t -> (j < d)%nat -> column j t = Ok (col j t).
Proof.
  intros W Hj. unfold column, col. induction W as [|r t Hr W IH]; simpl; [reflexivity|].
  destruct (nth_error (snd r) j) as [v|] eqn:E.
  - simpl. rewrite IH. simpl. do 3 f_equal. symmetry. now apply nth_error_nth.
  - apply nth_error_None in E. lia.
Qed.

Lemma col_nonempty j t : t <> [] -> col j t <> [].
Proof. destruct t; [congruence|discriminate]. Qed.

Lemma mapM_seq_spec {B} (g : nat -> res B) (P : nat -> B -> Prop) n a :
  (forall j, (a <= j < a + n)%nat -> exists b, g j = Ok b /\ P j b) ->
  exists bs, mapM g (seq a n) = Ok bs /\ length bs = n /\
             forall i, (i < n)%nat -> exists b, nth_error bs i = Some b /\ P (a + i)%nat b.
Proof.
  revert a. induction n as [|n IH]; intros a H; simpl.
  - exists []. repeat split; trivial. intros i Hi. lia.
  - destruct (H a) as [b [Eb Pb]]; [lia|].
    destruct (IH (S a)) as [bs [Ebs [Hl Hn]]]; [intros j Hj; apply H; lia|].
    exists (b :: bs). rewrite Eb, Ebs. simpl. repeat split; [now rewrite Hl|].
    intros [|i] Hi; simpl.
    + exists b. split; [reflexivity|]. now rewrite Nat.add_0_r.
    + destruct (Hn i) as [b' [E' P']]; [lia|]. exists b'. split; [exact E'|].
      now rewrite <- Nat.add_succ_comm.
Qed.

Theorem per_feature_spec (f : hist -> res value) (P : hist -> value -> Prop) d t :
  (forall h, h <> [] -> exists v, f h = Ok v /\ P h v) ->
  wf d t -> t <> [] ->
  exists vs, per_feature f d t = Ok vs /\ length vs = d /\
             forall j, (j < d)%nat -> exists v, nth_error vs j = Some v /\ P (col j t) v.
Proof.
  intros Hf W Hne. unfold per_feature.
  destruct (mapM_seq_spec (fun j => rbind (column j t) f) (fun j v => P (col j t) v) d 0) as [vs [E [Hl Hn]]].
  - intros j Hj. rewrite (column_ok d) by (trivial; lia). simpl. apply Hf. now apply col_nonempty.
  - exists vs. repeat split; trivial.
Qed.

Lemma col_perm j t t' : Permutation t t' -> Permutation (col j t) (col j t').
Proof. intros P. unfold col. now apply Permutation_map. Qed.

Lemma col_distinct j t : distinct_times t -> distinct_times (col j t).
Proof.
  intros D r r' H H'. unfold col in *. apply in_map_iff in H as [x [<- Hx]]. apply in_map_iff in H' as [x' [<- Hx']].
  simpl. intros E. now rewrite (D x x' Hx Hx' E).
Qed.

Lemma wf_perm d t t' : Permutation t t' -> wf d t -> wf d t'.
Proof. intros P W. unfold wf in *. eapply Permutation_Forall; eassumption. Qed.

Lemma nth_error_ext {A} (l l' : list A) :
  length l = length l' -> (forall i, (i < length l)%nat -> nth_error l i = nth_error l' i) -> l = l'.
Proof.
  revert l'. induction l as [|x l IH]; intros [|y l'] Hl H; simpl in *; try discriminate; [reflexivity|].
  f_equal.
  - specialize (H 0%nat ltac:(lia)). now inversion H.
  - apply IH; [lia|]. intros i Hi. apply (H (S i)). lia.
Qed.

(** per-feature estimators whose specification determines the value are invariant under row permutation *)
Theorem per_feature_perm (f : hist -> res value) (P : hist -> value -> Prop) d t t' :
  (forall h, h <> [] -> exists v, f h = Ok v /\ P h v) ->
  (forall h h' v, Permutation h h' -> P h v -> P h' v) ->
  (forall h v v', distinct_times h -> P h v -> P h v' -> v = v') ->
  wf d t -> distinct_times t -> Permutation t t' ->
  per_feature f d t = per_feature f d t'.
Proof.
  intros Hf Hp Hu W D Pm. destruct t as [|x t].
  - apply Permutation_nil in Pm. now subst.
  - assert (Hne : x :: t <> []) by congruence.
    assert (Hne' : t' <> []) by (intros ->; apply Permutation_sym, Permutation_nil in Pm; congruence).
    destruct (per_feature_spec f P d _ Hf W Hne) as [vs [E [Hl Hn]]].
    destruct (per_feature_spec f P d _ Hf (wf_perm _ _ _ Pm W) Hne') as [vs' [E' [Hl' Hn']]].
    rewrite E, E'. f_equal. apply nth_error_ext; [congruence|]. intros i Hi.
    destruct (Hn i) as [v [Ev Pv]]; [lia|]. destruct (Hn' i) as [v' [Ev' Pv']]; [lia|].
    rewrite Ev, Ev'. f_equal. eapply Hu; [apply col_distinct; exact D|exact Pv|].
    eapply Hp; [apply Permutation_sym, col_perm; exact Pm|exact Pv'].
Qed.

(* ==================================================================================== *)
(** * Trajectory of the constant model *)

Theorem trajectory_repeat vals ages :
  length (trajectory vals ages) = length ages /\
  forall i, (i < length ages)%nat -> nth_error (trajectory vals ages) i = Some vals.
Proof.
  unfold trajectory. split; [apply map_length|].
  intros i Hi. destruct (nth_error ages i) as [a|] eqn:E.
  - now rewrite (map_nth_error _ _ _ E).
  - apply nth_error_None in E. lia.
Qed.

(* ==================================================================================== *)
(** * Ages that collide after rounding (float32 storage of the ages) *)

Definition round_times {A} (rnd : Q -> Q) (l : list (Q * A)) : list (Q * A) :=
  map (fun r => (rnd (fst r), snd r)) l.

(** as long as rounding is monotone and keeps the ages of the history distinct, nothing changes *)
Theorem last_rounded_ok {A} (rnd : Q -> Q) (l : list (Q * A)) :
  (forall x y, x <= y -> rnd x <= rnd y) ->
  (forall r r', In r l -> In r' l -> rnd (fst r) == rnd (fst r') -> r = r') ->
  l <> [] -> exists a, last_row (round_times rnd l) = Ok a /\ is_last l a.
Proof.
  intros Mono Inj Hne.
  assert (Hne' : round_times rnd l <> []) by (destruct l; [congruence|discriminate]).
  destruct (last_row_sound _ Hne') as [a [E [t [Hi Hm]]]]. exists a. split; [exact E|].
  unfold round_times in Hi. apply in_map_iff in Hi as [[t0 a0] [E0 Hi]]. simpl in E0. inversion E0; subst.
  exists t0. split; [exact Hi|]. intros t' a' H'.
  destruct (Qlt_le_dec t0 t') as [Hlt|Hle]; [|exact Hle]. exfalso.
  assert (Hr : rnd t' <= rnd t0).
  { apply (Hm (rnd t') a'). unfold round_times. apply in_map_iff. exists (t', a'). split; [reflexivity|exact H']. }
  assert (Heq : rnd t0 == rnd t') by (apply Qle_antisym; [apply Mono; now apply Qlt_le_weak|exact Hr]).
  specialize (Inj (t0, a) (t', a') Hi H' Heq). inversion Inj; subst. now apply Qlt_irrefl in Hlt.
Qed.

(* ==================================================================================== *)
(** * Linear mixed-effects model *)

Definition mat_apply_eq (M : mat2) (b v : Q * Q) : Prop :=
  m11 M * fst b + m12 M * snd b == fst v /\ m21 M * fst b + m22 M * snd b == snd v.

Lemma inv2_ok M : ~ det2 M == 0 -> exists G, inv2 M = Ok G.
Proof.
  intros H. unfold inv2. destruct (Qeq_bool (det2 M) 0) eqn:E.
  - apply Qeq_bool_iff in E. contradiction.
  - eexists; reflexivity.
Qed.

Lemma inv2_spec M G v : inv2 M = Ok G -> mat_apply_eq M (mulv G v) v.
Proof.
  unfold inv2. destruct (Qeq_bool (det2 M) 0) eqn:E; [discriminate|].
  apply Qeq_bool_neq in E. intros H. inversion H; subst; clear H.
  unfold mat_apply_eq, mulv, det2 in *. destruct M as [a b c d], v as [x y]. simpl in *.
  split; field; exact E.
Qed.

Lemma solve2_unique M b b' v : ~ det2 M == 0 -> mat_apply_eq M b v -> mat_apply_eq M b' v ->
  fst b == fst b' /\ snd b == snd b'.
Proof.
  unfold mat_apply_eq, det2. destruct M as [a bb c d], b as [x y], b' as [x' y'], v as [p q]. simpl.
  intros D [E1 E2] [E1' E2'].
  assert (H1 : (a * d - bb * c) * (x - x') == 0).
  { setoid_replace ((a * d - bb * c) * (x - x')) with (d * ((a * x + bb * y) - (a * x' + bb * y')) - bb * ((c * x + d * y) - (c * x' + d * y'))) by ring.
    rewrite E1, E1', E2, E2'. ring. }
  assert (H2 : (a * d - bb * c) * (y - y') == 0).
  { setoid_replace ((a * d - bb * c) * (y - y')) with (a * ((c * x + d * y) - (c * x' + d * y')) - c * ((a * x + bb * y) - (a * x' + bb * y'))) by ring.
    rewrite E1, E1', E2, E2'. ring. }
  apply Qmult_integral in H1. apply Qmult_integral in H2.
  destruct H1 as [H1|H1]; [contradiction|]. destruct H2 as [H2|H2]; [contradiction|].
  split; [setoid_replace x with (x - x' + x') by ring|setoid_replace y with (y - y' + y') by ring].
  - rewrite H1. ring.
  - rewrite H2. ring.
Qed.

(** normal equations of the penalised least-squares problem = conditional mean of the random effects
    given the variance components: (Z'Z + Psi^-1) b = Z' r *)
Theorem blup2_normal_eq Z r Pinv b :
  blup2 Z r Pinv = Ok b -> mat_apply_eq (madd (ZtZ Z) Pinv) b (Ztr Z r).
Proof.
  unfold blup2. destruct (negb (length Z =? length r)); [discriminate|].
  destruct (inv2 (madd (ZtZ Z) Pinv)) as [G|e] eqn:E; simpl; [|discriminate].
  intros H. inversion H; subst. now apply inv2_spec.
Qed.

Theorem blup2_defined Z r Pinv :
  length Z = length r -> ~ det2 (madd (ZtZ Z) Pinv) == 0 -> exists b, blup2 Z r Pinv = Ok b.
Proof.
  intros Hl D. unfold blup2. rewrite Hl, Nat.eqb_refl. simpl.
  destruct (inv2_ok _ D) as [G E]. rewrite E. simpl. eexists; reflexivity.
Qed.

Theorem blup2_unique Z r Pinv b b' :
  blup2 Z r Pinv = Ok b -> mat_apply_eq (madd (ZtZ Z) Pinv) b' (Ztr Z r) ->
  fst b' == fst b /\ snd b' == snd b.
Proof.
  intros E H'. pose proof (blup2_normal_eq _ _ _ _ E) as H.
  eapply solve2_unique; try eassumption.
  unfold blup2 in E. destruct (negb (length Z =? length r)); [discriminate|].
  unfold inv2 in E. destruct (Qeq_bool (det2 (madd (ZtZ Z) Pinv)) 0) eqn:Ed; [discriminate|].
  now apply Qeq_bool_neq in Ed.
Qed.

Theorem blup1_normal_eq z r pinv b : blup1 z r pinv = Ok b -> (dotQ z z + pinv) * b == dotQ z r.
Proof.
  unfold blup1. destruct (negb (length z =? length r)); [discriminate|].
  destruct (Qeq_bool (dotQ z z + pinv) 0) eqn:E; [discriminate|]. apply Qeq_bool_neq in E.
  intros H. inversion H; subst. field. exact E.
Qed.

Lemma dotQ_ones_l n r : length r = n -> dotQ (repeat 1 n) r == sumQ r.
Proof.
  revert r. induction n as [|n IH]; intros [|x r] H; simpl in *; try discriminate; [reflexivity|].
  rewrite IH by lia. ring.
Qed.

Lemma dotQ_ones_ones n : dotQ (repeat 1 n) (repeat 1 n) == Qnat n.
Proof.
  rewrite dotQ_ones_l by apply repeat_length.
  induction n as [|n IH]; [reflexivity|]. simpl repeat. simpl sumQ. rewrite IH.
  unfold Qnat. rewrite Nat2Z.inj_succ, <- Z.add_1_l, inject_Z_plus. reflexivity.
Qed.

Definition res_Qeq (a b : res Q) : Prop :=
  match a, b with
  | Ok x, Ok y => x == y
  | Err e, Err e' => e = e'
  | _, _ => False
  end.

(** the shortcut written for the random-intercept model is the general formula with Z = (1,...,1)' *)
Theorem intercept_special_case r pinv :
  res_Qeq (intercept_re r pinv) (blup1 (repeat 1 (length r)) r pinv).
Proof.
  unfold intercept_re, blup1. rewrite repeat_length, Nat.eqb_refl. simpl.
  pose proof (dotQ_ones_ones (length r)) as E1. pose proof (dotQ_ones_l (length r) r eq_refl) as E2.
  destruct (Qeq_bool (Qnat (length r) + pinv) 0) eqn:Ea;
  destruct (Qeq_bool (dotQ (repeat 1 (length r)) (repeat 1 (length r)) + pinv) 0) eqn:Eb; simpl; trivial.
  - apply Qeq_bool_iff in Ea. apply Qeq_bool_neq in Eb. rewrite E1 in Eb. contradiction.
  - apply Qeq_bool_iff in Eb. apply Qeq_bool_neq in Ea. rewrite E1 in Eb. contradiction.
  - now rewrite E1, E2.
Qed.

(** the random-intercept shortcut is the conditional mean  tau2 * 1'V^-1 r  with V = sigma2 I + tau2 11',
    written with  1'V^-1 = 1'/(sigma2 + n tau2)  and pinv = sigma2/tau2 *)
Theorem intercept_conditional_mean r sigma2 tau2 b :
  0 < sigma2 -> 0 < tau2 -> intercept_re r (sigma2 / tau2) = Ok b ->
  b == tau2 * sumQ r / (sigma2 + Qnat (length r) * tau2).
Proof.
  intros Hs Ht. unfold intercept_re.
  destruct (Qeq_bool (Qnat (length r) + sigma2 / tau2) 0) eqn:E; [discriminate|].
  intros H. inversion H; subst; clear H.
  assert (Hn : 0 <= Qnat (length r)) by (unfold Qnat, Qle; simpl; lia).
  assert (H1 : 0 < sigma2 + Qnat (length r) * tau2).
  { apply Qlt_le_trans with (sigma2 + 0); [now rewrite Qplus_0_r|].
    apply Qplus_le_compat; [apply Qle_refl|]. apply Qmult_le_0_compat; [exact Hn|now apply Qlt_le_weak]. }
  assert (Ht' : ~ tau2 == 0) by (intros C; rewrite C in Ht; now apply Qlt_irrefl in Ht).
  assert (H1' : ~ sigma2 + Qnat (length r) * tau2 == 0) by (intros C; rewrite C in H1; now apply Qlt_irrefl in H1).
  field. split; [exact H1'|exact Ht'].
Qed.

(** the trajectory is the straight line  intercept + slope * age *)
Theorem lme_line p re t :
  ~ ages_std p == 0 -> lme_at p re t == lme_intercept p re + lme_slope p re * t.
Proof.
  intros H. unfold lme_at, lme_intercept, lme_slope, normalise. field. exact H.
Qed.

Theorem lme_trajectory_line p re ages ys :
  lme_trajectory p re ages = Ok ys ->
  length ys = length ages /\
  forall i t, nth_error ages i = Some t ->
    exists y, nth_error ys i = Some y /\ y == lme_intercept p re + lme_slope p re * t.
Proof.
  unfold lme_trajectory. destruct (Qeq_bool (ages_std p) 0) eqn:E; [discriminate|].
  apply Qeq_bool_neq in E. intros H. inversion H; subst; clear H. split; [apply map_length|].
  intros i t Hi. exists (lme_at p re t). split; [now apply map_nth_error|now apply lme_line].
Qed.

Theorem lme_trajectory_defined p re ages :
  ~ ages_std p == 0 -> exists ys, lme_trajectory p re ages = Ok ys.
Proof.
  intros H. unfold lme_trajectory. destruct (Qeq_bool (ages_std p) 0) eqn:E.
  - apply Qeq_bool_iff in E. contradiction.
  - eexists; reflexivity.
Qed.

(** personalisation = normal equations on the normalised design and the fixed-effect residuals *)
Theorem lme_personalize_slope p obs b :
  lme_personalize true p obs = Ok b ->
  let o := remove_nans obs in
  let Z := design p (map fst o) in
  mat_apply_eq (madd (ZtZ Z) (cov_inv p)) b (Ztr Z (residuals p o)).
Proof.
  unfold lme_personalize. destruct (Qeq_bool (ages_std p) 0); [discriminate|].
  destruct (remove_nans obs) as [|x o] eqn:Eo; [discriminate|].
  intros H. now apply blup2_normal_eq.
Qed.

Theorem lme_personalize_intercept p obs b :
  lme_personalize false p obs = Ok b ->
  let r := residuals p (remove_nans obs) in
  (Qnat (length r) + m11 (cov_inv p)) * fst b == sumQ r /\ snd b = 0.
Proof.
  unfold lme_personalize. destruct (Qeq_bool (ages_std p) 0); [discriminate|].
  destruct (remove_nans obs) as [|x o] eqn:Eo; [discriminate|].
  unfold intercept_re.
  destruct (Qeq_bool (Qnat (length (residuals p (x :: o))) + m11 (cov_inv p)) 0) eqn:E; [discriminate|].
  apply Qeq_bool_neq in E. simpl. intros H. inversion H; subst; clear H. simpl. split; [|reflexivity].
  field. exact E.
Qed.

(** missing observations do not enter: only the present values and their ages are used *)
Lemma remove_nans_In obs t y : In (t, y) (remove_nans obs) <-> In (t, Some y) obs.
Proof.
  induction obs as [|[t' [y'|]] o IH]; simpl.
  - reflexivity.
  - rewrite IH. split; (intros [H|H]; [left; now inversion H|now right]).
  - rewrite IH. split; [now right|]. intros [H|H]; [inversion H|exact H].
Qed.

(* ==================================================================================== *)
(** * Table level: [predict] *)

Theorem predict_last d t : t <> [] -> exists row, predict Last d t = Ok row /\ is_last t row.
Proof. intros H. now apply last_row_sound. Qed.

Theorem predict_last_perm d t t' :
  Permutation t t' -> distinct_times t -> predict Last d t = predict Last d t'.
Proof. intros. now apply last_row_perm. Qed.

(** feature by feature, the row returned by 'last' is the value at the greatest age *)
Lemma is_last_col t row j : is_last t row -> is_last (col j t) (nth j row None).
Proof.
  intros [t0 [Hi Hm]]. exists t0. split.
  - unfold col. apply in_map_iff. exists (t0, row). now split.
  - intros t' a' H. unfold col in H. apply in_map_iff in H as [[t1 r1] [E H]]. simpl in E. inversion E; subst.
    eapply Hm; eassumption.
Qed.

Theorem predict_last_known d t : wf d t -> t <> [] ->
  exists vs, predict LastKnown d t = Ok vs /\ length vs = d /\
             forall j, (j < d)%nat -> exists v, nth_error vs j = Some v /\ is_last_known (col j t) v.
Proof. apply per_feature_spec. exact last_known1_sound. Qed.

Theorem predict_last_known_perm d t t' :
  wf d t -> distinct_times t -> Permutation t t' -> predict LastKnown d t = predict LastKnown d t'.
Proof.
  apply (per_feature_perm last_known1 is_last_known).
  - exact last_known1_sound.
  - exact is_last_known_perm.
  - exact is_last_known_unique.
Qed.

Theorem predict_max d t : wf d t -> t <> [] ->
  exists vs, predict Max d t = Ok vs /\ length vs = d /\
             forall j, (j < d)%nat -> exists v, nth_error vs j = Some v /\ is_max (col j t) v.
Proof. apply per_feature_spec. exact max1_sound. Qed.

Theorem predict_mean d t : wf d t -> t <> [] ->
  exists vs, predict Mean d t = Ok vs /\ length vs = d /\
             forall j, (j < d)%nat -> exists v, nth_error vs j = Some v /\ is_mean (col j t) v.
Proof. apply per_feature_spec. intros h _. apply mean1_sound. Qed.

Lemma Forall2_nth_error {A B} (R : A -> B -> Prop) l l' :
  length l = length l' ->
  (forall i a b, nth_error l i = Some a -> nth_error l' i = Some b -> R a b) -> Forall2 R l l'.
Proof.
  revert l'. induction l as [|x l IH]; intros [|y l'] Hl H; simpl in *; try discriminate; constructor.
  - apply (H 0%nat); reflexivity.
  - apply IH; [lia|]. intros i a b Ha Hb. apply (H (S i)); assumption.
Qed.

(** estimators determined up to [==] by an age-free specification: invariant under any row permutation *)
Theorem per_feature_perm_veq (f : hist -> res value) (P : hist -> value -> Prop) d t t' vs vs' :
  (forall h, h <> [] -> exists v, f h = Ok v /\ P h v) ->
  (forall h h' v, Permutation h h' -> P h v -> P h' v) ->
  (forall h v v', P h v -> P h v' -> veq v v') ->
  wf d t -> t <> [] -> Permutation t t' ->
  per_feature f d t = Ok vs -> per_feature f d t' = Ok vs' -> Forall2 veq vs vs'.
Proof.
  intros Hf Hp Hu W Hne Pm E E'.
  assert (Hne' : t' <> []) by (intros ->; apply Permutation_sym, Permutation_nil in Pm; congruence).
  destruct (per_feature_spec f P d _ Hf W Hne) as [ws [Ew [Hl Hn]]].
  destruct (per_feature_spec f P d _ Hf (wf_perm _ _ _ Pm W) Hne') as [ws' [Ew' [Hl' Hn']]].
  rewrite E in Ew. rewrite E' in Ew'. inversion Ew; inversion Ew'; subst ws ws'.
  apply Forall2_nth_error; [congruence|]. intros i a b Ha Hb.
  assert (Hi : (i < d)%nat) by (rewrite <- Hl; apply nth_error_Some; congruence).
  destruct (Hn i Hi) as [v [Ev Pv]]. destruct (Hn' i Hi) as [v' [Ev' Pv']].
  rewrite Ha in Ev. rewrite Hb in Ev'. inversion Ev; inversion Ev'; subst.
  eapply Hu; [exact Pv|]. eapply Hp; [apply Permutation_sym, col_perm; exact Pm|exact Pv'].
Qed.

Theorem predict_max_perm d t t' vs vs' :
  wf d t -> t <> [] -> Permutation t t' ->
  predict Max d t = Ok vs -> predict Max d t' = Ok vs' -> Forall2 veq vs vs'.
Proof.
  apply (per_feature_perm_veq max1 is_max).
  - exact max1_sound.
  - exact is_max_perm.
  - exact is_max_unique.
Qed.

Theorem predict_mean_perm d t t' vs vs' :
  wf d t -> t <> [] -> Permutation t t' ->
  predict Mean d t = Ok vs -> predict Mean d t' = Ok vs' -> Forall2 veq vs vs'.
Proof.
  apply (per_feature_perm_veq mean1 is_mean).
  - intros h _. apply mean1_sound.
  - exact is_mean_perm.
  - exact is_mean_unique.
Qed.

(** "NaN if and only if all values for this feature are NaN", for the three NaN-skipping estimators *)
Definition all_missing (h : hist) : Prop := forall t v, In (t, v) h -> v = None.

Lemma is_last_known_none_iff h v : is_last_known h v -> (v = None <-> all_missing h).
Proof.
  destruct v as [x|]; simpl; intros H; split; trivial; try discriminate.
  intros A. destruct H as [t [Hi _]]. discriminate (A _ _ Hi).
Qed.

Lemma is_max_none_iff h v : is_max h v -> (v = None <-> all_missing h).
Proof.
  destruct v as [x|]; simpl; intros H; split; trivial; try discriminate.
  intros A. destruct H as [[t Hi] _]. discriminate (A _ _ Hi).
Qed.

Lemma is_mean_none_iff h v : is_mean h v -> (v = None <-> all_missing h).
Proof.
  destruct v as [x|]; simpl; intros H; split; trivial; try discriminate.
  intros A. destruct H as [Hne _]. apply present_values_nil in A. congruence.
Qed.

(** the mean is between the extreme present values *)
Theorem is_mean_bounds h m lo hi :
  is_mean h (Some m) -> (forall t x, In (t, Some x) h -> lo <= x /\ x <= hi) -> lo <= m /\ m <= hi.
Proof.
  simpl. intros [Hne E] Hb.
  destruct (sumQ_bounds lo hi (present_values h)) as [B1 B2].
  { intros x Hx. apply present_values_In in Hx as [t Hx]. eapply Hb; eassumption. }
  assert (Hn : 0 < Qnat (length (present_values h))).
  { apply Qnat_pos. destruct (present_values h); [congruence|simpl; lia]. }
  rewrite <- E in B1, B2. split; eapply Qmult_lt_0_le_reg_r; eassumption.
Qed.

Theorem constant_estimate_repeat k d t ages traj :
  constant_estimate k d t ages = Ok traj ->
  exists vals, predict k d t = Ok vals /\ length traj = length ages /\
               forall i, (i < length ages)%nat -> nth_error traj i = Some vals.
Proof.
  unfold constant_estimate. destruct (predict k d t) as [vals|e]; simpl; [|discriminate].
  intros H. inversion H; subst. exists vals. split; [reflexivity|]. apply trajectory_repeat.
Qed.

(* ==================================================================================== *)
(** * Refutation: ages stored with a non-injective (monotone) rounding *)

Definition floorQ (x : Q) : Q := inject_Z (Qfloor x).

Lemma floorQ_mono x y : x <= y -> floorQ x <= floorQ y.
Proof. intros H. unfold floorQ. rewrite <- Zle_Qle. now apply Qfloor_resp_le. Qed.

Definition tie_witness : list (Q * Q) := [(1 # 4, 1); (1 # 2, 2)].

Theorem last_rounded_refuted :
  exists (rnd : Q -> Q) (l : list (Q * Q)),
    (forall x y, x <= y -> rnd x <= rnd y) /\ distinct_times l /\
    StronglySorted (fun a b => fst a <= fst b) l /\
    exists a, last_row (round_times rnd l) = Ok a /\ ~ is_last l a.
Proof.
  exists floorQ, tie_witness. split; [exact floorQ_mono|]. split; [|split].
  - intros r r' [<-|[<-|[]]] [<-|[<-|[]]]; simpl; intros E; try reflexivity; exfalso; revert E; unfold Qeq; simpl; lia.
  - repeat constructor. unfold Qle; simpl; lia.
  - exists 1. split; [reflexivity|].
    intros [t [Hi Hm]]. destruct Hi as [Hi|[Hi|[]]]; inversion Hi; subst.
    specialize (Hm (1 # 2) 2 ltac:(right; now left)). revert Hm. unfold Qle; simpl; lia.
Qed.

(** personalisation is defined as soon as something was observed, the scale is not zero and the system is regular
    (with a non-negative [cov_re_unscaled_inv] the random-intercept system always is) *)
Theorem lme_personalize_defined p obs :
  ~ ages_std p == 0 -> remove_nans obs <> [] ->
  (~ det2 (madd (ZtZ (design p (map fst (remove_nans obs)))) (cov_inv p)) == 0 ->
     exists b, lme_personalize true p obs = Ok b) /\
  (0 <= m11 (cov_inv p) -> exists b, lme_personalize false p obs = Ok b).
Proof.
  intros Hs Hne. unfold lme_personalize.
  destruct (Qeq_bool (ages_std p) 0) eqn:E; [apply Qeq_bool_iff in E; contradiction|].
  destruct (remove_nans obs) as [|x o] eqn:Eo; [congruence|]. split.
  - intros D. apply blup2_defined; [|exact D]. unfold design, residuals. now rewrite !map_length.
  - intros Hp. unfold intercept_re.
    destruct (Qeq_bool (Qnat (length (residuals p (x :: o))) + m11 (cov_inv p)) 0) eqn:Ez.
    + exfalso. apply Qeq_bool_iff in Ez.
      assert (Hn : 0 < Qnat (length (residuals p (x :: o)))) by (apply Qnat_pos; unfold residuals; simpl; lia).
      assert (Hlt : 0 < Qnat (length (residuals p (x :: o))) + m11 (cov_inv p)).
      { apply Qlt_le_trans with (Qnat (length (residuals p (x :: o))) + 0); [now rewrite Qplus_0_r|].
        apply Qplus_le_compat; [apply Qle_refl|exact Hp]. }
      rewrite Ez in Hlt. now apply Qlt_irrefl in Hlt.
    + simpl. eexists; reflexivity.
Qed.

(* ==================================================================================== *)
(** * The normal equations characterise the minimiser of the penalised least-squares criterion
      ||r - Z b||^2 + b' Psi^-1 b  (= -2 sigma^2 log joint density of (r, b) up to a constant: for jointly Gaussian
      (r, b) its minimiser, the posterior mode, is the conditional mean E[b | r]) *)

Fixpoint rss (Z : list (Q * Q)) (r : list Q) (b : Q * Q) : Q :=
  match Z, r with
  | z :: Z', y :: r' => (y - (fst z * fst b + snd z * snd b)) * (y - (fst z * fst b + snd z * snd b)) + rss Z' r' b
  | _, _ => 0
  end.

Definition quad (P : mat2) (b : Q * Q) : Q :=
  fst b * (m11 P * fst b + m12 P * snd b) + snd b * (m21 P * fst b + m22 P * snd b).

Definition objective (Z : list (Q * Q)) (r : list Q) (P : mat2) (b : Q * Q) : Q := rss Z r b + quad P b.

Lemma rss_expand Z : forall r b, length Z = length r ->
  rss Z r b == dotQ r r - 2 * (fst b * fst (Ztr Z r) + snd b * snd (Ztr Z r)) + quad (ZtZ Z) b.
Proof.
  induction Z as [|z Z IH]; intros [|y r] b H; simpl in H; try discriminate.
  - unfold quad, Ztr, ZtZ. simpl. ring.
  - specialize (IH r b ltac:(lia)). cbn [rss]. rewrite IH.
    unfold quad, Ztr, ZtZ. cbn [map sumQ dotQ fst snd m11 m12 m21 m22]. ring.
Qed.

Lemma quad_ZtZ_nonneg Z v : 0 <= quad (ZtZ Z) v.
Proof.
  assert (E : quad (ZtZ Z) v == sumQ (map (fun z => (fst z * fst v + snd z * snd v) * (fst z * fst v + snd z * snd v)) Z)).
  { induction Z as [|z Z IH]; unfold quad, ZtZ in *; cbn [map sumQ fst snd m11 m12 m21 m22] in *; [ring|].
    rewrite <- IH. ring. }
  rewrite E. clear E. induction Z as [|z Z IH]; cbn [map sumQ]; [apply Qle_refl|].
  setoid_replace 0 with (0 + 0) by ring. apply Qplus_le_compat; [|exact IH].
  set (x := fst z * fst v + snd z * snd v). destruct (Qlt_le_dec x 0) as [Hx|Hx].
  - setoid_replace (x * x) with ((- x) * (- x)) by ring. apply Qmult_le_0_compat; apply (Qopp_le_compat x 0); now apply Qlt_le_weak.
  - now apply Qmult_le_0_compat.
Qed.

Lemma ZtZ_sym Z : m12 (ZtZ Z) == m21 (ZtZ Z).
Proof.
  unfold ZtZ. cbn [m12 m21]. induction Z as [|z Z IH]; cbn [map sumQ]; [reflexivity|]. rewrite IH. ring.
Qed.

Theorem penalised_ls_optimal Z r P bh :
  length Z = length r -> m12 P == m21 P -> (forall v, 0 <= quad P v) ->
  mat_apply_eq (madd (ZtZ Z) P) bh (Ztr Z r) ->
  forall b, objective Z r P bh <= objective Z r P b.
Proof.
  intros L Sp Pp [E1 E2] b. unfold objective.
  rewrite !rss_expand by exact L.
  pose proof (ZtZ_sym Z) as Ss. pose proof (quad_ZtZ_nonneg Z (fst b - fst bh, snd b - snd bh)) as N1.
  pose proof (Pp (fst b - fst bh, snd b - snd bh)) as N2.
  destruct (Ztr Z r) as [t1 t2]. destruct (ZtZ Z) as [s11 s12 s21 s22]. destruct P as [p11 p12 p21 p22].
  destruct b as [b1 b2], bh as [h1 h2]. unfold quad, madd in *. cbn [fst snd m11 m12 m21 m22] in *.
  apply Qle_minus_iff.
  setoid_replace (dotQ r r - 2 * (b1 * t1 + b2 * t2) + (b1 * (s11 * b1 + s12 * b2) + b2 * (s21 * b1 + s22 * b2)) +
     (b1 * (p11 * b1 + p12 * b2) + b2 * (p21 * b1 + p22 * b2)) +
     - (dotQ r r - 2 * (h1 * t1 + h2 * t2) + (h1 * (s11 * h1 + s12 * h2) + h2 * (s21 * h1 + s22 * h2)) +
        (h1 * (p11 * h1 + p12 * h2) + h2 * (p21 * h1 + p22 * h2))))
    with (((b1 - h1) * (s11 * (b1 - h1) + s12 * (b2 - h2)) + (b2 - h2) * (s21 * (b1 - h1) + s22 * (b2 - h2)))
        + ((b1 - h1) * (p11 * (b1 - h1) + p12 * (b2 - h2)) + (b2 - h2) * (p21 * (b1 - h1) + p22 * (b2 - h2)))).
  - setoid_replace 0 with (0 + 0) by ring. now apply Qplus_le_compat.
  - rewrite <- E1, <- E2. rewrite Ss, Sp. ring.
Qed.
