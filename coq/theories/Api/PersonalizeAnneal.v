(** C17 — sampling-based personalisation under an annealing schedule
    (leaspy/algo/algo_with_annealing.py, algo/personalize/mcmc.py, mode_posterior.py).  Definitions only; proofs are in
    PersonalizeAnnealProofs.v.

    With `annealing.do_annealing = True` the samplers of iteration k run at `temperature_inv` = 1/T_k.  A scheme with
    `n_plateau = 1` (accepted with a warning) stays at the initial temperature for the whole run, an oscillating scheme
    ends wherever the sine left it: the run may END at a temperature different from 1.  The temperature is a parameter
    of the modelled RUN (it shapes the chain through the samplers, which are not modelled: the chain is an input); the
    SELECTION of the returned draw reads the class constant `regularity_factor` only. *)
From Coq Require Import String ZArith QArith List Bool.
From Leaspy Require Import Base.QAux Api.Personalize.
Import ListNotations.

(** loss of one cell when the regularity is weighted by [w] *)
Definition loss_w (w : Q) (c : cell) : Q := att c + w * reg c.

(** [mode_row] / [mode_posterior] / [personalize_mode] of Personalize.v with the weight left open *)
Definition mode_row_w (w : Q) (h : list draw) (i : nat) : result (list Q) :=
  bind (column h i) (fun col =>
  bind (of_option EmptyHistory (argmin_first (map (loss_w w) col))) (fun b =>
  bind (of_option ShapeMismatch (entry h b i)) (fun c => Ok (vals c)))).

Definition mode_posterior_w (w : Q) (h : list draw) (n_ind : nat) : result (list (list Q)) :=
  match h with
  | [] => Err EmptyHistory
  | _ => sequence (map (mode_row_w w h) (seq 0 n_ind))
  end.

Definition personalize_mode_w (w : Q) (c : chain) (n_iter nb : Z) (ids : list pid) : result (list (string * list Q)) :=
  bind (mode_posterior_w w (history c n_iter nb) (length ids)) (from_pytorch ids).

(** One modelled run: the recorded chain and the inverse temperature handed to the samplers at every iteration
    ([run_tinv r (n_iter + 1)] = the value of `self.temperature_inv` when the estimator is called, i.e. after the
    last `_update_temperature()`). *)
Record annealed_run := mkRun { run_chain : chain; run_tinv : Z -> Q }.

(** `regularity_factor: float = 1.0` (class constant of ModePosteriorAlgorithm) *)
Definition regularity_factor : Q := 1.

(** `attachments + self.regularity_factor * regularities`: the weight of the selection does not read the schedule *)
Definition selection_weight (r : annealed_run) (n_iter : Z) : Q := regularity_factor.

Definition personalize_mode_annealed (r : annealed_run) (n_iter nb : Z) (ids : list pid) : result (list (string * list Q)) :=
  personalize_mode_w (selection_weight r n_iter) (run_chain r) n_iter nb ids.

Definition personalize_mean_annealed (r : annealed_run) (n_iter nb : Z) (ids : list pid) (dim : nat) : result (list (string * list Q)) :=
  personalize_mean (run_chain r) n_iter nb ids dim.

(** The rule that is NOT the code's: the tempered loss `attach + regularity_factor * temperature_inv * regul` with the
    temperature the run ended at.  Used only to show that the two rules differ (PersonalizeAnnealProofs.v). *)
Definition personalize_mode_tempered (r : annealed_run) (n_iter nb : Z) (ids : list pid) : result (list (string * list Q)) :=
  personalize_mode_w (regularity_factor * run_tinv r (n_iter + 1)) (run_chain r) n_iter nb ids.

(** a schedule as recorded by the harness: element k-1 = temperature_inv of iteration k, last element = at the estimator *)
Definition sched_of (l : list Q) : Z -> Q := fun k => if (1 <=? k)%Z then nth (Z.to_nat (k - 1)) l 1 else 1.
