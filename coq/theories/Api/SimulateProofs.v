(** C18 — proofs about the model of Api/Simulate.v. *)
From Coq Require Import ZArith QArith Qround Qabs Qminmax Bool List String Ascii Lia Lqa Sorted Permutation
     DecimalString DecimalNat DecimalFacts.
From Leaspy Require Import Base.QAux Api.Simulate.
Import ListNotations.

(* ------------------------------------------------------------------------------------------ *)
(** * values *)

Lemma Qlt_bool_false x y : Qlt_bool x y = false -> y <= x.
Proof.
  intros H. destruct (Qlt_le_dec x y) as [L|L]; [|exact L].
  apply Qlt_bool_iff in L. congruence.
Qed.

Lemma clip_range lo hi x : lo <= hi -> lo <= clip lo hi x /\ clip lo hi x <= hi.
Proof.
  intros H. unfold clip.
  destruct (Qlt_bool x lo) eqn:E1.
  - split; [apply Qle_refl | exact H].
  - destruct (Qlt_bool hi x) eqn:E2.
    + split; [exact H | apply Qle_refl].
    + split; [now apply Qlt_bool_false | now apply Qlt_bool_false].
Qed.

Lemma clip_id lo hi x : lo <= x -> x <= hi -> clip lo hi x = x.
Proof.
  intros H1 H2. unfold clip.
  destruct (Qlt_bool x lo) eqn:E1.
  - apply Qlt_bool_iff in E1. lra.
  - destruct (Qlt_bool hi x) eqn:E2; [|reflexivity].
    apply Qlt_bool_iff in E2. lra.
Qed.

Lemma clip_open_unit lo hi x : 0 < lo -> lo <= hi -> hi < 1 -> 0 < clip lo hi x /\ clip lo hi x < 1.
Proof. intros H0 H H1. destruct (clip_range lo hi x H). split; lra. Qed.

Lemma max_var_pos mu : 0 < mu -> mu < 1 -> 0 < max_var mu.
Proof. intros. unfold max_var. nra. Qed.

Lemma adj_var_bounds factor mu var :
  0 < mu -> mu < 1 -> 0 < var -> 0 < factor -> factor < 1 ->
  0 < adj_var factor mu var /\ adj_var factor mu var < max_var mu /\ adj_var factor mu var <= var.
Proof.
  intros Hm0 Hm1 Hv Hf0 Hf1. pose proof (max_var_pos mu Hm0 Hm1) as HM.
  unfold adj_var, Qmin.
  assert (HfM : 0 < factor * max_var mu) by nra.
  assert (HfM1 : factor * max_var mu < max_var mu) by nra.
  destruct (Q.min_spec var (factor * max_var mu)) as [[L E]|[L E]]; rewrite E; repeat split; lra.
Qed.

Lemma beta_params_defined mu v :
  0 < mu -> mu < 1 -> 0 < v -> v < max_var mu ->
  exists a b, beta_params mu v = Some (a, b) /\ 0 < a /\ 0 < b.
Proof.
  intros Hm0 Hm1 Hv HvM. unfold beta_params.
  destruct (Qeq_bool v 0) eqn:E.
  - apply Qeq_bool_iff in E. lra.
  - eexists _, _. split; [reflexivity|].
    assert (H1 : 0 < mu * (1 - mu) / v - 1).
    { assert (1 < mu * (1 - mu) / v); [|lra].
      apply Qlt_shift_div_l; [exact Hv|]. unfold max_var in HvM. lra. }
    split; apply Qmult_lt_0_compat; lra.
Qed.

(** 0 < mu < 1 and 0 < var: after the clamp both beta parameters are defined and positive *)
Lemma beta_params_positive factor mu var :
  0 < factor -> factor < 1 -> 0 < mu -> mu < 1 -> 0 < var ->
  exists a b, beta_params mu (adj_var factor mu var) = Some (a, b) /\ 0 < a /\ 0 < b.
Proof.
  intros Hf0 Hf1 Hm0 Hm1 Hv.
  destruct (adj_var_bounds factor mu var Hm0 Hm1 Hv Hf0 Hf1) as (A & B & _).
  now apply beta_params_defined.
Qed.

(** the mean of Beta(a, b) is the clipped model value: a / (a + b) = mu *)
Lemma beta_params_mean mu v a b :
  0 < mu -> mu < 1 -> 0 < v -> v < max_var mu -> beta_params mu v = Some (a, b) -> a == mu * (a + b).
Proof.
  intros Hm0 Hm1 Hv HvM. unfold beta_params. destruct (Qeq_bool v 0); [discriminate|].
  intros E. injection E as <- <-. ring.
Qed.

(** without the clamp factor (factor = 1) and a large noise the parameters degenerate to 0 *)
Lemma clamp_factor_needed : exists mu var a b,
  0 < mu /\ mu < 1 /\ 0 < var /\ beta_params mu (adj_var 1 mu var) = Some (a, b) /\ a == 0 /\ b == 0.
Proof.
  exists (1#2), 1. eexists _, _. split; [reflexivity|]. split; [reflexivity|]. split; [reflexivity|].
  split; [vm_compute; reflexivity|]. split; reflexivity.
Qed.

Section NoiseProofs.
  Variables lo hi factor : Q.
  Variable beta_rvs : Q -> Q -> nat -> option Q.
  Hypothesis Hlo : 0 < lo.
  Hypothesis Hlohi : lo <= hi.
  Hypothesis Hhi : hi < 1.
  Hypothesis Hf0 : 0 < factor.
  Hypothesis Hf1 : factor < 1.
  (** what is assumed of scipy: defined and within [0,1] whenever both parameters are positive *)
  Hypothesis rvs_spec : forall a b i, 0 < a -> 0 < b -> exists y, beta_rvs a b i = Some y /\ 0 <= y /\ y <= 1.

  Lemma noisy_in_unit x var i :
    0 < var -> exists y, noisy lo hi factor beta_rvs x var i = Some y /\ 0 <= y /\ y <= 1.
  Proof.
    intros Hv. unfold noisy.
    destruct (clip_open_unit lo hi x Hlo Hlohi Hhi) as [C0 C1].
    destruct (beta_params_positive factor (clip lo hi x) var Hf0 Hf1 C0 C1 Hv) as (a & b & E & Ha & Hb).
    rewrite E. now apply rvs_spec.
  Qed.
End NoiseProofs.

(* ------------------------------------------------------------------------------------------ *)
(** * rounding *)

Lemma round_half_even_near x :
  inject_Z (round_half_even x) - x <= 1 # 2 /\ x - inject_Z (round_half_even x) <= 1 # 2.
Proof.
  unfold round_half_even.
  pose proof (Qfloor_le x) as L. pose proof (Qlt_floor x) as U.
  rewrite inject_Z_plus in U. change (inject_Z 1) with 1 in U.
  destruct (Qlt_bool (x - inject_Z (Qfloor x)) (1 # 2)) eqn:E1.
  - apply Qlt_bool_iff in E1. split; lra.
  - apply Qlt_bool_false in E1.
    destruct (Qlt_bool (1 # 2) (x - inject_Z (Qfloor x))) eqn:E2.
    + rewrite inject_Z_plus. change (inject_Z 1) with 1. split; lra.
    + apply Qlt_bool_false in E2.
      destruct (Z.even (Qfloor x)); [|rewrite inject_Z_plus; change (inject_Z 1) with 1]; split; lra.
Qed.

Lemma round_half_even_abs x : Qabs (inject_Z (round_half_even x) - x) <= 1 # 2.
Proof. destruct (round_half_even_near x). apply Qabs_Qle_condition. split; lra. Qed.

(** ties go to the even neighbour (numpy.rint) *)
Lemma round_half_even_tie (n : Z) :
  round_half_even (inject_Z n + (1 # 2)) = if Z.even n then n else (n + 1)%Z.
Proof.
  unfold round_half_even.
  assert (F : Qfloor (inject_Z n + (1 # 2)) = n).
  { symmetry. apply Z.le_antisymm.
    - transitivity (Qfloor (inject_Z n)); [rewrite Qfloor_Z; lia | apply Qfloor_resp_le; lra].
    - assert (Qfloor (inject_Z n + (1 # 2)) < n + 1)%Z; [|lia].
      rewrite Zlt_Qlt. eapply Qle_lt_trans; [apply Qfloor_le|]. rewrite inject_Z_plus. change (inject_Z 1) with 1. lra. }
  rewrite F.
  assert (E1 : Qlt_bool (inject_Z n + (1 # 2) - inject_Z n) (1 # 2) = false).
  { apply not_true_is_false. intros E. apply Qlt_bool_iff in E. lra. }
  assert (E2 : Qlt_bool (1 # 2) (inject_Z n + (1 # 2) - inject_Z n) = false).
  { apply not_true_is_false. intros E. apply Qlt_bool_iff in E. lra. }
  now rewrite E1, E2.
Qed.

Lemma pow10_pos p : (0 <= p)%Z -> 0 < pow10 p.
Proof.
  intros H. unfold pow10. change 0 with (inject_Z 0). rewrite <- Zlt_Qlt. now apply Z.pow_pos_nonneg.
Qed.

(** the returned age [k / 10^p] is within half a unit of the last place of the requested age *)
Lemma age_key_near p t : Qabs (inject_Z (age_key p t) - t * pow10 p) <= 1 # 2.
Proof. apply round_half_even_abs. Qed.

Lemma age_of_scaled p k : (0 <= p)%Z -> age_of p k * pow10 p == inject_Z k.
Proof. intros H. unfold age_of. pose proof (pow10_pos p H). field. lra. Qed.

(* ------------------------------------------------------------------------------------------ *)
(** * de-duplication, sorting *)

Lemma key_eqb_eq a b : key_eqb a b = true <-> a = b.
Proof.
  destruct a as [s x], b as [t y]. unfold key_eqb. simpl.
  rewrite andb_true_iff, String.eqb_eq, Z.eqb_eq. split; [intros [-> ->]; reflexivity | intros [= -> ->]; auto].
Qed.

Lemma key_eqb_refl a : key_eqb a a = true.
Proof. now apply key_eqb_eq. Qed.

Lemma NoDup_map_filter {A B} (f : A -> B) (g : A -> bool) l :
  NoDup (map f l) -> NoDup (map f (filter g l)).
Proof.
  induction l as [|x l IH]; simpl; intros H; [constructor|].
  inversion H as [|? ? Hn Hd]; subst.
  destruct (g x); simpl; [|now apply IH].
  constructor; [|now apply IH].
  intros C. apply Hn. apply in_map_iff in C. destruct C as (y & E & Hy).
  apply filter_In in Hy. apply in_map_iff. exists y. tauto.
Qed.

Lemma dedup_first_incl l r : In r (dedup_first l) -> In r l.
Proof.
  revert r. induction l as [|x l IH]; simpl; intros r H; [exact H|].
  destruct H as [H|H]; [now left|]. apply filter_In in H. right. apply IH. tauto.
Qed.

Lemma dedup_first_nodup l : NoDup (map rkey (dedup_first l)).
Proof.
  induction l as [|x l IH]; simpl; [constructor|].
  constructor.
  - intros C. apply in_map_iff in C. destruct C as (y & E & Hy).
    apply filter_In in Hy. destruct Hy as [_ Hy]. rewrite E, key_eqb_refl in Hy. discriminate.
  - now apply NoDup_map_filter.
Qed.

(** no key is lost: every input row has a representative with the same (individual, age) *)
Lemma dedup_first_complete l r : In r l -> exists r', In r' (dedup_first l) /\ rkey r' = rkey r.
Proof.
  induction l as [|x l IH]; simpl; intros H; [contradiction|].
  destruct H as [->|H]; [exists r; auto|].
  destruct (IH H) as (r' & Hr' & E).
  destruct (key_eqb (rkey r') (rkey x)) eqn:K.
  - apply key_eqb_eq in K. exists x. split; [now left | congruence].
  - exists r'. split; [|exact E]. right. apply filter_In. split; [exact Hr'|]. now rewrite K.
Qed.

(** the representative is the first one: nothing before it in the input has its key *)
Lemma dedup_first_is_first l r :
  In r (dedup_first l) -> exists l1 l2, l = l1 ++ r :: l2 /\ ~ In (rkey r) (map rkey l1).
Proof.
  revert r. induction l as [|x l IH]; simpl; intros r H; [contradiction|].
  destruct H as [->|H].
  - exists [], l. split; [reflexivity | intros []].
  - apply filter_In in H. destruct H as [H K].
    destruct (IH r H) as (l1 & l2 & -> & Hn).
    exists (x :: l1), l2. split; [reflexivity|].
    simpl. intros [C|C]; [|now apply Hn].
    rewrite C, key_eqb_refl in K. discriminate.
Qed.

Lemma insert_row_perm r l : Permutation (insert_row r l) (r :: l).
Proof.
  induction l as [|x l IH]; simpl; [apply Permutation_refl|].
  destruct (_ <=? _)%Z; [apply Permutation_refl|].
  eapply Permutation_trans; [apply perm_skip, IH | apply perm_swap].
Qed.

Lemma sort_rows_perm l : Permutation (sort_rows l) l.
Proof.
  induction l as [|x l IH]; simpl; [constructor|].
  eapply Permutation_trans; [apply insert_row_perm | now apply perm_skip].
Qed.

Definition kz (r : srow) : Z := snd (rkey r).

Lemma insert_row_sorted r l :
  StronglySorted (fun a b => (kz a <= kz b)%Z) l -> StronglySorted (fun a b => (kz a <= kz b)%Z) (insert_row r l).
Proof.
  induction l as [|x l IH]; simpl; intros H.
  - constructor; constructor.
  - inversion H as [|? ? Hs Hf]; subst.
    destruct (snd (rkey r) <=? snd (rkey x))%Z eqn:E.
    + apply Z.leb_le in E. constructor; [exact H|].
      constructor; [exact E|]. eapply Forall_impl; [|exact Hf]. intros a Ha. unfold kz in *. lia.
    + apply Z.leb_gt in E. constructor; [now apply IH|].
      eapply Permutation_Forall; [apply Permutation_sym, insert_row_perm|].
      constructor; [unfold kz; lia | exact Hf].
Qed.

Lemma sort_rows_sorted l : StronglySorted (fun a b => (kz a <= kz b)%Z) (sort_rows l).
Proof. induction l; simpl; [constructor | now apply insert_row_sorted]. Qed.

Lemma ssorted_map_le l :
  StronglySorted (fun a b => (kz a <= kz b)%Z) l -> StronglySorted Z.le (map kz l).
Proof.
  induction 1 as [|x l Hs IH Hf]; simpl; constructor; [exact IH|].
  apply Forall_map. exact Hf.
Qed.

Lemma ssorted_le_nodup_lt l : StronglySorted Z.le l -> NoDup l -> StronglySorted Z.lt l.
Proof.
  induction 1 as [|x l Hs IH Hf]; intros Hn; constructor; inversion Hn as [|? ? Hx Hd]; subst.
  - now apply IH.
  - rewrite Forall_forall in *. intros y Hy. specialize (Hf y Hy).
    assert (x <> y) by (intros ->; contradiction). lia.
Qed.

Lemma rows_of_id id l r : In r (rows_of id l) -> fst (rkey r) = id.
Proof. unfold rows_of. intros H. apply filter_In in H. now apply String.eqb_eq. Qed.

Lemma NoDup_map_kz id l : (forall r, In r l -> fst (rkey r) = id) -> NoDup (map rkey l) -> NoDup (map kz l).
Proof.
  induction l as [|x l IH]; simpl; intros Hid Hn; [constructor|].
  inversion Hn as [|? ? Hx Hd]; subst. constructor; [|apply IH; auto].
  intros C. apply Hx. apply in_map_iff in C. destruct C as (y & E & Hy).
  apply in_map_iff. exists y. split; [|exact Hy].
  pose proof (Hid x (or_introl eq_refl)) as E1. pose proof (Hid y (or_intror Hy)) as E2.
  unfold kz in E. destruct (rkey x), (rkey y); simpl in *; congruence.
Qed.

(** each individual's ages in the returned data are strictly increasing (hence unique) *)
Lemma ages_unique_increasing p id l : StronglySorted Z.lt (ages_of p id l).
Proof.
  unfold ages_of, visits_of. fold kz. change (fun r : srow => snd (rkey r)) with kz.
  apply ssorted_le_nodup_lt.
  - apply ssorted_map_le, sort_rows_sorted.
  - eapply Permutation_NoDup; [apply Permutation_map, Permutation_sym, sort_rows_perm|].
    apply (NoDup_map_kz id).
    + intros r. apply rows_of_id.
    + unfold rows_of. apply NoDup_map_filter, dedup_first_nodup.
Qed.

Lemma in_round_rows p l id t v : In (id, t, v) l -> In (id, age_key p t, v) (round_rows p l).
Proof. intros H. unfold round_rows. apply in_map_iff. exists (id, t, v). auto. Qed.

(** every requested visit is present, at its rounded age *)
Lemma ages_complete p id l t v : In (id, t, v) l -> In (age_key p t) (ages_of p id l).
Proof.
  intros H. apply (in_round_rows p) in H.
  destruct (dedup_first_complete _ _ H) as (r' & Hr' & E).
  unfold ages_of, visits_of. apply in_map_iff. exists r'. split.
  - rewrite E. reflexivity.
  - eapply Permutation_in; [apply Permutation_sym, sort_rows_perm|].
    unfold rows_of. apply filter_In. split; [exact Hr'|]. rewrite E. simpl. apply String.eqb_refl.
Qed.

(** every returned visit is a requested visit of that individual, rounded; its values are those of
    the FIRST requested visit that rounds to this age *)
Lemma visits_sound p id l r :
  In r (visits_of p id l) ->
  exists l1 l2 t, round_rows p l = l1 ++ r :: l2 /\ ~ In (rkey r) (map rkey l1) /\
                  In (id, t, snd r) l /\ rkey r = (id, age_key p t).
Proof.
  unfold visits_of. intros H.
  eapply Permutation_in in H; [|apply sort_rows_perm].
  pose proof (rows_of_id _ _ _ H) as Hid.
  unfold rows_of in H. apply filter_In in H. destruct H as [H _].
  destruct (dedup_first_is_first _ _ H) as (l1 & l2 & E & Hn).
  apply dedup_first_incl in H. unfold round_rows in H. apply in_map_iff in H.
  destruct H as ([[id' t] v] & Er & Hin). simpl in Er. subst r. simpl in *. subst id'.
  exists l1, l2, t. repeat split; auto.
Qed.

(* ------------------------------------------------------------------------------------------ *)
(** * individuals *)

Lemma uniq_in {A} (eqb : A -> A -> bool) (Heq : forall a b, eqb a b = true <-> a = b) l x :
  In x (uniq eqb l) <-> In x l.
Proof.
  induction l as [|y l IH]; simpl; [tauto|].
  split.
  - intros [H|H]; [now left|]. apply filter_In in H. right. apply IH. tauto.
  - intros [H|H]; [now left|].
    destruct (eqb x y) eqn:E.
    + left. symmetry. now apply Heq.
    + right. apply filter_In. split; [now apply IH | now rewrite E].
Qed.

Lemma NoDup_filter {A} (g : A -> bool) l : NoDup l -> NoDup (filter g l).
Proof. intros H. rewrite <- (map_id (filter g l)). apply NoDup_map_filter. now rewrite map_id. Qed.

Lemma uniq_nodup {A} (eqb : A -> A -> bool) (Heq : forall a b, eqb a b = true <-> a = b) l : NoDup (uniq eqb l).
Proof.
  induction l as [|y l IH]; simpl; constructor.
  - intros C. apply filter_In in C. destruct C as [_ C].
    assert (eqb y y = true) by now apply Heq. rewrite H in C. discriminate.
  - now apply NoDup_filter.
Qed.

(** de-duplication never removes an individual, and reports each one once *)
Lemma individuals_spec p l id :
  In id (individuals p l) <-> exists t v, In (id, t, v) l.
Proof.
  unfold individuals. rewrite (uniq_in String.eqb String.eqb_eq). split.
  - intros H. apply in_map_iff in H. destruct H as (r & E & H).
    apply dedup_first_incl in H. unfold round_rows in H. apply in_map_iff in H.
    destruct H as ([[id' t] v] & Er & Hin). subst r. simpl in E. subst id'. eauto.
  - intros (t & v & H). apply (in_round_rows p) in H.
    destruct (dedup_first_complete _ _ H) as (r' & Hr' & E).
    apply in_map_iff. exists r'. split; [now rewrite E | exact Hr'].
Qed.

Lemma individuals_nodup p l : NoDup (individuals p l).
Proof. apply (uniq_nodup String.eqb String.eqb_eq). Qed.

Lemma to_uint_nonnil n : Nat.to_uint n <> Decimal.Nil.
Proof.
  rewrite <- (Unsigned.of_to n) at 1. rewrite Unsigned.to_of. apply unorm_nonnil.
Qed.

Lemma string_of_nat_inj a b : string_of_nat a = string_of_nat b -> a = b.
Proof.
  unfold string_of_nat. intros H.
  assert (E : NilZero.uint_of_string (NilZero.string_of_uint (Nat.to_uint a)) =
              NilZero.uint_of_string (NilZero.string_of_uint (Nat.to_uint b))) by now rewrite H.
  rewrite !NilZero.usu in E; try apply to_uint_nonnil.
  injection E as E. now apply Unsigned.to_uint_inj.
Qed.

Lemma ids_random_spec n : List.length (ids_random n) = n /\ NoDup (ids_random n).
Proof.
  unfold ids_random. split; [now rewrite map_length, seq_length|].
  apply FinFun.Injective_map_NoDup; [exact string_of_nat_inj | apply seq_NoDup].
Qed.

Lemma ids_table_spec ids : NoDup (ids_table ids) /\ forall x, In x (ids_table ids) <-> In x ids.
Proof.
  split; [apply (uniq_nodup String.eqb String.eqb_eq) | intros x; apply (uniq_in String.eqb String.eqb_eq)].
Qed.

(** the individuals of the returned data are exactly the individuals of the parameter table [ids]
    (one row each), provided every one of them was given at least one visit *)
Lemma individuals_exact p l ids :
  NoDup ids -> (forall id, In id ids <-> exists t v, In (id, t, v) l) -> Permutation (individuals p l) ids.
Proof.
  intros Hn H. apply NoDup_Permutation; [apply individuals_nodup | exact Hn|].
  intros id. rewrite individuals_spec. symmetry. apply H.
Qed.

(* ------------------------------------------------------------------------------------------ *)
(** * the random visit loop *)

Lemma visit_ages_first t0 f steps l : visit_ages t0 f steps = Some l -> exists r, l = t0 :: r.
Proof. unfold visit_ages. destruct (visit_loop t0 f steps); [intros [= <-]; eauto | discriminate]. Qed.

(** positive steps: the ages are strictly increasing before any rounding *)
Lemma visit_loop_increasing steps : forall t f l,
  Forall (fun s => 0 < s) steps -> visit_loop t f steps = Some l -> StronglySorted Qlt (t :: l).
Proof.
  induction steps as [|s r IH]; intros t f l Hp; simpl.
  - destruct (Qlt_bool t f); [discriminate|]. intros [= <-]. constructor; constructor.
  - destruct (Qlt_bool t f); [|intros [= <-]; constructor; constructor].
    destruct (visit_loop (t + s) f r) eqn:E; [|discriminate]. intros [= <-].
    inversion Hp as [|? ? Hs Hr]; subst. cbv beta in Hs.
    specialize (IH _ _ _ Hr E). constructor; [exact IH|].
    inversion IH as [|? ? Hss Hf]; subst. constructor; [lra|].
    eapply Forall_impl; [|exact Hf]. simpl. intros a Ha. lra.
Qed.

(** steps bounded below by delta > 0: the loop ends within ceil((f - t) / delta) draws *)
Lemma visit_loop_terminates delta steps : forall t f,
  0 < delta -> Forall (fun s => delta <= s) steps ->
  f - t <= delta * inject_Z (Z.of_nat (List.length steps)) ->
  exists l, visit_loop t f steps = Some l.
Proof.
  induction steps as [|s r IH]; intros t f Hd Hs Hb; simpl.
  - destruct (Qlt_bool t f) eqn:E; [|eauto]. apply Qlt_bool_iff in E.
    change (inject_Z (Z.of_nat (List.length (@nil Q)))) with 0 in Hb. lra.
  - destruct (Qlt_bool t f) eqn:E; [|eauto].
    inversion Hs as [|? ? H1 H2]; subst. cbv beta in H1.
    destruct (IH (t + s) f Hd H2) as (l & El).
    + simpl List.length in Hb. rewrite Nat2Z.inj_succ, <- Z.add_1_r, inject_Z_plus in Hb.
      change (inject_Z 1) with 1 in Hb. lra.
    + rewrite El. eauto.
Qed.

(** non-positive steps: however many draws are made, the loop has not ended *)
Lemma visit_loop_diverges steps : forall t f,
  t < f -> Forall (fun s => s <= 0) steps -> visit_loop t f steps = None.
Proof.
  induction steps as [|s r IH]; intros t f Ht Hs; simpl.
  - apply Qlt_bool_iff in Ht. now rewrite Ht.
  - pose proof Ht as Ht'. apply Qlt_bool_iff in Ht'. rewrite Ht'.
    inversion Hs as [|? ? H1 H2]; subst. cbv beta in H1. rewrite IH; [reflexivity | lra | exact H2].
Qed.

(* ------------------------------------------------------------------------------------------ *)
(** * rounding precision *)

Lemma Qle_bool_false v ms : Qle_bool v ms = false -> ms < v.
Proof.
  intros E. destruct (Qlt_le_dec ms v) as [L|L]; [exact L|]. apply Qle_bool_iff in L. congruence.
Qed.

(** the loop leaves the initial value exactly when no option fits *)
Lemma precision_fallback opts init ms :
  Forall (fun pv => ms < snd pv) opts -> precision_of opts init ms = init.
Proof.
  induction 1 as [|[p v] r H _ IH]; simpl; [reflexivity|].
  simpl in H. destruct (Qle_bool v ms) eqn:E; [|exact IH]. apply Qle_bool_iff in E. lra.
Qed.

(** what the loop returns: the first option (in the order of the list) whose threshold is <= the spacing,
    the initial value when there is none *)
Lemma precision_spec opts init ms :
  (exists l1 p v l2, opts = l1 ++ (p, v) :: l2 /\ v <= ms /\ Forall (fun pv => ms < snd pv) l1 /\
                     precision_of opts init ms = Some p) \/
  (Forall (fun pv => ms < snd pv) opts /\ precision_of opts init ms = init).
Proof.
  induction opts as [|[q v] r IH]; simpl; [right; split; [constructor | reflexivity]|].
  destruct (Qle_bool v ms) eqn:E.
  - left. exists [], q, v, r. repeat split; [now apply Qle_bool_iff | constructor].
  - apply Qle_bool_false in E. destruct IH as [(l1 & p & v' & l2 & -> & Hv & Hf & Hp)|[Hf Hp]].
    + left. exists ((q, v) :: l1), p, v', l2. repeat split; [exact Hv | constructor; [exact E | exact Hf] | exact Hp].
    + right. split; [constructor; [exact E | exact Hf] | exact Hp].
Qed.

(** with an integer initial value the choice is total, and is that value or one of the options *)
Lemma precision_total opts k ms :
  exists p, precision_of opts (Some k) ms = Some p /\ (p = k \/ In p (map fst opts)).
Proof.
  destruct (precision_spec opts (Some k) ms) as [(l1 & p & v & l2 & -> & _ & _ & Hp)|[_ Hp]].
  - exists p. split; [exact Hp|]. right. rewrite map_app, in_app_iff. right. now left.
  - exists k. split; [exact Hp | now left].
Qed.

Lemma precision_some opts init ms p :
  precision_of opts init ms = Some p ->
  (exists l1 v l2, opts = l1 ++ (p, v) :: l2 /\ v <= ms /\ Forall (fun pv => ms < snd pv) l1) \/
  (init = Some p /\ Forall (fun pv => ms < snd pv) opts).
Proof.
  intros H. destruct (precision_spec opts init ms) as [(l1 & q & v & l2 & E & Hv & Hf & Hp)|[Hf Hp]].
  - left. rewrite Hp in H. injection H as <-. exists l1, v, l2. auto.
  - right. split; [congruence | exact Hf].
Qed.

(** without an integer initial value (the code before the repair) nothing is found exactly when no option fits *)
Lemma precision_none opts ms :
  precision_of opts None ms = None <-> Forall (fun pv => ms < snd pv) opts.
Proof.
  split.
  - intros H. destruct (precision_spec opts None ms) as [(l1 & q & v & l2 & E & Hv & Hf & Hp)|[Hf Hp]]; [congruence | exact Hf].
  - apply precision_fallback.
Qed.

Lemma max_key_in opts k : max_key opts = Some k -> In k (map fst opts) /\ Forall (fun pv => (fst pv <= k)%Z) opts.
Proof.
  revert k. induction opts as [|[p v] r IH]; simpl; [discriminate|].
  destruct (max_key r) as [q|] eqn:E.
  - intros k [= <-]. destruct (IH q eq_refl) as [Hi Hf]. split.
    + destruct (Z.max_spec p q) as [[_ ->]|[_ ->]]; [right; exact Hi | now left].
    + constructor; [simpl; lia|]. eapply Forall_impl; [|exact Hf]. simpl. intros a Ha. lia.
  - intros k [= <-]. split; [now left|]. constructor; [simpl; lia|].
    destruct r as [|[p' v'] r']; [constructor|]. simpl in E. destruct (max_key r'); discriminate.
Qed.

(* ------------------------------------------------------------------------------------------ *)
(** * outcome of a call *)

Lemma run_never_refuses opts init dflt m vt feats ps : run_outcome opts init dflt m vt feats ps <> Refuse.
Proof.
  unfold run_outcome.
  repeat match goal with
         | |- context [match ?x with _ => _ end] => destruct x; try discriminate
         end.
Qed.

(** a LeaspyAlgoInputError can only come from the constructor, i.e. before anything is drawn *)
Lemma refusal_is_constructor opts init dflt m d :
  simulate_outcome opts init dflt m d = Refuse <-> construct d = Refuse.
Proof.
  unfold simulate_outcome. destruct (construct d) as [ps| |]; split; try discriminate; try reflexivity.
  destruct (d_visit_type d); [|discriminate]. intros H. now apply run_never_refuses in H.
Qed.

(** ** validation guarantees a numeric spacing *)

Lemma exec_rows_app d r1 r2 f :
  exec_rows d (r1 ++ r2) f = match exec_rows d r1 f with None => None | Some f' => exec_rows d r2 f' end.
Proof.
  revert f. induction r1 as [|[k ss] r IH]; intros f; simpl; [reflexivity|].
  destruct (exec_stmts (lookup k d) ss f); [apply IH | reflexivity].
Qed.

(** the optional-key block of [_check_params]: a spacing that is present and not a number sets the type flag
    (and then raises on the sign test) *)
Lemma spacing_row_numeric d f f' :
  exec_rows d [row_spacing] f = Some f' -> any_flag f' = false ->
  match lookup "min_spacing_between_visits" d with None => True | Some v => isinst TNum v = true end.
Proof.
  unfold row_spacing. simpl. destruct (lookup "min_spacing_between_visits" d) as [v|]; [|trivial].
  destruct v; simpl; try reflexivity; try discriminate.
Qed.

Lemma isinst_num v : isinst TNum v = true -> exists q, num_of v = Some q.
Proof. destruct v; simpl; try discriminate; eauto. Qed.

Lemma checked_spacing_numeric rows d dflt :
  check_params d (rows ++ [row_spacing]) = Ok tt -> exists ms, min_spacing_of dflt d = Some ms.
Proof.
  unfold check_params. rewrite exec_rows_app.
  destruct (exec_rows d rows no_flags) as [f|]; [|discriminate].
  destruct (exec_rows d [row_spacing] f) as [f'|] eqn:E; [|discriminate].
  destruct (any_flag f') eqn:A; [discriminate|]. intros _.
  pose proof (spacing_row_numeric d f f' E A) as H. unfold min_spacing_of.
  destruct (lookup "min_spacing_between_visits" d) as [v|]; [now apply isinst_num | eauto].
Qed.

(** what an accepted design guarantees about the spacing handed to [_generate_dataset] *)
Definition spacing_ok (dflt : Q) (vt : vtype) (ps : dict) : Prop :=
  match vt with
  | VtRandom => exists ms, min_spacing_of dflt ps = Some ms
  | VtDataframe => True
  | VtOther => False
  end.

Lemma validated_spacing_ok dflt vt feats ps : validate vt feats ps = Ok tt -> spacing_ok dflt vt ps.
Proof.
  unfold validate. destruct (check_features feats); try discriminate.
  destruct vt; simpl; [| trivial | discriminate].
  destruct (check_params ps random_rows) as [[]| |] eqn:E; try discriminate. intros _.
  change random_rows with (removelast random_rows ++ [row_spacing]) in E.
  exact (checked_spacing_numeric _ _ dflt E).
Qed.

Lemma accepted_spacing_ok dflt d ps vt :
  construct d = Ok ps -> d_visit_type d = Some vt -> spacing_ok dflt vt ps.
Proof.
  unfold construct. intros H E. rewrite E in H.
  destruct (set_param_study vt (d_params d)) as [ps'|]; [|discriminate].
  destruct (validate vt (d_features d) ps') as [[]| |] eqn:V; try discriminate.
  injection H as <-. now apply validated_spacing_ok with (feats := d_features d).
Qed.

(** exact characterisation of the parameter sets on which [_run] completes (integer precision [k] before the loop) *)
Definition runnable_core (m : model_shape) (feats : featsv) (ps : dict) : Prop :=
  exists n, lookup "patient_number" ps = Some (VInt n) /\ (2 <= n)%Z /\
            existsb is_null (frame_ids ps) = false /\ existsb is_intid (frame_ids ps) = false /\
            source_dimension m <> 0%nat /\ n_features feats = dimension m /\
            nodupb (feature_names feats) = true.

Definition runnable (dflt : Q) (m : model_shape) (vt : vtype) (feats : featsv) (ps : dict) : Prop :=
  runnable_core m feats ps /\ spacing_ok dflt vt ps.

Lemma run_ok_iff opts k dflt m vt feats ps :
  run_outcome opts (Some k) dflt m vt feats ps = Ok tt <-> runnable dflt m vt feats ps.
Proof.
  unfold run_outcome, runnable, runnable_core. split.
  - destruct (lookup "patient_number" ps) as [[n| | | | |]|]; try discriminate.
    destruct (existsb is_null (frame_ids ps)) eqn:E1; [discriminate|].
    destruct (source_dimension m =? 0)%nat eqn:E2; [discriminate|].
    destruct (n_features feats =? dimension m)%nat eqn:E3; [|discriminate]. simpl negb. cbv iota.
    destruct (existsb is_intid (frame_ids ps)) eqn:E4; [discriminate|].
    destruct (n <=? 0)%Z eqn:E5; [discriminate|].
    destruct (n =? 1)%Z eqn:E6; [discriminate|].
    destruct (nodupb (feature_names feats)) eqn:E7; [|discriminate]. simpl negb. cbv iota.
    intros H. apply Z.leb_gt in E5. apply Z.eqb_neq in E6. apply Nat.eqb_neq in E2. apply Nat.eqb_eq in E3.
    split; [exists n; repeat split; try assumption; lia|].
    unfold spacing_ok. destruct vt; [| exact I | discriminate].
    destruct (min_spacing_of dflt ps) as [ms|]; [eauto | discriminate].
  - intros ((n & E & Hn & E1 & E4 & E2 & E3 & E7) & Hs). rewrite E, E1, E4, E7.
    apply Nat.eqb_neq in E2. apply Nat.eqb_eq in E3. rewrite E2, E3. simpl negb. cbv iota.
    assert (E5 : (n <=? 0)%Z = false) by (apply Z.leb_gt; lia).
    assert (E6 : (n =? 1)%Z = false) by (apply Z.eqb_neq; lia). rewrite E5, E6.
    unfold spacing_ok in Hs. destruct vt; [| |contradiction].
    + destruct Hs as (ms & ->). destruct (precision_total opts k ms) as (p & -> & _). reflexivity.
    + destruct (precision_total opts k dflt) as (p & -> & _). reflexivity.
Qed.

(** the whole call: completes exactly on the accepted designs whose stored parameters are [runnable_core] —
    the spacing no longer matters *)
Lemma simulate_ok_iff opts k dflt m d :
  simulate_outcome opts (Some k) dflt m d = Ok tt <->
  exists ps, construct d = Ok ps /\ runnable_core m (d_features d) ps.
Proof.
  unfold simulate_outcome. split.
  - destruct (construct d) as [ps| |] eqn:C; try discriminate.
    destruct (d_visit_type d) as [vt|] eqn:V; [|discriminate].
    intros H. apply run_ok_iff in H. exists ps. split; [reflexivity | apply H].
  - intros (ps & C & R). rewrite C.
    destruct (d_visit_type d) as [vt|] eqn:V.
    + apply run_ok_iff. split; [exact R | now apply (accepted_spacing_ok dflt d ps vt)].
    + unfold construct in C. rewrite V in C. discriminate.
Qed.
