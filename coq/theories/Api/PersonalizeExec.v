(** C17 — boolean checkers run by [vm_compute] on the implementation's recorded chains / scalings
    (harness/props/c17.py).  Definitions only. *)
From Coq Require Import String ZArith QArith Qabs List Bool.
From Leaspy Require Import Base.QAux Api.Personalize.
Import ListNotations.

Fixpoint list_eqb {A} (eqb : A -> A -> bool) (l1 l2 : list A) : bool :=
  match l1, l2 with
  | [], [] => true
  | a :: r1, b :: r2 => eqb a b && list_eqb eqb r1 r2
  | _, _ => false
  end.

Definition pair_nat_eqb (a b : nat * nat) : bool := Nat.eqb (fst a) (fst b) && Nat.eqb (snd a) (snd b).

(** |x - y| <= tol * (1 + |y|) *)
Definition Qclose (tol x y : Q) : bool := Qle_bool (Qabs (x - y)) (tol * (1 + Qabs y)).

(** a recorded chain: element k-1 of the list is the draw after iteration k *)
Definition cell_of (t : list Q * Q * Q) : cell := mkCell (fst (fst t)) (snd (fst t)) (snd t).
Definition chain_of (l : list (list (list Q * Q * Q))) : chain :=
  fun k => if (1 <=? k)%Z then map cell_of (nth (Z.to_nat (k - 1)) l []) else [].

Definition out_eqb (o1 o2 : list (string * list Q)) : bool :=
  list_eqb (fun a b => String.eqb (fst a) (fst b) && list_eqb Qeq_bool (snd a) (snd b)) o1 o2.

Definition out_close (tol : Q) (o1 o2 : list (string * list Q)) : bool :=
  list_eqb (fun a b => String.eqb (fst a) (fst b) && list_eqb (Qclose tol) (snd a) (snd b)) o1 o2.

Definition ids_of (l : list string) : list pid := map StrId l.

(** number of kept draws *)
Definition check_count (n nb : Z) (impl_kept : nat) : bool := Nat.eqb (length (kept_iterations n nb)) impl_kept.

(** the kept history of the implementation is exactly [history] of the recorded chain (values compared bit for bit) *)
Definition check_history (n nb : Z) (l : list (list (list Q * Q * Q))) (impl_hist : list (list (list Q))) : bool :=
  list_eqb (list_eqb (list_eqb Qeq_bool)) (map (map vals) (history (chain_of l) n nb)) impl_hist.

(** mode: exact *)
Definition check_mode (n nb : Z) (ids : list string) (l : list (list (list Q * Q * Q))) (impl : list (string * list Q)) : bool :=
  match personalize_mode (chain_of l) n nb (ids_of ids) with
  | Ok out => out_eqb out impl
  | Err _ => false
  end.

(** mode, lenient about float32 near-ties: the row of the implementation is a kept draw of that individual whose
    exact loss is within [tol] (relative) of the minimum *)
Definition row_is_near_min (tol : Q) (h : list draw) (i : nat) (row : list Q) : bool :=
  match column h i with
  | Ok col =>
      match argmin_first (map mode_loss col) with
      | Some b =>
          let m := mode_loss (nth b col (mkCell [] 0 0)) in
          existsb (fun c => list_eqb Qeq_bool (vals c) row && Qle_bool (mode_loss c) (m + tol * (1 + Qabs m))) col
      | None => false
      end
  | Err _ => false
  end.

Definition check_mode_lenient (tol : Q) (n nb : Z) (ids : list string) (l : list (list (list Q * Q * Q))) (impl : list (string * list Q)) : bool :=
  let h := history (chain_of l) n nb in
  list_eqb String.eqb ids (map fst impl) &&
  forallb (fun p => row_is_near_min tol h (fst p) (snd (snd p))) (combine (seq 0 (length impl)) impl).

(** mean: within float32 tolerance of the exact mean of the kept draws *)
Definition check_mean (tol : Q) (n nb : Z) (ids : list string) (dim : nat) (l : list (list (list Q * Q * Q))) (impl : list (string * list Q)) : bool :=
  match personalize_mean (chain_of l) n nb (ids_of ids) dim with
  | Ok out => out_close tol out impl
  | Err _ => false
  end.

(** no kept draw: the model returns EmptyHistory exactly when the implementation raised *)
Definition check_empty (n nb : Z) (ids : list string) (dim : nat) (l : list (list (list Q * Q * Q))) : bool :=
  match personalize_mode (chain_of l) n nb (ids_of ids), personalize_mean (chain_of l) n nb (ids_of ids) dim with
  | Err EmptyHistory, Err EmptyHistory => true
  | _, _ => false
  end.

(** _AffineScalings1D on exact (dyadic) inputs *)
Definition check_scalings (scal : list (list (Q * Q))) (z : list Q) (ips : list (list Q))
           (impl_slices : list (nat * nat)) (impl_len : nat)
           (impl_unscaled : list (list Q)) (impl_scaled : list Q) (impl_unstack : list (list Q)) (impl_stack : list Q) : bool :=
  let dims := dims_of Q scal in
  list_eqb pair_nat_eqb (slices dims) impl_slices && Nat.eqb (total dims) impl_len &&
  list_eqb (list_eqb Qeq_bool) (unscalingQ scal z) impl_unscaled &&
  list_eqb Qeq_bool (scalingQ scal ips) impl_scaled &&
  list_eqb (list_eqb Qeq_bool) (unstack dims z) impl_unstack &&
  list_eqb Qeq_bool (stack ips) impl_stack.
