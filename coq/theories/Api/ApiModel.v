(* C11 / C13 — public runs of leaspy as event scripts over (store of State objects, generator positions).

   Definitions only (proofs: ApiProofs.v, a concrete executable instance: ApiInst.v).

   What is mirrored (file:line of /repo/src/leaspy at the time of writing)
   * one `State` object                       variables/state.py           -> `st`  (slot n = cached value of variable n)
   * `State.__getitem__` (fills the cache)    variables/state.py:281       -> `sread`   (Section variable)
   * `State.__setitem__` / `put` / `revert`   variables/state.py:330,359,420 -> `swrite` (a revert is the assignment of the
                                               former value: that it is the right one is property C02, not shown here)
   * `State.clone` (deepcopy of `_values`)    variables/state.py:215       -> `sclone`, the copy lives in a NEW cell of the store
   * `State.save`                             variables/state.py:600       -> `Save` = reads of the tracked variables, nothing kept
   * `torch/numpy/random` global generators   algo/base.py:98              -> three tape positions `gpos`; `Seed g s` sets the
                                               position of generator g to a function of the seed alone
   * `model.state = s`                        models/stateful.py:119       -> `Replace`
   * `BaseAlgorithm.run`                      algo/base.py:119             -> `seed_all s ++ script`
   * MCMC-SAEM loop + output manager          algo/fit/mcmc_saem.py:88-106 -> `run_logged`: one event list per iteration,
                                               after iteration i the observer scripts `sched i` (fit_output_manager.py:77)
   * `deepcopy(settings.parameters)`          algo/base.py:92              -> `deep_copy` on a two-level heap of dictionaries

   The behaviour of a single `State` (what a read returns, how an assignment invalidates the cache) is NOT re-modelled here:
   it enters through the Section hypotheses of ApiProofs.v (`get_transparent`, `clone_isolated`, ...), the interface that the
   cache theorems of C01 provide. *)
From Coq Require Import List Arith Bool Lia ZArith.
Import ListNotations.

Inductive gen := GPy | GNp | GTorch.
Inductive ref := Cur | Loc (i : nat).
Inductive okind := KGet | KSet | KClone | KSave | KDraw (g : gen) | KSeed (g : gen) | KReplace.
(* an executed event: kind, state id, variable (0 when irrelevant; the new id for a clone; the seed for a seed) *)
Definition tev := (okind * nat * nat)%type.

Definition gpos := (nat * nat * nat)%type.
Definition pos_get (p : gpos) (g : gen) : nat :=
  match p, g with (a, _, _), GPy => a | (_, b, _), GNp => b | (_, _, c), GTorch => c end.
Definition pos_set (p : gpos) (g : gen) (v : nat) : gpos :=
  match p, g with (_, b, c), GPy => (v, b, c) | (a, _, c), GNp => (a, v, c) | (a, b, _), GTorch => (a, b, v) end.

Fixpoint upd {A} (l : list A) (k : nat) (x : A) : list A :=
  match l, k with
  | [], _ => []
  | _ :: t, O => x :: t
  | h :: t, S k' => h :: upd t k' x
  end.

Section Api.
  Variable V : Type.
  Definition st := list (option V).
  Definition store := list st.
  Definition regs := list (option V).

  Variable sread : st -> nat -> st * option V.
  Variable swrite : st -> nat -> option V -> st.
  Variable sclone : st -> st.
  Variable tracked : list nat.
  Variable tape : gen -> nat -> V.
  Variable seed_pos : gen -> nat -> nat.

  (* `ESet r n f`: the value assigned is a function of everything the caller has read / drawn so far;
     `ESetIf r n f`: a conditional assignment (`None` = it does not happen on this path);
     `EDraw g b`: a draw that happens when `b regs`. *)
  Inductive ev :=
  | EGet (r : ref) (n : nat)
  | ESet (r : ref) (n : nat) (f : regs -> option V)
  | ESetIf (r : ref) (n : nat) (f : regs -> option (option V))
  | EClone (r : ref)
  | ESave (r : ref)
  | EDraw (g : gen) (b : regs -> bool)
  | ESeed (g : gen) (s : nat)
  | EReplace (r : ref).

  Record cfg := Cfg { cS : store; cCur : nat; cPos : gpos; cRegs : regs; cLog : list tev }.

  Definition resolve (base : nat) (cur : nat) (r : ref) : nat :=
    match r with Cur => cur | Loc i => base + i end.

  Fixpoint sread_all (s : st) (ns : list nat) : st :=
    match ns with [] => s | n :: t => sread_all (fst (sread s n)) t end.

  (* `None` = the run aborts (a state that does not exist is addressed); nothing is totalised. *)
  Definition step (base : nat) (c : cfg) (e : ev) : option cfg :=
    match e with
    | EGet r n =>
        let k := resolve base (cCur c) r in
        match nth_error (cS c) k with
        | None => None
        | Some s => Some (Cfg (upd (cS c) k (fst (sread s n))) (cCur c) (cPos c)
                              (snd (sread s n) :: cRegs c) ((KGet, k, n) :: cLog c))
        end
    | ESet r n f =>
        let k := resolve base (cCur c) r in
        match nth_error (cS c) k with
        | None => None
        | Some s => Some (Cfg (upd (cS c) k (swrite s n (f (cRegs c)))) (cCur c) (cPos c) (cRegs c) ((KSet, k, n) :: cLog c))
        end
    | ESetIf r n f =>
        let k := resolve base (cCur c) r in
        match nth_error (cS c) k with
        | None => None
        | Some s =>
            match f (cRegs c) with
            | None => Some c
            | Some v => Some (Cfg (upd (cS c) k (swrite s n v)) (cCur c) (cPos c) (cRegs c) ((KSet, k, n) :: cLog c))
            end
        end
    | EClone r =>
        let k := resolve base (cCur c) r in
        match nth_error (cS c) k with
        | None => None
        | Some s => Some (Cfg (cS c ++ [sclone s]) (cCur c) (cPos c) (cRegs c) ((KClone, k, length (cS c)) :: cLog c))
        end
    | ESave r =>
        let k := resolve base (cCur c) r in
        match nth_error (cS c) k with
        | None => None
        | Some s => Some (Cfg (upd (cS c) k (sread_all s tracked)) (cCur c) (cPos c) (cRegs c) ((KSave, k, 0) :: cLog c))
        end
    | EDraw g b =>
        if b (cRegs c)
        then Some (Cfg (cS c) (cCur c) (pos_set (cPos c) g (S (pos_get (cPos c) g)))
                       (Some (tape g (pos_get (cPos c) g)) :: cRegs c) ((KDraw g, 0, 0) :: cLog c))
        else Some c
    | ESeed g s =>
        Some (Cfg (cS c) (cCur c) (pos_set (cPos c) g (seed_pos g s)) (cRegs c) ((KSeed g, 0, s) :: cLog c))
    | EReplace r =>
        let k := resolve base (cCur c) r in
        match nth_error (cS c) k with
        | None => None
        | Some _ => Some (Cfg (cS c) k (cPos c) (cRegs c) ((KReplace, k, 0) :: cLog c))
        end
    end.

  Fixpoint exec (base : nat) (evs : list ev) (c : cfg) : option cfg :=
    match evs with
    | [] => Some c
    | e :: t => match step base c e with None => None | Some c' => exec base t c' end
    end.

  (* ------------------------------------------------------------------ observers (logging) *)

  (* read-only in the sense of the property: reads and saves anywhere, clones, any operation on a state the observer
     created itself; no assignment to the model's state, no draw, no re-seeding, no replacement of the model's state *)
  Definition read_only_ev (e : ev) : bool :=
    match e with
    | EGet _ _ | EClone _ | ESave _ => true
    | ESet (Loc _) _ _ | ESetIf (Loc _) _ _ => true
    | ESet Cur _ _ | ESetIf Cur _ _ => false
    | EDraw _ _ | ESeed _ _ | EReplace _ => false
    end.
  Definition read_only (o : list ev) : bool := forallb read_only_ev o.

  (* an observer runs with its own registers (what it reads goes to the console / files, never to the algorithm);
     the states it created are unreachable afterwards (dropped); the algorithm's registers and log are restored *)
  Definition run_obs (o : list ev) (c : cfg) : option cfg :=
    match exec (length (cS c)) o (Cfg (cS c) (cCur c) (cPos c) [] (cLog c)) with
    | None => None
    | Some c' => Some (Cfg (firstn (length (cS c)) (cS c')) (cCur c') (cPos c') (cRegs c) (cLog c))
    end.

  Fixpoint run_observers (os : list (list ev)) (c : cfg) : option cfg :=
    match os with
    | [] => Some c
    | o :: t => match run_obs o c with None => None | Some c' => run_observers t c' end
    end.

  (* iterations i, i+1, ...: iteration script, then the observers attached to that iteration *)
  Fixpoint run_logged (base : nat) (sched : nat -> list (list ev)) (i : nat) (iters : list (list ev)) (c : cfg) : option cfg :=
    match iters with
    | [] => Some c
    | it :: rest =>
        match exec base it c with
        | None => None
        | Some c1 => match run_observers (sched i) c1 with
                     | None => None
                     | Some c2 => run_logged base sched (S i) rest c2
                     end
        end
    end.

  Definition no_observers : nat -> list (list ev) := fun _ => [].

  (* algo/base.py:98 — python, numpy and torch are all re-seeded *)
  Definition seed_all (s : nat) : list ev := [ESeed GPy s; ESeed GNp s; ESeed GTorch s].

  (* BaseAlgorithm.run for the fit: seeds; initialisation; logged iterations; finalisation *)
  Definition fit_run (base seed : nat) (init : list ev) (iters : list (list ev)) (fin : list ev)
             (sched : nat -> list (list ev)) (c : cfg) : option cfg :=
    match exec base (seed_all seed ++ init) c with
    | None => None
    | Some c1 => match run_logged base sched 1 iters c1 with
                 | None => None
                 | Some c2 => exec base fin c2
                 end
    end.

  (* a public call on a model object whose state is `s`: only `model.state` is reachable, locals start empty *)
  Definition api_call (script : list ev) (s : st) (p : gpos) : option cfg :=
    exec 1 script (Cfg [s] 0 p [] []).
  Definition model_state (c : cfg) : option st := nth_error (cS c) (cCur c).

  (* ------------------------------------------------------------------ frame conditions on scripts *)

  (* the model's state is not touched at all: every operation other than `Clone` addresses a local state *)
  Definition untouched_ev (e : ev) : bool :=
    match e with
    | EClone _ => true
    | EGet (Loc _) _ | ESet (Loc _) _ _ | ESetIf (Loc _) _ _ | ESave (Loc _) => true
    | EDraw _ _ | ESeed _ _ => true
    | _ => false
    end.

  (* assignments to the model's state only concern variables in W; the model's state is never replaced *)
  Definition writes_in (W : nat -> bool) (e : ev) : bool :=
    match e with
    | ESet Cur n _ | ESetIf Cur n _ => W n
    | EReplace _ => false
    | _ => true
    end.

  (* ------------------------------------------------------------------ information flow (history independence) *)

  Variable anc : nat -> list nat.   (* independent variables a read of n depends on (n itself when independent) *)

  Definition view := nat -> bool.   (* variables of one state on which two histories are known to agree *)
  Definition vadd (n : nat) (v : view) : view := fun m => (m =? n) || v m.

  (* one step of the flow check: every read must be determined by the agreed variables of the state it addresses.
     `None` = a read that is not determined.  An event that addresses a state that does not exist aborts both
     histories alike, the check lets it pass. *)
  Definition flow (base : nat) (fs : list view * nat) (e : ev) : option (list view * nat) :=
    let (vs, cur) := fs in
    match e with
    | EGet r n =>
        match nth_error vs (resolve base cur r) with
        | None => Some fs
        | Some v => if forallb v (anc n) then Some fs else None
        end
    | ESet r n _ =>
        match nth_error vs (resolve base cur r) with
        | None => Some fs
        | Some v => Some (upd vs (resolve base cur r) (vadd n v), cur)
        end
    | EClone r =>
        match nth_error vs (resolve base cur r) with
        | None => Some fs
        | Some v => Some (vs ++ [v], cur)
        end
    | ESetIf _ _ _ | ESave _ | EDraw _ _ | ESeed _ _ => Some fs
    | EReplace r => match nth_error vs (resolve base cur r) with None => Some fs | Some _ => Some (vs, resolve base cur r) end
    end.

  Fixpoint flow_all (base : nat) (fs : list view * nat) (evs : list ev) : option (list view * nat) :=
    match evs with
    | [] => Some fs
    | e :: t => match flow base fs e with None => None | Some fs' => flow_all base fs' t end
    end.

  (* ------------------------------------------------------------------ the public calls as scripts (C13) *)

  Definition konst (v : option V) : regs -> option V := fun _ => v.

  (* models/mcmc_saem_compatible.py:317  compute_individual_trajectory:
     clone(disable_auto_fork) ; t := timepoints ; each individual parameter := given value ; read "model" on the clone *)
  Definition estimate_script (tvar modelvar : nat) (tin : option V) (ips : list (nat * option V)) : list ev :=
    [EClone Cur; ESet (Loc 0) tvar (konst tin)]
      ++ map (fun nv => ESet (Loc 0) (fst nv) (konst (snd nv))) ips
      ++ [EGet (Loc 0) modelvar].

  (* algo/personalize/mcmc.py:168  _terminate_algo: clone; data variables := None; individual variables := None; replace *)
  Definition terminate_script (l : nat) (dvars ivars : list nat) : list ev :=
    EClone Cur :: map (fun n => ESet (Loc l) n (konst None)) (dvars ++ ivars) ++ [EReplace (Loc l)].

  (* algo/personalize/mcmc.py:119  _initialize_algo on the MODEL'S OWN state: data := dataset; individual := prior mode
     (a function of what was just read);  then any sampler activity `body`;  then _terminate_algo *)
  Definition mcmc_script (data : list (nat * option V)) (init_ind : list (nat * (regs -> option V)))
             (body : list ev) (dvars ivars : list nat) : list ev :=
    map (fun nv => ESet Cur (fst nv) (konst (snd nv))) data
      ++ map (fun nf => ESet Cur (fst nf) (snd nf)) init_ind
      ++ body
      ++ terminate_script 0 dvars ivars.

  (* algo/personalize/scipy_minimize.py:619-624 + 474 for ONE individual: clone; data := this individual's data;
     put_individual_parameters: only `if not state.are_variables_set(("xi","tau"))` are prior samples drawn and assigned;
     the start point is then READ from the clone; the optimiser (an oracle `opt` of start point and data) gives the result,
     modelled as one assignment + read of a result slot `res` on the clone *)
  Definition is_unset (r : regs) : bool := match r with None :: _ => true | _ => false end.
  Definition scipy_script (data : list (nat * option V)) (xi res : nat) (ivars : list nat)
             (opt : regs -> option V) : list ev :=
    EClone Cur
      :: map (fun nv => ESet (Loc 0) (fst nv) (konst (snd nv))) data
      ++ [EGet (Loc 0) xi; EDraw GTorch is_unset]
      ++ map (fun n => ESetIf (Loc 0) n (fun r => match r with
                                              | Some d :: None :: _ => Some (Some d)   (* drawn because xi was unset *)
                                              | _ => None                               (* already set: left as found *)
                                              end)) ivars
      ++ map (fun n => EGet (Loc 0) n) ivars
      ++ [ESet (Loc 0) res opt; EGet (Loc 0) res].

End Api.

Arguments EGet {V}. Arguments ESet {V}. Arguments ESetIf {V}. Arguments EClone {V}. Arguments ESave {V}. Arguments EDraw {V}.
Arguments ESeed {V}. Arguments EReplace {V}.
Arguments Cfg {V}. Arguments cS {V}. Arguments cCur {V}. Arguments cPos {V}. Arguments cRegs {V}. Arguments cLog {V}.

(* ---------------------------------------------------------------------- the interface of one `State` object
   `simOn P s s'`: s and s' are well-formed caches that agree on the independent variables in P.
   These are the facts about `variables/state.py` that the theorems of Props/C11.v and Props/C13.v rest on; they stay
   visible in every statement.  ApiInst.v proves them for a concrete memo table (non-vacuity); for the real `State`
   they are what the cache theorems of C01 establish. *)
Section Interface.
  Variable V : Type.
  Variable sread : st V -> nat -> st V * option V.
  Variable swrite : st V -> nat -> option V -> st V.
  Variable sclone : st V -> st V.
  Variable anc : nat -> list nat.
  Variable indep : nat -> bool.
  Variable simOn : view -> st V -> st V -> Prop.

  Record state_interface : Prop := {
    sim_sym : forall P s s', simOn P s s' -> simOn P s' s;
    sim_trans : forall P s1 s2 s3, simOn P s1 s2 -> simOn P s2 s3 -> simOn P s1 s3;
    sim_mono : forall (P Q : view) s s', (forall m, Q m = true -> P m = true) -> simOn P s s' -> simOn Q s s';
    (* a read changes nothing observable (it only fills the cache) *)
    get_transparent : forall P s n, simOn P s s -> simOn P (fst (sread s n)) s;
    (* a read returns a function of the independent ancestors only *)
    get_determined : forall P s s' n, simOn P s s' -> forallb P (anc n) = true -> snd (sread s n) = snd (sread s' n);
    (* after assigning the same value to n, states that agreed on P agree on P + n *)
    set_agree : forall P s s' n v, simOn P s s' -> simOn (vadd n P) (swrite s n v) (swrite s' n v);
    (* assigning n changes nothing outside n *)
    set_frame : forall (P : view) s n v, simOn P s s -> P n = false -> simOn P (swrite s n v) s;
    (* an independent variable reads as what was last assigned to it *)
    set_get : forall P s n v, simOn P s s -> indep n = true -> snd (sread (swrite s n v) n) = v;
    (* a clone reads like the original; it lives in another cell of the store, so nothing done to it reaches the original *)
    clone_isolated : forall P s, simOn P s s -> simOn P (sclone s) s;
    anc_indep : forall n, indep n = true -> anc n = [n]
  }.

  Definition top : view := fun _ => true.
  Definition wf_cfg (c : cfg V) : Prop := forall k s, nth_error (cS c) k = Some s -> simOn top s s.

  (* "the same results": every read of every state, the model's state pointer, the generator positions, everything the
     caller has read or drawn (registers) and the sequence of operations performed (log) coincide *)
  Definition same_results (c c' : cfg V) : Prop :=
    length (cS c) = length (cS c') /\
    (forall k s s' n, nth_error (cS c) k = Some s -> nth_error (cS c') k = Some s' -> snd (sread s n) = snd (sread s' n)) /\
    cCur c = cCur c' /\ cPos c = cPos c' /\ cRegs c = cRegs c' /\ cLog c = cLog c'.
End Interface.

(* ---------------------------------------------------------------------- settings: deepcopy on a heap of dictionaries
   `AlgorithmSettings.parameters` is a dictionary whose values are atoms or nested dictionaries of atoms
   (`annealing`, `sampler_ind_params`, ...).  Objects live in a heap; a dictionary value is an atom or the address
   of a nested dictionary.  `deep_copy` allocates new cells for the top dictionary and for every nested one;
   `shallow_copy` (= `dict(d)`) and `alias` (= no copy) are the two wrong variants. *)
Section Settings.
  Definition key := nat.
  Inductive dval := Atom (z : Z) | Sub (a : nat).
  Definition dict := list (key * dval).
  Definition heap := list dict.

  Fixpoint copy_entries (h : heap) (d : dict) : heap * dict :=
    match d with
    | [] => (h, [])
    | (k, Atom z) :: t => let (h', t') := copy_entries h t in (h', (k, Atom z) :: t')
    | (k, Sub a) :: t =>
        let h1 := h ++ [nth a h []] in
        let (h', t') := copy_entries h1 t in (h', (k, Sub (length h)) :: t')
    end.

  (* deepcopy of the dictionary at address a: returns the new heap and the address of the copy *)
  Definition deep_copy (h : heap) (a : nat) : heap * nat :=
    let (h', d') := copy_entries h (nth a h []) in (h' ++ [d'], length h').
  Definition shallow_copy (h : heap) (a : nat) : heap * nat := (h ++ [nth a h []], length h).
  Definition alias (h : heap) (a : nat) : heap * nat := (h, a).

  Fixpoint dset (d : dict) (k : key) (v : dval) : dict :=
    match d with
    | [] => [(k, v)]
    | (k', v') :: t => if Nat.eqb k k' then (k, v) :: t else (k', v') :: dset t k v
    end.
  Fixpoint dget (d : dict) (k : key) : option dval :=
    match d with [] => None | (k', v) :: t => if Nat.eqb k k' then Some v else dget t k end.

  (* what an algorithm does with ITS parameters (dictionary at address a):
     `algo_parameters[k] = z`  or  `algo_parameters[k1][k2] = z` *)
  Inductive pwrite := WTop (k : key) (z : Z) | WSub (k1 k2 : key) (z : Z).

  Definition do_write (a : nat) (h : heap) (w : pwrite) : heap :=
    match w with
    | WTop k z => upd h a (dset (nth a h []) k (Atom z))
    | WSub k1 k2 z =>
        match dget (nth a h []) k1 with
        | Some (Sub b) => upd h b (dset (nth b h []) k2 (Atom z))
        | _ => h
        end
    end.
  Definition do_writes (a : nat) (h : heap) (ws : list pwrite) : heap := fold_left (do_write a) ws h.

  (* the caller's view of a settings dictionary: nested dictionaries resolved *)
  Definition vval := (Z + list (key * dval))%type.
  Definition view_dict (h : heap) (a : nat) : list (key * vval) :=
    map (fun kv => (fst kv, match snd kv with Atom z => inl z | Sub b => inr (nth b h []) end)) (nth a h []).

  (* nested dictionaries hold atoms only and all addresses are allocated (what the default settings files give) *)
  Definition flat (d : dict) : Prop := forall k v, In (k, v) d -> exists z, v = Atom z.
  Definition settings_ok (h : heap) (a : nat) : Prop :=
    a < length h /\ forall k b, In (k, Sub b) (nth a h []) -> b < length h /\ b <> a /\ flat (nth b h []).
End Settings.
