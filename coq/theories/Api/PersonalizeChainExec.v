(** C17 — executing the composed model (PersonalizeChain.v) inside Coq on a recorded personalisation (harness/props/c17.py).
    Definitions only.  The model is run on the carrier Q from the recorded initial point, on the recorded tape (every normal
    and every uniform torch drew, the permutations random.shuffle left); its three oracles — attachment, per-variable
    regularity, summed regularity as FUNCTIONS OF THE STATE — are finite tables of the values the implementation's state
    gives (recomputed from scratch) on every state the run visits, looked up by closeness of the state; the decision
    oracle is the table (uniform draw -> decision the code took).  That those decisions are `u < exp(-D)` is checked by
    interval lemmas on the same recorded values (the R-valued statement is decideQR_iff). *)
From Coq Require Import String ZArith QArith Qabs List Bool Arith.
From Leaspy Require Import Base.QAux Sampler.SamplerModel Saem.Anneal Sampler.AdaptiveStd Api.Personalize Api.PersonalizeExec
     Api.PersonalizeChain.
Import ListNotations.

(** lazy conjunction (vm_compute is strict in function arguments) *)
Notation "a &&& b" := (if a then b else false) (at level 40, left associativity).

Definition qclose (tol x y : Q) : bool := Qle_bool (Qabs (x - y)) (tol * (1 + Qabs y)).

Fixpoint all2 {X Y} (f : X -> Y -> bool) (l : list X) (m : list Y) : bool :=
  match l, m with
  | [], [] => true
  | a :: l', b :: m' => f a b &&& all2 f l' m'
  | _, _ => false
  end.

Fixpoint tclose_lazy (tol : Q) (a b : tens Q) : bool :=
  match a, b with
  | Sc x, Sc y => qclose tol x y
  | Nd l, Nd m =>
      (fix go (l m : list (tens Q)) : bool :=
         match l, m with
         | [], [] => true
         | x :: l', y :: m' => tclose_lazy tol x y &&& go l' m'
         | _, _ => false
         end) l m
  | _, _ => false
  end.

Definition state_close (tol : Q) (s t : list (tens Q)) : bool := all2 (tclose_lazy tol) s t.

(** one line of the oracle table: a visited state and what the implementation's State gives on it *)
Record oracle_row := mkRow {
  or_state : list (tens Q);
  or_att : list Q;                 (* nll_attach_ind *)
  or_regv : list (list Q);         (* nll_regul_<v>_ind, one list per variable (sorted-name order) *)
  or_regsum : list Q }.            (* nll_regul_ind_sum_ind *)

Fixpoint lookup (tol : Q) (tbl : list oracle_row) (st : list (tens Q)) : option oracle_row :=
  match tbl with
  | [] => None
  | r :: rest => if state_close tol (or_state r) st then Some r else lookup tol rest st
  end.

(** a state that is not in the table reads as the empty vector: the step then fails on the shape test (never silently) *)
Definition att_of tol tbl st := match lookup tol tbl st with Some r => or_att r | None => [] end.
Definition regv_of tol tbl (v : nat) st := match lookup tol tbl st with Some r => nth v (or_regv r) [] | None => [] end.
Definition regsum_of tol tbl st := match lookup tol tbl st with Some r => or_regsum r | None => [] end.

Fixpoint lookup_dec (tbl : list (Q * bool)) (u : Q) : bool :=
  match tbl with
  | [] => false
  | (x, b) :: rest => if Qeq_bool x u then b else lookup_dec rest u
  end.
Definition decide_of (tbl : list (Q * bool)) (u pa na pr nr tinv : Q) : bool := lookup_dec tbl u.

Definition radd (a b : Q) : Q := Qred (a + b).
Definition rmul (a b : Q) : Q := Qred (a * b).

Record chain_case := mkCase {
  (* configuration *)
  cc_scf : scfg; cc_acf : Anneal.cfg; cc_nb : Z; cc_random : bool; cc_ids : list string; cc_dim : nat;
  (* inputs: initial point, sampler scales, tape, shuffles *)
  cc_init : list (tens Q); cc_scales : list Q; cc_normals : list Q; cc_uniforms : list Q; cc_orders : list (list nat);
  (* oracles *)
  cc_table : list oracle_row; cc_dec : list (Q * bool);
  (* what the implementation did *)
  cc_steps : list (nat * list bool * list (tens Q));    (* every sampler call: variable, decisions, state after the call *)
  cc_tinv : list Q;                                     (* temperature_inv handed to the samplers, one per iteration *)
  cc_hist : list (list (list Q * Q * Q));               (* the three histories handed to the estimator, zipped *)
  cc_std_end : list (list Q);                           (* std of every sampler at the end *)
  cc_mode : bool;                                       (* mode_posterior (else mean_posterior) *)
  cc_result : list (string * list Q) }.                 (* what personalize returned *)

Definition run_case (tol : Q) (c : chain_case) :=
  personalize_run Q radd rmul (fun q => q) (decide_of (cc_dec c))
    (att_of tol (cc_table c)) (regv_of tol (cc_table c)) (regsum_of tol (cc_table c))
    (cc_scf c) (cc_acf c) (cc_nb c) (cc_random c) (length (cc_ids c))
    (cc_orders c) (cc_init c) (cc_scales c) (Build_tape (cc_normals c) (cc_uniforms c)).

Definition bools_eqb (a b : list bool) : bool := all2 Bool.eqb a b.

Definition step_matches (tol : Q) (r : step_rec Q) (impl : nat * list bool * list (tens Q)) : bool :=
  Nat.eqb (sr_var r) (fst (fst impl)) &&& bools_eqb (sr_acc r) (snd (fst impl)) &&& state_close tol (sr_after r) (snd impl).

Definition cell_close (tol : Q) (a b : list Q * Q * Q) : bool :=
  all2 (qclose tol) (fst (fst a)) (fst (fst b)) &&& qclose tol (snd (fst a)) (snd (fst b)) &&& qclose tol (snd a) (snd b).

(** the impl row is (close to) the values of a kept draw of that individual whose loss is within [tol] of the minimum *)
Definition mode_row_ok (tol : Q) (h : list draw) (i : nat) (row : list Q) : bool :=
  match Personalize.column h i with
  | Personalize.Ok col =>
      match argmin_first (map mode_loss col) with
      | Some b =>
          let m := mode_loss (nth b col (mkCell [] 0 0)) in
          existsb (fun cl => all2 (qclose tol) (vals cl) row &&& Qle_bool (mode_loss cl) (m + tol * (1 + Qabs m))) col
      | None => false
      end
  | Personalize.Err _ => false
  end.

Definition result_ok (tol : Q) (c : chain_case) (o : run_out Q) : bool :=
  let n := Z.of_nat (length (cc_orders c)) in
  let ch := chain_q (o_all o) in
  if cc_mode c then
    match personalize_mode ch n (cc_nb c) (ids_of (cc_ids c)) with
    | Personalize.Ok out =>
        all2 String.eqb (map fst out) (map fst (cc_result c)) &&&
        forallb (fun p => mode_row_ok tol (history ch n (cc_nb c)) (fst p) (snd (snd p)))
                (combine (seq 0 (length (cc_result c))) (cc_result c))
    | Personalize.Err _ => false
    end
  else
    match personalize_mean ch n (cc_nb c) (ids_of (cc_ids c)) (cc_dim c) with
    | Personalize.Ok out => all2 (fun a b => String.eqb (fst a) (fst b) &&& all2 (qclose tol) (snd a) (snd b)) out (cc_result c)
    | Personalize.Err _ => false
    end.

(** 0 = agreement; any other number names the first comparison that failed *)
Definition check_chain_code (tol : Q) (c : chain_case) : nat :=
  match run_case tol c with
  | Failed StepFailed => 1
  | Failed UnknownVariable => 2
  | Failed (AnnealError _) => 3
  | Failed (SamplerError _) => 4
  | Done o =>
      if negb (all2 (step_matches tol) (concat (map snd (o_trace o))) (cc_steps c)) then 5
      else if negb (all2 (fun kl t => forallb (fun r => qclose (1 # 1000000000) (sr_tinv r) t) (snd kl)) (o_trace o) (cc_tinv c)) then 6
      else if negb (all2 (all2 (cell_close tol)) (o_hist o) (cc_hist c)) then 7
      else if negb (match normals (r_tape (o_rs o)), uniforms (r_tape (o_rs o)) with [], [] => true | _, _ => false end) then 8
      else if negb (all2 (fun s e => all2 (qclose tol) (std s) e) (r_samp (o_rs o)) (cc_std_end c)) then 9
      else if negb (result_ok tol c o) then 10
      else 0
  end.

Definition check_chain (tol : Q) (c : chain_case) : bool := Nat.eqb (check_chain_code tol c) 0.
