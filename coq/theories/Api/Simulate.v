(** C18 — model of leaspy/algo/simulate/simulate.py (SimulationAlgorithm) and simulate/base.py::_run.
    Definitions only; proofs are in SimulateProofs.v, the tie to the regenerated definitions
    (gen/GenC18.v) in SimulateTie.v.

    Part A: the constructor ([__init__] -> [_set_param_study] -> [_validate_algo_parameters]) as a
            decision function over a design made of abstract Python values, and the crash conditions
            of [_run] on an accepted design.
    Part B: the post-processing of [_generate_dataset] / [_generate_visit_ages] on lists over Q and Z. *)
From Coq Require Import ZArith QArith Qround Qabs Bool List String Ascii Lia DecimalString DecimalNat.
From Leaspy Require Import Base.QAux.
Import ListNotations.

(* ------------------------------------------------------------------------------------------ *)
(** * Part A — designs, validation, outcome of a run *)

(** Python values that can sit in [visit_parameters] (finite numbers only; NaN/inf are outside the model). *)
Inductive idv := IdStr (s : string) | IdInt (z : Z) | IdNull.

(** a visit table: which of the two columns exist, and its rows (ID, TIME; [None] = null TIME) *)
Record frame := { has_id : bool; has_time : bool; rows : list (idv * option Q) }.

Inductive pyval :=
| VInt (z : Z) | VBool (b : bool) | VFloat (q : Q) | VStr | VNone | VFrame (f : frame).

Inductive tyclass := TInt | TNum | TFrame.      (** [int], [(int, float)], [pd.DataFrame] *)
Inductive cmpop := Le0 | Lt0.                   (** [value <= 0], [value < 0] *)

(** [Refuse] = LeaspyAlgoInputError; [Crash] = any other exception (KeyError, TypeError, ValueError, ...) *)
Inductive outcome (A : Type) := Ok (a : A) | Refuse | Crash.
Arguments Ok {A} a. Arguments Refuse {A}. Arguments Crash {A}.

Definition num_of (v : pyval) : option Q :=
  match v with
  | VInt z => Some (inject_Z z)
  | VBool b => Some (if b then 1 else 0)
  | VFloat q => Some q
  | _ => None
  end.

(** [isinstance(value, t)]: a Python bool is an int *)
Definition isinst (t : tyclass) (v : pyval) : bool :=
  match t, v with
  | TInt, (VInt _ | VBool _) => true
  | TNum, (VInt _ | VBool _ | VFloat _) => true
  | TFrame, VFrame _ => true
  | _, _ => false
  end.

(** [value <= 0] / [value < 0]; [None] = the comparison itself raises (str, None: TypeError;
    a DataFrame: element-wise result whose truth value raises ValueError) *)
Definition cmp0 (op : cmpop) (v : pyval) : option bool :=
  match num_of v with
  | None => None
  | Some q => Some (match op with Le0 => Qle_bool q 0 | Lt0 => Qlt_bool q 0 end)
  end.

Definition dict := list (string * pyval).
Fixpoint lookup (k : string) (d : dict) : option pyval :=
  match d with
  | [] => None
  | (k', v) :: r => if String.eqb k k' then Some v else lookup k r
  end.

(** ** [_check_params] as a small guarded-effect program per requirement row.
    The rows are regenerated from the source (GenC18.gen_rows_random, gen_rows_frame), the interpreter below is the
    hand-written semantics of the Python constructs involved. *)
Inductive atom :=
| AMissing                (** [param not in self.param_study] *)
| APresent                (** ["k" in self.param_study] *)
| ANotInst (t : tyclass)  (** [not isinstance(value, t)] *)
| ACmp (op : cmpop).      (** [value <= 0] / [value < 0] *)
Inductive effect := EMissing | EType | EValue | EContinue.
Definition stmt := (list atom * effect)%type.     (** guard (short-circuit conjunction), effect *)
Definition row := (string * list stmt)%type.

Record flags := { f_missing : bool; f_type : bool; f_value : bool }.
Definition no_flags := {| f_missing := false; f_type := false; f_value := false |}.
Definition any_flag (f : flags) := f_missing f || f_type f || f_value f.

Definition eval_atom (v : option pyval) (a : atom) : option bool :=
  match a, v with
  | AMissing, None => Some true
  | AMissing, Some _ => Some false
  | APresent, None => Some false
  | APresent, Some _ => Some true
  | ANotInst t, Some x => Some (negb (isinst t x))
  | ACmp op, Some x => cmp0 op x
  | ANotInst _, None => None       (** [value] unbound: would be a NameError/KeyError *)
  | ACmp _, None => None
  end.

Fixpoint eval_guard (v : option pyval) (g : list atom) : option bool :=
  match g with
  | [] => Some true
  | a :: r => match eval_atom v a with
              | None => None
              | Some false => Some false
              | Some true => eval_guard v r
              end
  end.

Definition apply_effect (e : effect) (f : flags) : flags :=
  match e with
  | EMissing => {| f_missing := true; f_type := f_type f; f_value := f_value f |}
  | EType => {| f_missing := f_missing f; f_type := true; f_value := f_value f |}
  | EValue => {| f_missing := f_missing f; f_type := f_type f; f_value := true |}
  | EContinue => f
  end.

Fixpoint exec_stmts (v : option pyval) (ss : list stmt) (f : flags) : option flags :=
  match ss with
  | [] => Some f
  | (g, e) :: r =>
      match eval_guard v g with
      | None => None
      | Some false => exec_stmts v r f
      | Some true => match e with EContinue => Some f | _ => exec_stmts v r (apply_effect e f) end
      end
  end.

Fixpoint exec_rows (d : dict) (rs : list row) (f : flags) : option flags :=
  match rs with
  | [] => Some f
  | (k, ss) :: r => match exec_stmts (lookup k d) ss f with
                    | None => None
                    | Some f' => exec_rows d r f'
                    end
  end.

(** [_check_params]: the three error lists are only tested for emptiness at the end *)
Definition check_params (d : dict) (rs : list row) : outcome unit :=
  match exec_rows d rs no_flags with
  | None => Crash
  | Some f => if any_flag f then Refuse else Ok tt
  end.

(** the rows as the code has them today (tie: SimulateTie.tie_rows) *)
Definition row_int_positive (k : string) : row :=
  (k, [([AMissing], EMissing); ([AMissing], EContinue); ([ANotInst TInt], EType); ([ACmp Le0], EValue)]).
Definition row_num (k : string) : row :=
  (k, [([AMissing], EMissing); ([AMissing], EContinue); ([ANotInst TNum], EType)]).
Definition row_std (k : string) : row :=
  (k, [([AMissing], EMissing); ([AMissing], EContinue); ([ANotInst TNum], EType); ([ACmp Lt0], EValue)]).
Definition row_frame (k : string) : row :=
  (k, [([AMissing], EMissing); ([AMissing], EContinue); ([ANotInst TFrame], EType)]).
Definition row_spacing : row :=
  ("min_spacing_between_visits"%string,
   [([APresent; ANotInst TNum], EType); ([APresent; ACmp Lt0], EValue)]).

Definition random_rows : list row :=
  [ row_int_positive "patient_number"; row_num "first_visit_mean"; row_std "first_visit_std";
    row_num "time_follow_up_mean"; row_std "time_follow_up_std";
    row_num "distance_visit_mean"; row_std "distance_visit_std"; row_spacing ]%string.
Definition frame_rows : list row := [ row_frame "df_visits"; row_spacing ]%string.

(** ** [_set_param_study]: keys copied from the user's dict (KeyError when absent), optional keys *)
Definition random_required : list string :=
  [ "patient_number"; "first_visit_mean"; "first_visit_std"; "time_follow_up_mean"; "time_follow_up_std";
    "distance_visit_mean"; "distance_visit_std" ]%string.
Definition random_optional : list string := [ "min_spacing_between_visits" ]%string.

Fixpoint copy_required (ks : list string) (d : dict) : option dict :=
  match ks with
  | [] => Some []
  | k :: r => match lookup k d, copy_required r d with
              | Some v, Some ps => Some ((k, v) :: ps)
              | _, _ => None
              end
  end.
Fixpoint copy_optional (ks : list string) (d : dict) : dict :=
  match ks with
  | [] => []
  | k :: r => match lookup k d with Some v => (k, v) :: copy_optional r d | None => copy_optional r d end
  end.

Definition idv_eqb (a b : idv) : bool :=
  match a, b with
  | IdStr s, IdStr t => String.eqb s t
  | IdInt x, IdInt y => Z.eqb x y
  | IdNull, IdNull => true
  | _, _ => false
  end.
Definition is_null (a : idv) := match a with IdNull => true | _ => false end.
Fixpoint memb {A} (eqb : A -> A -> bool) (x : A) (l : list A) : bool :=
  match l with [] => false | y :: r => eqb x y || memb eqb x r end.
(** first-appearance order, as [Series.unique()] *)
Fixpoint uniq {A} (eqb : A -> A -> bool) (l : list A) : list A :=
  match l with
  | [] => []
  | x :: r => x :: filter (fun y => negb (eqb y x)) (uniq eqb r)
  end.
(** number of groups of [groupby("ID")] (null IDs are dropped by pandas) *)
Definition n_groups (f : frame) : nat :=
  List.length (uniq idv_eqb (filter (fun i => negb (is_null i)) (map fst (rows f)))).

Inductive vtype := VtRandom | VtDataframe | VtOther.

(** [None] = an exception other than LeaspyAlgoInputError (KeyError / AttributeError) *)
Definition set_param_study (vt : vtype) (d : dict) : option dict :=
  match vt with
  | VtRandom => match copy_required random_required d with
                | Some ps => Some (ps ++ copy_optional random_optional d)
                | None => None
                end
  | VtDataframe => match lookup "df_visits" d with
                   | Some (VFrame f) =>
                       if has_id f then Some [("patient_number", VInt (Z.of_nat (n_groups f))); ("df_visits", VFrame f)]%string
                       else None                      (** groupby("ID"): KeyError *)
                   | Some _ => None                   (** no attribute groupby *)
                   | None => None                     (** KeyError 'df_visits' *)
                   end
  | VtOther => Some []
  end.

(** ** [_check_features] *)
Inductive featv := FStr (s : string) | FOther.
Inductive featsv := FsNotList | FsList (l : list featv).

Definition is_ws (c : ascii) : bool :=
  let n := nat_of_ascii c in ((9 <=? n) && (n <=? 13) || (28 <=? n) && (n <=? 32))%nat.
Fixpoint blank (s : string) : bool :=
  match s with EmptyString => true | String c r => is_ws c && blank r end.
Definition feat_ok (x : featv) : bool := match x with FStr s => negb (blank s) | FOther => false end.
Definition check_features (f : featsv) : outcome unit :=
  match f with
  | FsNotList => Refuse
  | FsList [] => Refuse
  | FsList l => if forallb feat_ok l then Ok tt else Refuse
  end.

(** ** the constructor *)
Record design := { d_features : featsv; d_visit_type : option vtype; d_params : dict }.

Definition frame_checks (ps : dict) : outcome unit :=
  match lookup "df_visits" ps with
  | Some (VFrame f) =>
      if negb (has_id f) || negb (has_time f) then Refuse
      else if existsb (fun r => match snd r with None => true | Some _ => false end) (rows f) then Refuse
      else Ok tt
  | _ => Crash
  end.

(** [if mean <= 0 and std <= 0: raise]: a short-circuit conjunction of sign tests on stored parameters *)
Fixpoint all_cmp (cs : list (string * cmpop)) (ps : dict) : option bool :=
  match cs with
  | [] => Some true
  | (k, op) :: r => match lookup k ps with
                    | None => None
                    | Some v => match cmp0 op v with
                                | None => None
                                | Some false => Some false
                                | Some true => all_cmp r ps
                                end
                    end
  end.
Definition random_final : list (string * cmpop) :=
  [ ("distance_visit_mean", Le0); ("distance_visit_std", Le0) ]%string.
Definition random_checks (ps : dict) : outcome unit :=
  match all_cmp random_final ps with
  | None => Crash
  | Some true => Refuse
  | Some false => Ok tt
  end.

Definition validate (vt : vtype) (feats : featsv) (ps : dict) : outcome unit :=
  match check_features feats with
  | Refuse => Refuse
  | Crash => Crash
  | Ok _ =>
      match vt with
      | VtOther => Refuse                             (** no requirements for this visit type *)
      | VtRandom => match check_params ps random_rows with
                    | Ok _ => random_checks ps
                    | o => o
                    end
      | VtDataframe => match check_params ps frame_rows with
                       | Ok _ => frame_checks ps
                       | o => o
                       end
      end
  end.

(** [SimulationAlgorithm.__init__]: returns the stored [param_study] when the design is accepted *)
Definition construct (d : design) : outcome dict :=
  match d_visit_type d with
  | None => Crash                                     (** KeyError 'visit_type' *)
  | Some vt =>
      match set_param_study vt (d_params d) with
      | None => Crash
      | Some ps => match validate vt (d_features d) ps with
                   | Ok _ => Ok ps
                   | Refuse => Refuse
                   | Crash => Crash
                   end
      end
  end.

(** ** rounding precision ([_generate_dataset]):
    [rounding_precision = <init>; for precision, val in sorted(rounding_options.items()): if val <= min_spacing: rounding_precision = precision; break].
    [init] is the value the variable holds before the loop — today [max(rounding_options)], the finest option ([max_key];
    [min_key] is the reading of [min(...)], which the translator also understands);
    [None] = no integer ([max] of an empty dict raises; a [None] there makes [Series.round(None)] raise). *)
Fixpoint max_key (opts : list (Z * Q)) : option Z :=
  match opts with
  | [] => None
  | (p, _) :: r => match max_key r with None => Some p | Some q => Some (Z.max p q) end
  end.

Fixpoint min_key (opts : list (Z * Q)) : option Z :=
  match opts with
  | [] => None
  | (p, _) :: r => match min_key r with None => Some p | Some q => Some (Z.min p q) end
  end.

Fixpoint precision_of (opts : list (Z * Q)) (init : option Z) (min_spacing : Q) : option Z :=
  match opts with
  | [] => init
  | (p, v) :: r => if Qle_bool v min_spacing then Some p else precision_of r init min_spacing
  end.

(** [self.param_study.get("min_spacing_between_visits", 1 / 365)] *)
Definition min_spacing_of (default : Q) (ps : dict) : option Q :=
  match lookup "min_spacing_between_visits" ps with
  | None => Some default
  | Some v => num_of v
  end.

(** ** outcome of [_run] on an accepted design: where the pipeline raises.
    [dimension], [source_dimension] describe the (logistic) model. *)
Record model_shape := { dimension : nat; source_dimension : nat }.

Definition feature_names (f : featsv) : list string :=
  match f with
  | FsList l => flat_map (fun x => match x with FStr s => [s] | FOther => [] end) l
  | FsNotList => []
  end.
Definition n_features (f : featsv) : nat := match f with FsList l => List.length l | FsNotList => 0 end.
Fixpoint nodupb (l : list string) : bool :=
  match l with [] => true | x :: r => negb (memb String.eqb x r) && nodupb r end.

Definition is_intid (i : idv) : bool := match i with IdInt _ => true | _ => false end.
Definition frame_ids (ps : dict) : list idv :=
  match lookup "df_visits" ps with Some (VFrame f) => map fst (rows f) | _ => [] end.

Section Run.
  Variable opts : list (Z * Q).        (** the regenerated rounding options, sorted *)
  Variable init : option Z.            (** the regenerated value of [rounding_precision] before the loop *)
  Variable default_spacing : Q.        (** the regenerated default [1 / 365] *)

  Definition run_outcome (m : model_shape) (vt : vtype) (feats : featsv) (ps : dict) : outcome unit :=
    match lookup "patient_number" ps with
    | Some (VInt n) =>
        (* _sample_individual_parameters_from_model_parameters *)
        if existsb is_null (frame_ids ps) then Crash               (* columns from unique() vs groupby size *)
        else if (source_dimension m =? 0)%nat then Crash           (* torch.stack([]) *)
        else if negb (n_features feats =? dimension m)%nat then Crash   (* space-shift columns vs mixing matrix *)
        (* _generate_dataset *)
        else if existsb is_intid (frame_ids ps) then Crash
                                                                   (* IndividualParameters needs string IDs *)
        else if (n <=? 0)%Z then Crash                             (* empty table: nothing to concatenate *)
        else if (n =? 1)%Z then Crash                              (* std of one source draw is undefined -> NaN -> beta.rvs *)
        else if negb (nodupb (feature_names feats)) then Crash     (* duplicated column labels *)
        else match vt with
             | VtOther => Crash
             | VtDataframe => match precision_of opts init default_spacing with Some _ => Ok tt | None => Crash end
             | VtRandom =>
                 match min_spacing_of default_spacing ps with
                 | None => Crash
                 | Some ms => match precision_of opts init ms with
                              | Some _ => Ok tt
                              | None => Crash                      (* no integer precision: round raises *)
                              end
                 end
             end
    | _ => Crash                                                   (* bool as a size: TypeError in numpy *)
    end.

  (** the whole call [model.simulate(...)]: constructor, then run *)
  Definition simulate_outcome (m : model_shape) (d : design) : outcome unit :=
    match construct d with
    | Refuse => Refuse
    | Crash => Crash
    | Ok ps => match d_visit_type d with
               | Some vt => run_outcome m vt (d_features d) ps
               | None => Crash
               end
    end.

  (** number of random draws made before the outcome is known: a refusal happens in the constructor *)
  Definition generated_before_refusal (d : design) : nat := 0.
End Run.

(* ------------------------------------------------------------------------------------------ *)
(** * Part B — post-processing on lists *)

(** ** values: clip, variance clamp, beta parameters *)
Definition clip (lo hi x : Q) : Q := if Qlt_bool x lo then lo else if Qlt_bool hi x then hi else x.
Definition max_var (mu : Q) : Q := mu * (1 - mu).
Definition adj_var (factor mu var : Q) : Q := Qmin var (factor * max_var mu).
(** [None]: division by zero (nothing is totalised) *)
Definition beta_params (mu v : Q) : option (Q * Q) :=
  if Qeq_bool v 0 then None
  else Some (mu * (mu * (1 - mu) / v - 1), (1 - mu) * (mu * (1 - mu) / v - 1)).

Section Noise.
  Variables lo hi factor : Q.
  (** [scipy.stats.beta.rvs]: an oracle; [None] = "Domain error in arguments" *)
  Variable beta_rvs : Q -> Q -> nat -> option Q.

  Definition noisy (x var : Q) (i : nat) : option Q :=
    let mu := clip lo hi x in
    match beta_params mu (adj_var factor mu var) with
    | None => None
    | Some (a, b) => beta_rvs a b i
    end.
End Noise.

(** ** ages: rounding to [p] decimals (numpy: round-half-even of [x * 10^p]), keys in units of 10^-p *)
Definition round_half_even (x : Q) : Z :=
  let f := Qfloor x in
  let r := x - inject_Z f in
  if Qlt_bool r (1 # 2) then f
  else if Qlt_bool (1 # 2) r then (f + 1)%Z
  else if Z.even f then f else (f + 1)%Z.

Definition pow10 (p : Z) : Q := inject_Z (10 ^ p).
Definition age_key (p : Z) (t : Q) : Z := round_half_even (t * pow10 p).
Definition age_of (p : Z) (k : Z) : Q := inject_Z k / pow10 p.

(** a simulated row: individual, age key (after rounding), values *)
Definition srow := (string * Z * list Q)%type.
Definition rkey (r : srow) : string * Z := fst r.
Definition key_eqb (a b : string * Z) : bool := String.eqb (fst a) (fst b) && Z.eqb (snd a) (snd b).

(** [df[~df.index.duplicated()]]: the first row of every (ID, TIME) is kept *)
Fixpoint dedup_first (l : list srow) : list srow :=
  match l with
  | [] => []
  | r :: t => r :: filter (fun r' => negb (key_eqb (rkey r') (rkey r))) (dedup_first t)
  end.

(** ingestion (Data.from_dataframe): each individual's visits sorted by age *)
Fixpoint insert_row (r : srow) (l : list srow) : list srow :=
  match l with
  | [] => [r]
  | x :: t => if (snd (rkey r) <=? snd (rkey x))%Z then r :: l else x :: insert_row r t
  end.
Fixpoint sort_rows (l : list srow) : list srow :=
  match l with [] => [] | r :: t => insert_row r (sort_rows t) end.

Definition rows_of (id : string) (l : list srow) : list srow :=
  filter (fun r => String.eqb (fst (rkey r)) id) l.

Definition round_rows (p : Z) (l : list (string * Q * list Q)) : list srow :=
  map (fun r => (fst (fst r), age_key p (snd (fst r)), snd r)) l.

(** the visits of individual [id] in the returned data *)
Definition visits_of (p : Z) (id : string) (l : list (string * Q * list Q)) : list srow :=
  sort_rows (rows_of id (dedup_first (round_rows p l))).
Definition ages_of (p : Z) (id : string) (l : list (string * Q * list Q)) : list Z :=
  map (fun r => snd (rkey r)) (visits_of p id l).

(** individuals present in the returned data (first-appearance order) *)
Definition individuals (p : Z) (l : list (string * Q * list Q)) : list string :=
  uniq String.eqb (map (fun r => fst (rkey r)) (dedup_first (round_rows p l))).

(** ** random visit design: [age_visits = [t0]; while t < follow_up: t += step; append] with explicit fuel
    ([None] = the draws ran out before the loop ended) *)
Fixpoint visit_loop (t follow_up : Q) (steps : list Q) : option (list Q) :=
  if Qlt_bool t follow_up then
    match steps with
    | [] => None
    | s :: r => match visit_loop (t + s) follow_up r with
                | Some l => Some ((t + s) :: l)
                | None => None
                end
    end
  else Some [].
Definition visit_ages (t0 follow_up : Q) (steps : list Q) : option (list Q) :=
  match visit_loop t0 follow_up steps with Some l => Some (t0 :: l) | None => None end.

(** ** identifiers *)
Definition string_of_nat (n : nat) : string := NilZero.string_of_uint (Nat.to_uint n).
(** random design: [str(i) for i in range(patient_number)] *)
Definition ids_random (n : nat) : list string := map string_of_nat (seq 0 n).
(** table design: [str(i) for i in df["ID"].unique()] (string IDs) *)
Definition ids_table (ids : list string) : list string := uniq String.eqb ids.
