(** C17 — model of personalisation (leaspy/algo/personalize/{mcmc,mean_posterior,mode_posterior,scipy_minimize}.py,
    io/outputs/individual_parameters.py::from_pytorch / add_individual_parameters, algo_with_samplers.py::_is_burn_in).
    Definitions only; proofs are in PersonalizeProofs.v, the tie to the regenerated rules (gen/GenC17.v) in PersonalizeTie.v.

    Numbers are exact rationals (executed inside Coq on the implementation's chains) or reals (theorems about the
    optimisation path); float rounding is outside the model.  Nothing is totalised: an empty history, a shape
    mismatch, an identifier that is not a string, a duplicated identifier are explicit [Err]. *)
From Coq Require Import String ZArith QArith List Bool Reals.
From Leaspy Require Import Base.QAux.
Import ListNotations.

Inductive error :=
| EmptyHistory        (* torch.stack([]) : no draw kept (n_burn_in_iter >= n_iter)           -> RuntimeError   *)
| ShapeMismatch       (* ragged history / wrong number of rows                                -> torch / leaspy error *)
| IdNotAString        (* add_individual_parameters: `if not isinstance(index, str)` ; scipy path: the assert on the ID dtype *)
| DuplicateId.        (* add_individual_parameters: `if index in self._indices`               *)

Inductive result (A : Type) := Ok (a : A) | Err (e : error).
Arguments Ok {A} _.
Arguments Err {A} _.

Definition bind {A B} (r : result A) (f : A -> result B) : result B :=
  match r with Ok a => f a | Err e => Err e end.

Fixpoint sequence {A} (l : list (result A)) : result (list A) :=
  match l with
  | [] => Ok []
  | r :: rest => bind r (fun a => bind (sequence rest) (fun l' => Ok (a :: l')))
  end.

Definition of_option {A} (e : error) (o : option A) : result A :=
  match o with Some a => Ok a | None => Err e end.

(** * 1. Which draws are kept  (mcmc.py:67-83, algo_with_samplers.py::_is_burn_in) *)

Definition is_burn_in (k nb : Z) : bool := (k <=? nb)%Z.
(** `if not self._is_burn_in():` *)
Definition keep (k nb : Z) : bool := negb (is_burn_in k nb).

(** python's [range(lo, hi)] *)
Definition zrange (lo hi : Z) : list Z := map (fun i => lo + Z.of_nat i)%Z (seq 0 (Z.to_nat (hi - lo))).

(** `for self.current_iteration in range(1, n_iter + 1)` *)
Definition iterations (n_iter : Z) : list Z := zrange 1 (n_iter + 1).

Definition kept_iterations (n_iter nb : Z) : list Z := filter (fun k => keep k nb) (iterations n_iter).

(** * 2. Chains and histories

    One [cell] per individual and iteration: the values of all individual latent variables of that individual
    (concatenated in the sorted order of their names), its attachment `nll_attach_ind` and its regularity
    `nll_regul_ind_sum_ind`.  The code keeps three parallel histories (values per variable, attachments,
    regularities) that are appended under the same test at the same iteration (checked by the translator), which
    is why they are modelled zipped.  A [draw] is the state after the samplers of one iteration ran: one cell per
    individual, in the order of [dataset.indices]. *)
Record cell := mkCell { vals : list Q; att : Q; reg : Q }.
Definition draw := list cell.
Definition chain := Z -> draw.        (* iteration number (1-based) -> state after that iteration *)

Definition history (c : chain) (n_iter nb : Z) : list draw := map c (kept_iterations n_iter nb).

Definition entry {A} (t : list (list A)) (d i : nat) : option A :=
  match nth_error t d with Some r => nth_error r i | None => None end.

(** column [i] of a [draw][individual] table; every draw must have that individual *)
Definition column {A} (t : list (list A)) (i : nat) : result (list A) :=
  sequence (map (fun r => of_option ShapeMismatch (nth_error r i)) t).

(** * 3. mode_posterior  (mode_posterior.py:51-58)
    `torch.argmin(attachments + regularity_factor * regularities, dim=0)`: index of the FIRST minimal entry. *)
Definition mode_loss (c : cell) : Q := att c + reg c.

Fixpoint argmin_from (best_i : nat) (best : Q) (i : nat) (l : list Q) : nat :=
  match l with
  | [] => best_i
  | x :: r => if Qlt_bool x best then argmin_from i x (S i) r else argmin_from best_i best (S i) r
  end.

Definition argmin_first (l : list Q) : option nat :=
  match l with [] => None | x :: r => Some (argmin_from 0 x 1 r) end.

(** `value_var[indices_iter_best, indices_individuals]` : row i = draw best(i), individual i *)
Definition mode_row (h : list draw) (i : nat) : result (list Q) :=
  bind (column h i) (fun col =>
  bind (of_option EmptyHistory (argmin_first (map mode_loss col))) (fun b =>
  bind (of_option ShapeMismatch (entry h b i)) (fun c => Ok (vals c)))).

Definition mode_posterior (h : list draw) (n_ind : nat) : result (list (list Q)) :=
  match h with
  | [] => Err EmptyHistory        (* torch.stack of an empty list *)
  | _ => sequence (map (mode_row h) (seq 0 n_ind))
  end.

(** * 4. mean_posterior  (mean_posterior.py:47-50)  `value_var.mean(dim=0)` *)
Fixpoint sumQ (l : list Q) : Q := match l with [] => 0 | x :: r => x + sumQ r end.

Definition mean_of (l : list Q) : result Q :=
  match l with [] => Err EmptyHistory | _ => Ok (sumQ l / inject_Z (Z.of_nat (length l))) end.

Definition mean_coord (h : list draw) (i j : nat) : result Q :=
  bind (column h i) (fun col =>
  bind (sequence (map (fun c => of_option ShapeMismatch (nth_error (vals c) j)) col)) mean_of).

(** [dim] = total number of coordinates of the individual variables of one individual *)
Definition mean_posterior (h : list draw) (n_ind dim : nat) : result (list (list Q)) :=
  match h with
  | [] => Err EmptyHistory
  | _ => sequence (map (fun i => sequence (map (mean_coord h i) (seq 0 dim))) (seq 0 n_ind))
  end.

(** * 5. Identifiers and the output container
    [Dataset.indices] holds whatever the reader accepted: strings or (non-negative) integers. *)
Inductive pid := StrId (s : string) | IntId (z : Z).

Definition pid_eqb (a b : pid) : bool :=
  match a, b with
  | StrId s, StrId t => String.eqb s t
  | IntId x, IntId y => Z.eqb x y
  | _, _ => false
  end.

(** IndividualParameters.add_individual_parameters(index, p) on the container [ip] (list in insertion order) *)
Definition add_individual_parameters {P} (ip : list (string * P)) (index : pid) (p : P) : result (list (string * P)) :=
  match index with
  | IntId _ => Err IdNotAString
  | StrId s => if existsb (fun e => String.eqb (fst e) s) ip then Err DuplicateId else Ok (ip ++ [(s, p)])
  end.

Fixpoint add_all {P} (ip : list (string * P)) (l : list (pid * P)) : result (list (string * P)) :=
  match l with
  | [] => Ok ip
  | (i, p) :: r => bind (add_individual_parameters ip i p) (fun ip' => add_all ip' r)
  end.

(** IndividualParameters.from_pytorch(indices, dict): the length test, then row i -> indices[i] *)
Definition from_pytorch {P} (indices : list pid) (rows : list P) : result (list (string * P)) :=
  if Nat.eqb (length rows) (length indices) then add_all [] (combine indices rows) else Err ShapeMismatch.

(** The two sampling-based algorithms, end to end *)
Definition personalize_mode (c : chain) (n_iter nb : Z) (ids : list pid) : result (list (string * list Q)) :=
  bind (mode_posterior (history c n_iter nb) (length ids)) (from_pytorch ids).

Definition personalize_mean (c : chain) (n_iter nb : Z) (ids : list pid) (dim : nat) : result (list (string * list Q)) :=
  bind (mean_posterior (history c n_iter nb) (length ids) dim) (from_pytorch ids).

(** a chain is well shaped on the iterations that are run: one cell per individual, [dim] values per cell *)
Definition cell_ok (dim : nat) (c : cell) : Prop := length (vals c) = dim.
Definition draw_ok (n_ind dim : nat) (d : draw) : Prop := length d = n_ind /\ Forall (cell_ok dim) d.
Definition chain_ok (c : chain) (n_iter : Z) (n_ind dim : nat) : Prop :=
  forall k, (1 <= k <= n_iter)%Z -> draw_ok n_ind dim (c k).

Definition all_strings (ids : list pid) : Prop := Forall (fun i => exists s, i = StrId s) ids.
Definition id_string (i : pid) : string := match i with StrId s => s | IntId _ => EmptyString end.

(** cell of individual [i] at iteration [k] (total accessors, used in statements under [chain_ok]) *)
Definition cell_at (c : chain) (k : Z) (i : nat) : cell := nth i (c k) (mkCell [] 0 0).
Definition coord_at (c : chain) (k : Z) (i j : nat) : Q := nth j (vals (cell_at c k i)) 0.

(** * 6. scipy_minimize: slices, stack / unstack, affine scaling  (scipy_minimize.py:67-193) *)
Section Slices.
  Context {A : Type}.

  (** `accumulate(dims.values(), operator.add)` *)
  Fixpoint accumulate (acc : nat) (dims : list nat) : list nat :=
    match dims with [] => [] | d :: r => (acc + d)%nat :: accumulate (acc + d) r end.
  (** `cumdims = (0,) + tuple(accumulate(...))` *)
  Definition cumdims (dims : list nat) : list nat := O :: accumulate 0 dims.
  (** `slices = {n: slice(cumdims[i], cumdims[i + 1]) for i, n in enumerate(dims)}` *)
  Definition slices (dims : list nat) : list (nat * nat) :=
    map (fun i => (nth i (cumdims dims) O, nth (S i) (cumdims dims) O)) (seq 0 (length dims)).
  (** `length = cumdims[-1]` *)
  Definition total (dims : list nat) : nat := last (cumdims dims) O.

  (** python's [x[a:b]] *)
  Definition slice_of (x : list A) (s : nat * nat) : list A := firstn (snd s - fst s) (skipn (fst s) x).

  (** `unstack`: one piece per variable, in the order of [scalings];  `stack`: `torch.cat` in that order *)
  Definition unstack (dims : list nat) (x : list A) : list (list A) := map (slice_of x) (slices dims).
  Definition stack (xs : list (list A)) : list A := concat xs.
End Slices.

Definition map2 {A B C} (f : A -> B -> C) (l1 : list A) (l2 : list B) : list C :=
  map (fun p => f (fst p) (snd p)) (combine l1 l2).

Section Affine.
  Variable T : Type.
  Variables (add sub mul div : T -> T -> T).

  (** one coordinate: `loc + scale * x`  and  `(x - loc) / scale`;  [ls] = (loc, scale) *)
  Definition unscale1 (ls : T * T) (z : T) : T := add (fst ls) (mul (snd ls) z).
  Definition scale1 (ls : T * T) (x : T) : T := div (sub x (fst ls)) (snd ls).

  (** [scal]: for each individual variable (in order) its 1-D (loc, scale) *)
  Definition dims_of (scal : list (list (T * T))) : list nat := map (@length _) scal.

  (** `unscaling`: unstack (cat [loc + scale * x[slice n] for n]) *)
  Definition unscaling (scal : list (list (T * T))) (z : list T) : list (list T) :=
    unstack (dims_of scal) (concat (map2 (map2 unscale1) scal (unstack (dims_of scal) z))).

  (** `scaling`: cat [(stack(x)[slice n] - loc) / scale for n] *)
  Definition scaling (scal : list (list (T * T))) (ips : list (list T)) : list T :=
    concat (map2 (map2 scale1) scal (unstack (dims_of scal) (stack ips))).
End Affine.

Definition unscalingQ := unscaling Q Qplus Qmult.
Definition scalingQ := scaling Q Qminus Qdiv.
Definition unscalingR := unscaling R Rplus Rmult.
Definition scalingR := scaling R Rminus Rdiv.

(** * 7. scipy_minimize: one individual, then the cohort  (scipy_minimize.py:342-369, 439-504, 564-660) *)
Section Optimise.
  (** scipy.optimize.minimize(obj, x0=..., ...).x : an oracle — objective, start point -> returned point *)
  Variable minimise : (list R -> R) -> list R -> list R.

  (** `loss = state["nll_attach"] + regularity_factor * state["nll_regul_ind_sum"]` with factor 1 *)
  Definition objective (attach regul : list (list R) -> R) (ips : list (list R)) : R := (attach ips + regul ips)%R.

  (** `obj_no_jac(x, state, scaling)`: the objective in prior-standardised coordinates *)
  Definition obj_std (scal : list (list (R * R))) (obj : list (list R) -> R) (z : list R) : R := obj (unscalingR scal z).

  (** `_get_individual_parameters_patient`: res = minimize(obj, x0=scaling(initial_point)); unscaling(res.x) *)
  Definition personalize_one (scal : list (list (R * R))) (obj : list (list R) -> R) (start : list (list R)) : list (list R) :=
    unscalingR scal (minimise (obj_std scal obj) (scalingR scal start)).

  (** The hypothesis the non-worsening clause rests on: the code adds no guard of its own. *)
  Definition minimise_monotone : Prop := forall f x0, (f (minimise f x0) <= f x0)%R.

  (** `_compute_individual_parameters`: the assert on the ID dtype, one job per id in order,
      `zip(dataset.indices, ind_p_all)`, `add_individual_parameters(str(id_pat), row)` *)
  Definition personalize_scipy (scal : list (list (R * R))) (ids : list pid)
             (objs : list (list (list R) -> R)) (starts : list (list (list R))) : result (list (string * list (list R))) :=
    if forallb (fun i => match i with StrId _ => true | IntId _ => false end) ids then
      if Nat.eqb (length objs) (length ids) && Nat.eqb (length starts) (length ids) then
        add_all [] (combine ids (map2 (personalize_one scal) objs starts))
      else Err ShapeMismatch
    else Err IdNotAString.
End Optimise.

(** what "aligned" means: keys = input identifiers (as strings) in input order, one entry each *)
Definition aligned {P} (ids : list pid) (out : list (string * P)) : Prop :=
  map fst out = map id_string ids /\ all_strings ids /\ NoDup (map fst out) /\ length out = length ids.
