(** C17 — proofs about the personalisation model (Personalize.v). *)
From Coq Require Import String ZArith QArith List Bool Reals Lia Lra ZifyBool FinFun.
From Leaspy Require Import Base.QAux Api.Personalize.
Import ListNotations.
Local Open Scope nat_scope.

(** * results *)
Lemma bind_ok {A B} (r : result A) (f : A -> result B) b :
  bind r f = Ok b -> exists a, r = Ok a /\ f a = Ok b.
Proof. destruct r; simpl; [eauto | discriminate]. Qed.

Lemma sequence_ok {A} (l : list (result A)) out :
  sequence l = Ok out -> Forall2 (fun r a => r = Ok a) l out.
Proof.
  revert out. induction l as [|r l IH]; simpl; intros out H.
  - inversion H. constructor.
  - apply bind_ok in H as (a & -> & H). apply bind_ok in H as (l' & Hl & H). inversion H; subst.
    constructor; auto.
Qed.

Lemma sequence_total {A} (l : list (result A)) :
  Forall (fun r => exists a, r = Ok a) l -> exists out, sequence l = Ok out.
Proof.
  induction 1 as [|r l (a & ->) _ (out & IH)]; simpl; [eauto|]. rewrite IH. simpl. eauto.
Qed.

Lemma Forall2_length' {A B} (P : A -> B -> Prop) l1 l2 : Forall2 P l1 l2 -> length l1 = length l2.
Proof. induction 1; simpl; congruence. Qed.

Lemma Forall2_nth_error {A B} (P : A -> B -> Prop) l1 l2 :
  Forall2 P l1 l2 -> forall i b, nth_error l2 i = Some b -> exists a, nth_error l1 i = Some a /\ P a b.
Proof.
  induction 1; intros [|i] b' Hb; simpl in *; try discriminate.
  - inversion Hb; subst. eauto.
  - eauto.
Qed.

Lemma Forall2_nth_error_l {A B} (P : A -> B -> Prop) l1 l2 :
  Forall2 P l1 l2 -> forall i a, nth_error l1 i = Some a -> exists b, nth_error l2 i = Some b /\ P a b.
Proof.
  induction 1; intros [|i] a' Ha; simpl in *; try discriminate.
  - inversion Ha; subst. eauto.
  - eauto.
Qed.

Lemma sequence_map_seq {A} (f : nat -> result A) n out :
  sequence (map f (seq 0 n)) = Ok out ->
  length out = n /\ forall i, i < n -> exists a, nth_error out i = Some a /\ f i = Ok a.
Proof.
  intros H. apply sequence_ok in H. pose proof (Forall2_length' _ _ _ H) as L.
  rewrite map_length, seq_length in L. split; [auto|].
  intros i Hi. destruct (nth_error out i) as [a|] eqn:E.
  - destruct (Forall2_nth_error _ _ _ H i a E) as (r & Hr & ->).
    rewrite nth_error_map, nth_error_nth' with (d := 0) in Hr by (rewrite seq_length; lia).
    rewrite seq_nth in Hr by lia. simpl in Hr. inversion Hr. eauto.
  - apply nth_error_None in E. lia.
Qed.

(** * 1. kept iterations *)
Lemma zrange_nil lo hi : (hi <= lo)%Z -> zrange lo hi = [].
Proof. intros H. unfold zrange. replace (Z.to_nat (hi - lo)) with 0 by lia. reflexivity. Qed.

Lemma zrange_cons lo hi : (lo < hi)%Z -> zrange lo hi = lo :: zrange (lo + 1) hi.
Proof.
  intros H. unfold zrange. replace (Z.to_nat (hi - lo)) with (S (Z.to_nat (hi - (lo + 1)))) by lia.
  simpl. f_equal; [lia|]. rewrite <- seq_shift, map_map. apply map_ext. intros; lia.
Qed.

Lemma zrange_length lo hi : length (zrange lo hi) = Z.to_nat (hi - lo).
Proof. unfold zrange. now rewrite map_length, seq_length. Qed.

Lemma zrange_nth_error lo hi d k : nth_error (zrange lo hi) d = Some k <-> (k = lo + Z.of_nat d)%Z /\ d < Z.to_nat (hi - lo).
Proof.
  unfold zrange. rewrite nth_error_map. split.
  - destruct (nth_error (seq 0 _) d) as [i|] eqn:E; simpl; [|discriminate]. intros H. inversion H; subst.
    assert (d < Z.to_nat (hi - lo)) as Hd.
    { rewrite <- (seq_length (Z.to_nat (hi - lo)) 0). apply nth_error_Some. congruence. }
    rewrite nth_error_nth' with (d := 0) in E by (rewrite seq_length; lia). rewrite seq_nth in E by lia.
    inversion E. split; [reflexivity | lia].
  - intros [-> Hd]. rewrite nth_error_nth' with (d := 0) by (rewrite seq_length; lia). rewrite seq_nth by lia. reflexivity.
Qed.

Lemma In_zrange lo hi k : In k (zrange lo hi) <-> (lo <= k < hi)%Z.
Proof.
  unfold zrange. rewrite in_map_iff. split.
  - intros (i & <- & Hi). apply in_seq in Hi. lia.
  - intros H. exists (Z.to_nat (k - lo)). split; [lia|]. apply in_seq. lia.
Qed.

Lemma filter_zrange_threshold nb n : forall lo hi, Z.to_nat (hi - lo) = n ->
  filter (fun k => keep k nb) (zrange lo hi) = zrange (Z.max lo (nb + 1)) hi.
Proof.
  induction n as [|n IH]; intros lo hi Hn.
  - rewrite !zrange_nil by lia. reflexivity.
  - rewrite (zrange_cons lo hi) by lia. simpl. unfold keep at 1, is_burn_in.
    destruct (lo <=? nb)%Z eqn:E; simpl.
    + rewrite IH by lia. f_equal. lia.
    + rewrite IH by lia. replace (Z.max lo (nb + 1)) with lo by lia.
      rewrite (zrange_cons lo hi) by lia. f_equal. f_equal. lia.
Qed.

(** the kept iterations are exactly nb+1 .. n_iter (1 .. n_iter when nb <= 0), in increasing order, once each *)
Lemma kept_iterations_eq n nb : kept_iterations n nb = zrange (Z.max 1 (nb + 1)) (n + 1).
Proof. unfold kept_iterations, iterations. now apply filter_zrange_threshold with (n := Z.to_nat (n + 1 - 1)). Qed.

Lemma kept_iterations_spec n nb k : In k (kept_iterations n nb) <-> (1 <= k <= n /\ nb < k)%Z.
Proof. rewrite kept_iterations_eq, In_zrange. lia. Qed.

Lemma kept_iterations_count n nb : (0 <= nb <= n)%Z -> length (kept_iterations n nb) = Z.to_nat (n - nb).
Proof. intros H. rewrite kept_iterations_eq, zrange_length. lia. Qed.

Lemma kept_iterations_count_gen n nb : length (kept_iterations n nb) = Z.to_nat (n + 1 - Z.max 1 (nb + 1)).
Proof. now rewrite kept_iterations_eq, zrange_length. Qed.

Lemma kept_iterations_none n nb : (n <= nb)%Z -> kept_iterations n nb = [].
Proof. intros H. rewrite kept_iterations_eq. apply zrange_nil. lia. Qed.

Lemma zrange_NoDup lo hi : NoDup (zrange lo hi).
Proof.
  unfold zrange. apply Injective_map_NoDup; [|apply seq_NoDup]. intros a b H. lia.
Qed.

Lemma kept_iterations_nth n nb d k :
  nth_error (kept_iterations n nb) d = Some k <-> (k = Z.max 1 (nb + 1) + Z.of_nat d /\ k <= n)%Z.
Proof. rewrite kept_iterations_eq, zrange_nth_error. lia. Qed.

(** * 2. argmin *)
Lemma Qlt_bool_false x y : Qlt_bool x y = false -> (y <= x)%Q.
Proof. unfold Qlt_bool. rewrite negb_false_iff. apply Qle_bool_iff. Qed.

Lemma argmin_from_spec l : forall pre best_i best,
  nth_error pre best_i = Some best ->
  (forall d y, nth_error pre d = Some y -> (best <= y)%Q) ->
  (forall d y, (d < best_i)%nat -> nth_error pre d = Some y -> (best < y)%Q) ->
  let b := argmin_from best_i best (length pre) l in
  exists m, nth_error (pre ++ l) b = Some m /\
            (forall d y, nth_error (pre ++ l) d = Some y -> (m <= y)%Q) /\
            (forall d y, (d < b)%nat -> nth_error (pre ++ l) d = Some y -> (m < y)%Q).
Proof.
  induction l as [|x r IH]; intros pre bi best Ha Hb Hc; simpl.
  - rewrite app_nil_r. eauto.
  - assert (bi < length pre)%nat as Hlt by (apply nth_error_Some; congruence).
    replace (pre ++ x :: r) with ((pre ++ [x]) ++ r) by (now rewrite <- app_assoc).
    replace (S (length pre)) with (length (pre ++ [x])) by (rewrite app_length; simpl; lia).
    destruct (Qlt_bool x best) eqn:E.
    + apply Qlt_bool_iff in E. apply IH.
      * rewrite nth_error_app2 by lia. now rewrite Nat.sub_diag.
      * intros d y Hd. destruct (Nat.lt_ge_cases d (length pre)) as [L|L].
        -- rewrite nth_error_app1 in Hd by lia. apply Qlt_le_weak. eapply Qlt_le_trans; eauto.
        -- rewrite nth_error_app2 in Hd by lia. destruct (d - length pre)%nat as [|[|?]]; simpl in Hd; try discriminate.
           inversion Hd. apply Qle_refl.
      * intros d y L Hd. rewrite nth_error_app1 in Hd by lia. eapply Qlt_le_trans; eauto.
    + apply Qlt_bool_false in E. apply IH.
      * now rewrite nth_error_app1 by lia.
      * intros d y Hd. destruct (Nat.lt_ge_cases d (length pre)) as [L|L].
        -- rewrite nth_error_app1 in Hd by lia. eauto.
        -- rewrite nth_error_app2 in Hd by lia. destruct (d - length pre)%nat as [|[|?]]; simpl in Hd; try discriminate.
           now inversion Hd; subst.
      * intros d y L Hd. rewrite nth_error_app1 in Hd by lia. eauto.
Qed.

(** torch.argmin convention: the FIRST index holding the minimum *)
Lemma argmin_first_spec l b : argmin_first l = Some b ->
  exists m, nth_error l b = Some m /\
            (forall d y, nth_error l d = Some y -> (m <= y)%Q) /\
            (forall d y, (d < b)%nat -> nth_error l d = Some y -> (m < y)%Q).
Proof.
  destruct l as [|x r]; simpl; [discriminate|]. intros H. inversion H; subst; clear H.
  apply (argmin_from_spec r [x] 0%nat x); simpl.
  - reflexivity.
  - intros [|[|d]] y Hd; simpl in Hd; try discriminate. inversion Hd. apply Qle_refl.
  - intros d y Hd. lia.
Qed.

Lemma argmin_first_total l : l <> [] -> exists b, argmin_first l = Some b.
Proof. destruct l; [congruence | simpl; eauto]. Qed.

(** * 3. columns *)
Lemma column_ok {A} (t : list (list A)) i col :
  column t i = Ok col -> Forall2 (fun r c => nth_error r i = Some c) t col.
Proof.
  unfold column. intros H. apply sequence_ok in H. remember (map _ t) as l eqn:El.
  revert t El. induction H; intros t El; destruct t; simpl in El; try discriminate; constructor.
  - inversion El; subst. destruct (nth_error l0 i); simpl in *; [congruence | discriminate].
  - apply IHForall2. now inversion El.
Qed.

Lemma column_entry {A} (t : list (list A)) i col :
  column t i = Ok col -> forall d c, nth_error col d = Some c <-> entry t d i = Some c.
Proof.
  intros H d c. apply column_ok in H. unfold entry. split.
  - intros Hc. destruct (Forall2_nth_error _ _ _ H d c Hc) as (r & -> & Hr). exact Hr.
  - destruct (nth_error t d) as [r|] eqn:E; [|discriminate]. intros Hr.
    destruct (Forall2_nth_error_l _ _ _ H d r E) as (c' & Hc' & Hr'). congruence.
Qed.

Lemma column_total {A} (t : list (list A)) i :
  Forall (fun r => i < length r)%nat t -> exists col, column t i = Ok col.
Proof.
  intros H. unfold column. apply sequence_total. apply Forall_map. eapply Forall_impl; [|exact H].
  intros r Hr. simpl in Hr. destruct (nth_error r i) eqn:E; simpl; eauto. apply nth_error_None in E. lia.
Qed.

(** * 4. mode_posterior *)
Lemma mode_row_spec h i row :
  mode_row h i = Ok row ->
  exists b c, entry h b i = Some c /\ row = vals c /\
    (forall d c', entry h d i = Some c' -> (mode_loss c <= mode_loss c')%Q) /\
    (forall d c', (d < b)%nat -> entry h d i = Some c' -> (mode_loss c < mode_loss c')%Q).
Proof.
  unfold mode_row. intros H.
  apply bind_ok in H as (col & Hcol & H). apply bind_ok in H as (b & Hb & H). apply bind_ok in H as (c & Hc & H).
  inversion H; subst; clear H.
  destruct (argmin_first (map mode_loss col)) as [b'|] eqn:Ea; simpl in Hb; inversion Hb; subst; clear Hb.
  destruct (entry h b i) as [c'|] eqn:Ee; simpl in Hc; inversion Hc; subst; clear Hc.
  destruct (argmin_first_spec _ _ Ea) as (m & Hm & Hle & Hlt).
  pose proof (column_entry _ _ _ Hcol) as CE.
  assert (m = mode_loss c) as ->.
  { apply CE in Ee. rewrite nth_error_map, Ee in Hm. simpl in Hm. congruence. }
  exists b, c. repeat split; auto.
  - intros d c' Hd. apply CE in Hd. apply (Hle d). now rewrite nth_error_map, Hd.
  - intros d c' L Hd. apply CE in Hd. apply (Hlt d); auto. now rewrite nth_error_map, Hd.
Qed.

Lemma mode_posterior_spec h n_ind out :
  mode_posterior h n_ind = Ok out ->
  h <> [] /\ length out = n_ind /\
  forall i, (i < n_ind)%nat -> exists row, nth_error out i = Some row /\ mode_row h i = Ok row.
Proof.
  unfold mode_posterior. destruct h as [|d0 h']; [discriminate|]. intros H.
  apply sequence_map_seq in H as [L H]. split; [discriminate|]. split; auto.
Qed.

Lemma entry_history (c : Z -> draw) (ks : list Z) d i (cl : cell) :
  entry (map c ks) d i = Some cl <-> exists k, nth_error ks d = Some k /\ nth_error (c k) i = Some cl.
Proof.
  unfold entry. rewrite nth_error_map. destruct (nth_error ks d) as [k|]; simpl.
  - split; [eauto | intros (k' & E & H); now inversion E; subst].
  - split; [discriminate | intros (k' & E & _); discriminate].
Qed.

(** * 5. from_pytorch / add_individual_parameters *)
Lemma existsb_fst_false {P} (ip : list (string * P)) s :
  existsb (fun e => String.eqb (fst e) s) ip = false <-> ~ In s (map fst ip).
Proof.
  split.
  - intros H C. apply in_map_iff in C as (e & <- & He).
    assert (existsb (fun e0 => String.eqb (fst e0) (fst e)) ip = true) by (apply existsb_exists; exists e; split; auto; apply String.eqb_refl).
    congruence.
  - intros H. destruct (existsb _ ip) eqn:E; auto. apply existsb_exists in E as (e & He & Heq).
    apply String.eqb_eq in Heq. exfalso. apply H. apply in_map_iff. eauto.
Qed.

Lemma add_all_ok {P} (l : list (pid * P)) : forall ip out,
  add_all ip l = Ok out ->
  out = ip ++ map (fun e => (id_string (fst e), snd e)) l /\ all_strings (map fst l) /\
  (NoDup (map fst ip) -> NoDup (map fst out)).
Proof.
  induction l as [|[i p] l IH]; simpl; intros ip out H.
  - inversion H; subst. rewrite app_nil_r. repeat split; auto. constructor.
  - apply bind_ok in H as (ip' & Ha & H). destruct i as [s|z]; simpl in Ha; [|discriminate].
    destruct (existsb _ ip) eqn:E; [discriminate|]. inversion Ha; subst; clear Ha.
    apply IH in H as (-> & Hs & Hn). rewrite <- app_assoc in *. simpl in *. repeat split; auto.
    + constructor; eauto.
    + intros N. apply Hn. rewrite map_app. simpl. apply existsb_fst_false in E.
      clear - N E. induction ip as [|e ip IH]; simpl in *.
      * constructor; [auto | constructor].
      * inversion N; subst. constructor.
        -- rewrite in_app_iff. simpl. intros [C|[C|[]]]; [auto|]. apply E. now left.
        -- apply IH; auto.
Qed.

Lemma add_all_total {P} (l : list (pid * P)) : forall ip,
  all_strings (map fst l) -> NoDup (map fst ip ++ map id_string (map fst l)) ->
  exists out, add_all ip l = Ok out.
Proof.
  induction l as [|[i p] l IH]; simpl; intros ip Hs Hn; [eauto|].
  inversion Hs as [|? ? (s & ->) Hs']; subst. simpl in *.
  assert (~ In s (map fst ip)) as Hnot.
  { intros C. apply NoDup_remove_2 in Hn. apply Hn. rewrite in_app_iff. now left. }
  apply existsb_fst_false in Hnot. rewrite Hnot. simpl. apply IH; auto.
  rewrite map_app. simpl. rewrite <- app_assoc. simpl. exact Hn.
Qed.

Lemma combine_map_fst {A B} (l1 : list A) (l2 : list B) : length l1 = length l2 -> map fst (combine l1 l2) = l1.
Proof. revert l2. induction l1; destruct l2; simpl; intros; try lia; f_equal; auto. Qed.
Lemma combine_map_snd {A B} (l1 : list A) (l2 : list B) : length l1 = length l2 -> map snd (combine l1 l2) = l2.
Proof. revert l2. induction l1; destruct l2; simpl; intros; try lia; f_equal; auto. Qed.

(** output keys = input identifiers (as strings), same order, one entry each; rows in the order given *)
Lemma from_pytorch_ok {P} (ids : list pid) (rows : list P) out :
  from_pytorch ids rows = Ok out ->
  map fst out = map id_string ids /\ map snd out = rows /\ all_strings ids /\ NoDup (map fst out) /\ length out = length ids.
Proof.
  unfold from_pytorch. destruct (Nat.eqb _ _) eqn:E; [|discriminate]. apply Nat.eqb_eq in E. intros H.
  apply add_all_ok in H as (-> & Hs & Hn). simpl in *.
  rewrite combine_map_fst in Hs by auto.
  rewrite !map_map. simpl.
  assert (map (fun x : pid * P => id_string (fst x)) (combine ids rows) = map id_string ids) as E1.
  { rewrite <- (map_map fst id_string). now rewrite combine_map_fst. }
  assert (map (fun x : pid * P => snd x) (combine ids rows) = rows) as E2 by (now apply combine_map_snd).
  rewrite E1, E2. repeat split; auto.
  - specialize (Hn (NoDup_nil _)). rewrite map_map in Hn. simpl in Hn. now rewrite E1 in Hn.
  - rewrite map_length, combine_length. lia.
Qed.

Lemma from_pytorch_total {P} (ids : list pid) (rows : list P) :
  length rows = length ids -> all_strings ids -> NoDup (map id_string ids) ->
  exists out, from_pytorch ids rows = Ok out.
Proof.
  intros L Hs Hn. unfold from_pytorch. rewrite (proj2 (Nat.eqb_eq _ _) L).
  apply add_all_total; simpl; rewrite combine_map_fst by auto; auto.
Qed.

Lemma from_pytorch_int_refused {P} (ids : list pid) (rows : list P) z :
  In (IntId z) ids -> forall out, from_pytorch ids rows <> Ok out.
Proof.
  intros Hin out H. apply from_pytorch_ok in H as (_ & _ & Hs & _).
  unfold all_strings in Hs. rewrite Forall_forall in Hs. destruct (Hs _ Hin) as (s & C). discriminate.
Qed.

(** * 6. the two sampling-based algorithms on a chain *)
Definition kept (n nb k : Z) : Prop := (1 <= k <= n /\ nb < k)%Z.

Theorem personalize_mode_spec c n nb ids out :
  personalize_mode c n nb ids = Ok out ->
  map fst out = map id_string ids /\ all_strings ids /\ NoDup (map fst out) /\ length out = length ids /\
  forall i, (i < length ids)%nat -> exists k cl,
     kept n nb k /\ nth_error (c k) i = Some cl /\ nth_error (map snd out) i = Some (vals cl) /\
     (forall k' cl', kept n nb k' -> nth_error (c k') i = Some cl' -> (mode_loss cl <= mode_loss cl')%Q) /\
     (forall k' cl', kept n nb k' -> (k' < k)%Z -> nth_error (c k') i = Some cl' -> (mode_loss cl < mode_loss cl')%Q).
Proof.
  unfold personalize_mode. intros H. apply bind_ok in H as (rows & Hm & Hf).
  apply from_pytorch_ok in Hf as (Hk & Hr & Hs & Hn & Hl). repeat split; auto.
  intros i Hi. apply mode_posterior_spec in Hm as (_ & _ & Hrow).
  destruct (Hrow i Hi) as (row & Hnth & Hmr). apply mode_row_spec in Hmr as (b & cl & He & -> & Hle & Hlt).
  unfold history in *. apply entry_history in He as (k & Hkb & Hc).
  pose proof Hkb as Hkb'. apply kept_iterations_nth in Hkb' as [Hkeq Hkn].
  exists k, cl. rewrite Hr. repeat split; auto; try lia.
  - intros k' cl' (Hk1 & Hk2) Hc'.
    apply (Hle (Z.to_nat (k' - Z.max 1 (nb + 1)))). apply entry_history. exists k'. split; auto.
    apply kept_iterations_nth. lia.
  - intros k' cl' (Hk1 & Hk2) Hlt' Hc'.
    apply (Hlt (Z.to_nat (k' - Z.max 1 (nb + 1)))); [lia|]. apply entry_history. exists k'. split; auto.
    apply kept_iterations_nth. lia.
Qed.

Lemma draw_ok_nth n_ind dim d i : draw_ok n_ind dim d -> (i < n_ind)%nat -> exists cl, nth_error d i = Some cl /\ cell_ok dim cl.
Proof.
  intros [L F] Hi. destruct (nth_error d i) as [cl|] eqn:E.
  - exists cl. split; auto. rewrite Forall_forall in F. apply F. eapply nth_error_In; eauto.
  - apply nth_error_None in E. lia.
Qed.

Lemma history_rows_long c n nb n_ind dim i :
  chain_ok c n n_ind dim -> (i < n_ind)%nat -> Forall (fun r => i < length r)%nat (history c n nb).
Proof.
  intros Hc Hi. unfold history. apply Forall_map. apply Forall_forall. intros k Hk.
  apply kept_iterations_spec in Hk as [Hk _]. destruct (Hc k Hk) as [L _]. simpl. lia.
Qed.

Lemma history_nonempty c n nb : (nb < n)%Z -> (1 <= n)%Z -> history c n nb <> [].
Proof.
  intros H H1 C. apply (f_equal (@length _)) in C. unfold history in C. rewrite map_length, kept_iterations_count_gen in C.
  simpl in C. lia.
Qed.

Theorem personalize_mode_total c n nb ids dim :
  chain_ok c n (length ids) dim -> (nb < n)%Z -> (1 <= n)%Z -> all_strings ids -> NoDup (map id_string ids) ->
  exists out, personalize_mode c n nb ids = Ok out /\ Forall (fun e => length (snd e) = dim) out.
Proof.
  intros Hc Hnb Hn1 Hs Hnd. unfold personalize_mode.
  assert (exists rows, mode_posterior (history c n nb) (length ids) = Ok rows) as (rows & Hrows).
  { unfold mode_posterior. pose proof (history_nonempty c n nb Hnb Hn1) as Hne.
    destruct (history c n nb) as [|d0 h'] eqn:Eh; [congruence|]. rewrite <- Eh in *. apply sequence_total.
    apply Forall_map. apply Forall_forall. intros i Hi. apply in_seq in Hi.
    unfold mode_row. destruct (column_total (history c n nb) i) as (col & Hcol).
    { eapply history_rows_long; eauto. lia. }
    rewrite Hcol. simpl. pose proof (Forall2_length' _ _ _ (column_ok _ _ _ Hcol)) as Lc.
    destruct (argmin_first_total (map mode_loss col)) as (b & Hb).
    { intros C. apply (f_equal (@length _)) in C. rewrite map_length in C. simpl in C. rewrite <- Lc in C.
      apply Hne. now apply length_zero_iff_nil. }
    rewrite Hb. simpl. destruct (argmin_first_spec _ _ Hb) as (m & Hm & _).
    rewrite nth_error_map in Hm. destruct (nth_error col b) as [cb|] eqn:Ecb; [|discriminate].
    apply (column_entry _ _ _ Hcol) in Ecb. rewrite Ecb. simpl. eauto. }
  rewrite Hrows. simpl. pose proof Hrows as Hspec. apply mode_posterior_spec in Hspec as (_ & Lr & Hrow).
  destruct (from_pytorch_total ids rows Lr Hs Hnd) as (out & Hout). exists out. split; auto.
  apply from_pytorch_ok in Hout as (_ & Hsnd & _).
  apply Forall_forall. intros e He. assert (In (snd e) rows) as Hin by (rewrite <- Hsnd; now apply in_map).
  apply In_nth_error in Hin as (i & Hi). assert (i < length ids)%nat as Hlt by (rewrite <- Lr; apply nth_error_Some; congruence).
  destruct (Hrow i Hlt) as (row & Hnth & Hmr). rewrite Hi in Hnth. inversion Hnth; subst row.
  apply mode_row_spec in Hmr as (b & cl & He' & -> & _). unfold history in He'. apply entry_history in He' as (k & Hk & Hck).
  apply nth_error_In in Hk. apply kept_iterations_spec in Hk as [Hk _]. destruct (Hc k Hk) as [_ F].
  rewrite Forall_forall in F. apply F. eapply nth_error_In; eauto.
Qed.

(** mean *)
Lemma sequence_map_ok {A B} (f : A -> result B) l out :
  sequence (map f l) = Ok out -> Forall2 (fun a b => f a = Ok b) l out.
Proof.
  intros H. apply sequence_ok in H. remember (map f l) as m eqn:E. revert l E.
  induction H; intros l0 E; destruct l0; simpl in E; try discriminate; constructor.
  - inversion E; subst; auto.
  - apply IHForall2. now inversion E.
Qed.

Lemma mean_coord_spec c ks i j x :
  ks <> [] -> mean_coord (map c ks) i j = Ok x ->
  x = (sumQ (map (fun k => coord_at c k i j) ks) / inject_Z (Z.of_nat (length ks)))%Q.
Proof.
  intros Hne H. unfold mean_coord in H. apply bind_ok in H as (col & Hcol & H). apply bind_ok in H as (ys & Hys & H).
  apply column_ok in Hcol. apply sequence_map_ok in Hys.
  assert (ys = map (fun k => coord_at c k i j) ks) as ->.
  { clear H Hne. revert col ys Hcol Hys. induction ks as [|k ks IH]; intros col ys Hcol Hys.
    - inversion Hcol; subst. inversion Hys; subst. reflexivity.
    - simpl in Hcol. inversion Hcol as [|? cl ? col' Hk Hrest]; subst. inversion Hys as [|? y ? ys' Hy Hrest']; subst.
      simpl. f_equal; [|eapply IH; eauto].
      unfold coord_at, cell_at. rewrite (nth_error_nth _ _ _ Hk).
      destruct (nth_error (vals cl) j) as [y'|] eqn:E; simpl in Hy; inversion Hy; subst.
      now rewrite (nth_error_nth _ _ _ E). }
  unfold mean_of in H. destruct ks as [|k ks']; [congruence|]. simpl in H. inversion H. simpl. now rewrite map_length.
Qed.

Theorem personalize_mean_spec c n nb ids dim out :
  personalize_mean c n nb ids dim = Ok out ->
  map fst out = map id_string ids /\ all_strings ids /\ NoDup (map fst out) /\ length out = length ids /\
  Forall (fun e => length (snd e) = dim) out /\
  forall i j, (i < length ids)%nat -> (j < dim)%nat ->
    exists x, entry (map snd out) i j = Some x /\
      x = (sumQ (map (fun k => coord_at c k i j) (zrange (Z.max 1 (nb + 1)) (n + 1)))
          / inject_Z (Z.of_nat (Z.to_nat (n + 1 - Z.max 1 (nb + 1)))))%Q.
Proof.
  unfold personalize_mean. intros H. apply bind_ok in H as (rows & Hm & Hf).
  apply from_pytorch_ok in Hf as (Hk & Hr & Hs & Hn & Hl).
  unfold mean_posterior in Hm. destruct (history c n nb) as [|d0 h'] eqn:Eh; [discriminate|]. rewrite <- Eh in Hm.
  apply sequence_map_seq in Hm as [Lr Hrow].
  assert (kept_iterations n nb <> []) as Hne.
  { intros C. unfold history in Eh. rewrite C in Eh. discriminate. }
  repeat split; auto.
  - apply Forall_forall. intros e He. assert (In (snd e) rows) as Hin by (rewrite <- Hr; now apply in_map).
    apply In_nth_error in Hin as (i & Hi). assert (i < length ids)%nat as Hlt by (rewrite <- Lr; apply nth_error_Some; congruence).
    destruct (Hrow i Hlt) as (row & Hnth & Hmr). rewrite Hi in Hnth. inversion Hnth; subst row.
    apply sequence_map_seq in Hmr as [L _]. exact L.
  - intros i j Hi Hj. destruct (Hrow i Hi) as (row & Hnth & Hmr). apply sequence_map_seq in Hmr as [L Hc].
    destruct (Hc j Hj) as (x & Hx & Hmc). exists x. split.
    + unfold entry. rewrite Hr, Hnth. exact Hx.
    + unfold history in Hmc. apply mean_coord_spec in Hmc; auto.
      rewrite kept_iterations_eq in Hmc. now rewrite zrange_length in Hmc.
Qed.

Theorem personalize_mean_total c n nb ids dim :
  chain_ok c n (length ids) dim -> (nb < n)%Z -> (1 <= n)%Z -> all_strings ids -> NoDup (map id_string ids) ->
  exists out, personalize_mean c n nb ids dim = Ok out.
Proof.
  intros Hc Hnb Hn1 Hs Hnd. unfold personalize_mean.
  assert (exists rows, mean_posterior (history c n nb) (length ids) dim = Ok rows /\ length rows = length ids) as (rows & Hrows & Lr).
  { unfold mean_posterior. pose proof (history_nonempty c n nb Hnb Hn1) as Hne.
    destruct (history c n nb) as [|d0 h'] eqn:Eh; [congruence|]. rewrite <- Eh in *.
    destruct (sequence_total (map (fun i => sequence (map (mean_coord (history c n nb) i) (seq 0 dim))) (seq 0 (length ids)))) as (rows & Hrows).
    - apply Forall_map. apply Forall_forall. intros i Hi. apply in_seq in Hi. apply sequence_total.
      apply Forall_map. apply Forall_forall. intros j Hj. apply in_seq in Hj.
      unfold mean_coord. destruct (column_total (history c n nb) i) as (col & Hcol).
      { eapply history_rows_long; eauto. lia. }
      rewrite Hcol. simpl. pose proof (column_ok _ _ _ Hcol) as F2.
      assert (Forall (cell_ok dim) col) as Fc.
      { apply Forall_forall. intros cl Hin. apply In_nth_error in Hin as (d & Hd).
        destruct (Forall2_nth_error _ _ _ F2 d cl Hd) as (r & Hr & Hri). unfold history in Hr. rewrite nth_error_map in Hr.
        destruct (nth_error (kept_iterations n nb) d) as [k|] eqn:Ek; simpl in Hr; inversion Hr; subst.
        apply nth_error_In in Ek. apply kept_iterations_spec in Ek as [Hk _]. destruct (Hc k Hk) as [_ F].
        rewrite Forall_forall in F. apply F. eapply nth_error_In; eauto. }
      destruct (sequence_total (map (fun c0 => of_option ShapeMismatch (nth_error (vals c0) j)) col)) as (ys & Hys).
      { apply Forall_map. eapply Forall_impl; [|exact Fc]. intros cl Hcl. simpl. unfold cell_ok in Hcl.
        destruct (nth_error (vals cl) j) eqn:E; simpl; eauto. apply nth_error_None in E. lia. }
      rewrite Hys. simpl. unfold mean_of. destruct ys eqn:Ey; [|eauto].
      exfalso. apply sequence_ok in Hys. apply Forall2_length' in Hys. rewrite map_length in Hys. simpl in Hys.
      apply Forall2_length' in F2. apply Hne. apply length_zero_iff_nil. exact (eq_trans F2 Hys).
    - exists rows. split; auto. apply sequence_map_seq in Hrows. tauto. }
  rewrite Hrows. simpl. apply from_pytorch_total; auto.
Qed.

Lemma personalize_no_kept_draw c n nb ids dim :
  (n <= nb)%Z -> personalize_mode c n nb ids = Err EmptyHistory /\ personalize_mean c n nb ids dim = Err EmptyHistory.
Proof.
  intros H. unfold personalize_mode, personalize_mean, history. rewrite kept_iterations_none by auto. split; reflexivity.
Qed.

(** * 7. slices *)
Fixpoint offsets (start : nat) (dims : list nat) : list (nat * nat) :=
  match dims with [] => [] | d :: r => (start, start + d)%nat :: offsets (start + d) r end.

Fixpoint sumn (l : list nat) : nat := match l with [] => 0 | x :: r => x + sumn r end.

Lemma slices_gen a dims :
  map (fun i => (nth i (a :: accumulate a dims) O, nth (S i) (a :: accumulate a dims) O)) (seq 0 (length dims)) = offsets a dims.
Proof.
  revert a. induction dims as [|d r IH]; intros a; simpl; [reflexivity|]. f_equal.
  rewrite <- seq_shift, map_map. rewrite <- (IH (a + d)%nat). apply map_ext. intros i. reflexivity.
Qed.

Lemma slices_offsets dims : slices dims = offsets 0 dims.
Proof. unfold slices, cumdims. apply slices_gen. Qed.

Lemma last_accumulate a dims : last (a :: accumulate a dims) O = (a + sumn dims)%nat.
Proof.
  revert a. induction dims as [|d r IH]; intros a; [simpl; lia|].
  change (accumulate a (d :: r)) with ((a + d)%nat :: accumulate (a + d) r).
  change (last (a :: (a + d)%nat :: accumulate (a + d) r) O) with (last ((a + d)%nat :: accumulate (a + d) r) O).
  rewrite IH. simpl. lia.
Qed.

Lemma total_sum dims : total dims = sumn dims.
Proof. unfold total, cumdims. now rewrite last_accumulate. Qed.

Lemma offsets_nth a dims : forall i s e, nth_error (offsets a dims) i = Some (s, e) ->
  s = (a + sumn (firstn i dims))%nat /\ e = (s + nth i dims O)%nat /\ (i < length dims)%nat.
Proof.
  revert a. induction dims as [|d r IH]; intros a [|i] s e H; simpl in *; try discriminate.
  - inversion H; subst. lia.
  - apply IH in H as (-> & -> & L). lia.
Qed.

Lemma offsets_length a dims : length (offsets a dims) = length dims.
Proof. revert a. induction dims; simpl; auto. Qed.

Lemma firstn_add {A} d m (l : list A) : firstn (d + m) l = firstn d l ++ firstn m (skipn d l).
Proof. revert l. induction d; intros [|x l]; simpl; auto; [now rewrite firstn_nil | now rewrite IHd]. Qed.

Lemma skipn_add {A} a d (l : list A) : skipn (a + d) l = skipn d (skipn a l).
Proof. revert l. induction a; intros [|x l]; simpl; auto. now rewrite skipn_nil. Qed.

Lemma concat_offsets {A} (x : list A) dims : forall a,
  concat (map (slice_of x) (offsets a dims)) = firstn (sumn dims) (skipn a x).
Proof.
  induction dims as [|d r IH]; intros a; simpl; [reflexivity|].
  rewrite IH. unfold slice_of. simpl. replace (a + d - a)%nat with d by lia.
  rewrite firstn_add. f_equal. now rewrite skipn_add.
Qed.

(** stack (unstack x) = x : the slices cover the whole vector, in order, without overlap *)
Lemma stack_unstack {A} dims (x : list A) : length x = total dims -> stack (unstack dims x) = x.
Proof.
  intros L. unfold stack, unstack. rewrite slices_offsets, concat_offsets. simpl.
  rewrite total_sum in L. rewrite <- L. apply firstn_all.
Qed.

Lemma unstack_gen {A} (xs : list (list A)) : forall pre,
  map (slice_of (pre ++ concat xs)) (offsets (length pre) (map (@length _) xs)) = xs.
Proof.
  induction xs as [|x r IH]; intros pre; simpl; [reflexivity|]. f_equal.
  - unfold slice_of. simpl. replace (length pre + length x - length pre)%nat with (length x) by lia.
    rewrite skipn_app, skipn_all, Nat.sub_diag. simpl. rewrite firstn_app, firstn_all, Nat.sub_diag. simpl. apply app_nil_r.
  - specialize (IH (pre ++ x)). rewrite app_length, <- app_assoc in IH. exact IH.
Qed.

(** unstack (stack xs) = xs *)
Lemma unstack_stack {A} dims (xs : list (list A)) : map (@length _) xs = dims -> unstack dims (stack xs) = xs.
Proof. intros <-. unfold unstack, stack. rewrite slices_offsets. apply (unstack_gen xs []). Qed.

Lemma unstack_lengths_gen {A} (x : list A) dims : forall a, (a + sumn dims <= length x)%nat ->
  map (@length _) (map (slice_of x) (offsets a dims)) = dims.
Proof.
  induction dims as [|d r IH]; intros a H; simpl in *; [reflexivity|]. f_equal.
  - unfold slice_of. simpl. rewrite firstn_length, skipn_length. lia.
  - apply IH. lia.
Qed.

(** shapes as declared *)
Lemma unstack_lengths {A} dims (x : list A) : length x = total dims -> map (@length _) (unstack dims x) = dims.
Proof. intros L. unfold unstack. rewrite slices_offsets. apply unstack_lengths_gen. rewrite total_sum in L. lia. Qed.

Lemma sumn_firstn_S i dims : sumn (firstn (S i) dims) = sumn (firstn i dims) + nth i dims O.
Proof.
  revert i. induction dims as [|a r IH]; intros [|i]; simpl; try lia. specialize (IH i). simpl in IH. lia.
Qed.

Lemma sumn_firstn_all dims : sumn (firstn (length dims) dims) = sumn dims.
Proof. now rewrite firstn_all. Qed.

(** the slices are adjacent intervals [s_i, s_i + dims_i) starting at 0 and ending at [total dims] *)
Lemma slices_partition dims :
  length (slices dims) = length dims /\
  forall i s e, nth_error (slices dims) i = Some (s, e) ->
    s = sumn (firstn i dims) /\ e = (s + nth i dims O)%nat /\
    (nth_error (slices dims) (S i) = None -> e = total dims) /\
    (forall s' e', nth_error (slices dims) (S i) = Some (s', e') -> s' = e).
Proof.
  rewrite slices_offsets. split; [apply offsets_length|]. intros i s e H.
  pose proof (offsets_nth _ _ _ _ _ H) as (Hs & He & Hi). simpl in Hs. repeat split; auto.
  - intros Hn. apply nth_error_None in Hn. rewrite offsets_length in Hn. assert (S i = length dims) as Hl by lia.
    rewrite total_sum. subst s e. rewrite <- sumn_firstn_S, Hl. apply sumn_firstn_all.
  - intros s' e' H'. apply offsets_nth in H' as (Hs' & _ & Hi'). simpl in Hs'. subst. apply sumn_firstn_S.
Qed.

(** * 8. affine scaling over R *)
Local Open Scope R_scope.

Definition scal_ok (scal : list (list (R * R))) : Prop := Forall (Forall (fun ls => snd ls <> 0)) scal.

Lemma unscale_scale_1 ls x : snd ls <> 0 -> unscale1 R Rplus Rmult ls (scale1 R Rminus Rdiv ls x) = x.
Proof. intros H. unfold unscale1, scale1. field. exact H. Qed.

Lemma scale_unscale_1 ls z : snd ls <> 0 -> scale1 R Rminus Rdiv ls (unscale1 R Rplus Rmult ls z) = z.
Proof. intros H. unfold unscale1, scale1. field. exact H. Qed.

Lemma map2_length {A B C} (f : A -> B -> C) l1 l2 : length l1 = length l2 -> length (map2 f l1 l2) = length l1.
Proof. intros L. unfold map2. rewrite map_length, combine_length. lia. Qed.

Lemma map2_cons {A B C} (f : A -> B -> C) a l1 b l2 : map2 f (a :: l1) (b :: l2) = f a b :: map2 f l1 l2.
Proof. reflexivity. Qed.

Lemma map2_inverse_inner (f g : R * R -> R -> R) (P : R * R -> Prop) :
  (forall ls x, P ls -> f ls (g ls x) = x) ->
  forall ls xs, length xs = length ls -> Forall P ls -> map2 f ls (map2 g ls xs) = xs.
Proof.
  intros Hfg. induction ls as [|l ls IH]; intros [|x xs] L F; simpl in L; try lia; [reflexivity|].
  inversion F; subst. rewrite !map2_cons. f_equal; auto.
Qed.

Lemma map2_inverse_outer (f g : R * R -> R -> R) (P : R * R -> Prop) :
  (forall ls x, P ls -> f ls (g ls x) = x) ->
  forall scal xs, map (@length _) xs = map (@length _) scal -> Forall (Forall P) scal ->
    map2 (map2 f) scal (map2 (map2 g) scal xs) = xs.
Proof.
  intros Hfg. induction scal as [|s scal IH]; intros [|x xs] L F; simpl in L; try discriminate; [reflexivity|].
  inversion L. inversion F; subst. rewrite !map2_cons. f_equal; auto.
  eapply map2_inverse_inner; eauto.
Qed.

Lemma map2_map2_lengths (g : R * R -> R -> R) : forall scal xs,
  map (@length _) xs = map (@length _) scal -> map (@length _) (map2 (map2 g) scal xs) = map (@length _) scal.
Proof.
  induction scal as [|s scal IH]; intros [|x xs] L; simpl in L; try discriminate; [reflexivity|].
  inversion L. rewrite map2_cons. simpl. f_equal; auto. apply map2_length. congruence.
Qed.

(** unscaling (scaling ips) = ips : the optimiser's start point IS the state's start point *)
Theorem scaling_roundtrip scal ips :
  scal_ok scal -> map (@length _) ips = dims_of _ scal -> unscalingR scal (scalingR scal ips) = ips.
Proof.
  intros Hs L. unfold unscalingR, scalingR, unscaling, scaling.
  rewrite (unstack_stack _ ips L).
  set (Y := map2 (map2 (scale1 R Rminus Rdiv)) scal ips).
  assert (map (@length _) Y = dims_of R scal) as LY by (apply map2_map2_lengths; exact L).
  change (concat Y) with (stack Y). rewrite (unstack_stack _ Y LY).
  unfold Y. rewrite (map2_inverse_outer _ _ (fun ls => snd ls <> 0)); auto.
  - now apply unstack_stack.
  - intros; now apply unscale_scale_1.
Qed.

(** and the other way round: scaling (unscaling z) = z on vectors of the right length *)
Theorem unscaling_roundtrip scal z :
  scal_ok scal -> length z = total (dims_of _ scal) -> scalingR scal (unscalingR scal z) = z.
Proof.
  intros Hs L. unfold unscalingR, scalingR, unscaling, scaling.
  pose proof (unstack_lengths _ z L) as Lu.
  set (U := unstack (dims_of R scal) z) in *.
  set (W := map2 (map2 (unscale1 R Rplus Rmult)) scal U).
  assert (map (@length _) W = dims_of R scal) as LW by (apply map2_map2_lengths; exact Lu).
  change (concat W) with (stack W). rewrite (unstack_stack _ W LW). rewrite (unstack_stack _ W LW).
  unfold W. rewrite (map2_inverse_outer _ _ (fun ls => snd ls <> 0)); auto.
  - unfold U. now apply stack_unstack.
  - intros; now apply scale_unscale_1.
Qed.


Lemma concat_length_sumn {A} (ll : list (list A)) : length (concat ll) = sumn (map (@length _) ll).
Proof. induction ll; simpl; auto. rewrite app_length. lia. Qed.

Lemma unscaling_shape scal z : length z = total (dims_of _ scal) -> map (@length _) (unscalingR scal z) = dims_of _ scal.
Proof.
  intros L. unfold unscalingR, unscaling. apply unstack_lengths.
  rewrite concat_length_sumn, total_sum. f_equal. apply map2_map2_lengths. now apply unstack_lengths.
Qed.

(** * 9. non-worsening under the oracle hypothesis *)
Section Optimise.
  Variable minimise : (list R -> R) -> list R -> list R.

  Theorem non_worsening scal obj start :
    minimise_monotone minimise -> scal_ok scal -> map (@length _) start = dims_of _ scal ->
    obj (personalize_one minimise scal obj start) <= obj start.
  Proof.
    intros Hm Hs L. unfold personalize_one.
    change (obj (unscalingR scal (minimise (obj_std scal obj) (scalingR scal start))))
      with (obj_std scal obj (minimise (obj_std scal obj) (scalingR scal start))).
    eapply Rle_trans; [apply Hm|]. unfold obj_std. rewrite scaling_roundtrip; auto. apply Rle_refl.
  Qed.

  Lemma scaling_length scal ips : map (@length _) ips = dims_of _ scal -> length (scalingR scal ips) = total (dims_of _ scal).
  Proof.
    intros L. unfold scalingR, scaling. rewrite (unstack_stack _ ips L). rewrite concat_length_sumn, total_sum. f_equal.
    apply map2_map2_lengths. exact L.
  Qed.

  Definition minimise_keeps_length : Prop := forall f x0, length (minimise f x0) = length x0.

  Lemma personalize_one_shape scal obj start :
    minimise_keeps_length -> map (@length _) start = dims_of _ scal ->
    map (@length _) (personalize_one minimise scal obj start) = dims_of _ scal.
  Proof. intros Hk L. unfold personalize_one. apply unscaling_shape. rewrite Hk. now apply scaling_length. Qed.

  Lemma map2_nth_error {A B C} (f : A -> B -> C) l1 l2 i a b :
    nth_error l1 i = Some a -> nth_error l2 i = Some b -> nth_error (map2 f l1 l2) i = Some (f a b).
  Proof.
    revert l2 i. induction l1 as [|x l1 IH]; intros [|y l2] [|i] Ha Hb; simpl in *; try discriminate.
    - now inversion Ha; inversion Hb.
    - unfold map2 in *. simpl. now apply IH.
  Qed.

  Theorem personalize_scipy_spec scal ids objs starts out :
    personalize_scipy minimise scal ids objs starts = Ok out ->
    map fst out = map id_string ids /\ all_strings ids /\ NoDup (map fst out) /\ length out = length ids /\
    forall i obj start, nth_error objs i = Some obj -> nth_error starts i = Some start ->
      nth_error (map snd out) i = Some (personalize_one minimise scal obj start).
  Proof.
    unfold personalize_scipy. destruct (forallb _ ids) eqn:Ef; [|discriminate].
    destruct (_ && _) eqn:El; [|discriminate]. apply andb_true_iff in El as [L1 L2].
    apply Nat.eqb_eq in L1, L2. intros H.
    assert (length (map2 (personalize_one minimise scal) objs starts) = length ids) as Lr by (rewrite map2_length; lia).
    assert (from_pytorch ids (map2 (personalize_one minimise scal) objs starts) = Ok out) as Hf.
    { unfold from_pytorch. now rewrite (proj2 (Nat.eqb_eq _ _) Lr). }
    apply from_pytorch_ok in Hf as (Hk & Hr & Hs & Hn & Hl). repeat split; auto.
    intros i obj start Ho Hst. rewrite Hr. now apply map2_nth_error.
  Qed.

  Theorem personalize_scipy_total scal ids objs starts :
    all_strings ids -> NoDup (map id_string ids) -> length objs = length ids -> length starts = length ids ->
    exists out, personalize_scipy minimise scal ids objs starts = Ok out.
  Proof.
    intros Hs Hn L1 L2. unfold personalize_scipy.
    assert (forallb (fun i => match i with StrId _ => true | IntId _ => false end) ids = true) as ->.
    { apply forallb_forall. intros i Hi. unfold all_strings in Hs. rewrite Forall_forall in Hs. destruct (Hs i Hi) as (s & ->). reflexivity. }
    rewrite (proj2 (Nat.eqb_eq _ _) L1), (proj2 (Nat.eqb_eq _ _) L2). simpl.
    apply add_all_total; simpl; rewrite combine_map_fst; auto; rewrite map2_length; lia.
  Qed.
End Optimise.

(** without the hypothesis the clause fails in the model: the code has no guard of its own *)
Lemma non_worsening_needs_hypothesis :
  exists (minimise : (list R -> R) -> list R -> list R) scal obj start,
    scal_ok scal /\ map (@length _) start = dims_of _ scal /\
    ~ (obj (personalize_one minimise scal obj start) <= obj start).
Proof.
  exists (fun _ x0 => map (fun x => x + 1) x0), [[(0, 1)]], (fun ips => match ips with [[x]] => x | _ => 0 end), [[0]].
  repeat split.
  - repeat constructor. simpl. lra.
  - unfold personalize_one, unscalingR, scalingR, unscaling, scaling, unstack, stack, slices, slice_of, map2, unscale1, scale1. simpl. lra.
Qed.

(** * 10. non-vacuity: concrete values meeting the hypotheses *)
Local Close Scope R_scope.
Local Open Scope Q_scope.

(** 4 iterations, burn-in 1, 2 individuals, 2 coordinates; individual 0 has a tie between iterations 2 and 4
    (loss 3): the first one (iteration 2) is returned; iteration 1 (burn-in, loss 0) is never returned. *)
Definition ex_chain : chain := fun k =>
  if (k =? 1)%Z then [mkCell [1; 10] 0 0; mkCell [5; 50] 9 0]
  else if (k =? 2)%Z then [mkCell [2; 20] 1 2; mkCell [6; 60] 4 4]
  else if (k =? 3)%Z then [mkCell [3; 30] 2 2; mkCell [7; 70] 1 1]
  else [mkCell [4; 40] 3 0; mkCell [8; 80] 2 2].
Definition ex_ids : list pid := [StrId "b"; StrId "10"].

Example ex_chain_ok : chain_ok ex_chain 4 (length ex_ids) 2.
Proof.
  intros k Hk. assert (k = 1 \/ k = 2 \/ k = 3 \/ k = 4)%Z as [-> | [-> | [-> | -> ]]] by lia;
    (split; [reflexivity | repeat constructor]).
Qed.
Example ex_ids_ok : all_strings ex_ids /\ NoDup (map id_string ex_ids).
Proof.
  split; [repeat constructor; eauto|]. simpl. constructor; [|constructor; [intros []|constructor]].
  intros [C|[]]. discriminate.
Qed.
Example ex_mode : personalize_mode ex_chain 4 1 ex_ids = Ok [("b"%string, [2; 20]); ("10"%string, [7; 70])].
Proof. vm_compute. reflexivity. Qed.
Example ex_mean_value :
  match personalize_mean ex_chain 4 1 ex_ids 2 with
  | Ok [(_, [a; b]); (_, [c; d])] => Qeq_bool a 3 && Qeq_bool b 30 && Qeq_bool c 7 && Qeq_bool d 70
  | _ => false
  end = true.
Proof. vm_compute. reflexivity. Qed.
Example ex_kept : kept_iterations 4 1 = [2; 3; 4]%Z.
Proof. reflexivity. Qed.

(** integer identifiers (accepted by the reader) are refused by the container: no output at all *)
Lemma integer_ids_refused :
  exists c n nb ids dim, chain_ok c n (length ids) dim /\ (0 <= nb < n)%Z /\ NoDup ids /\
    personalize_mode c n nb ids = Err IdNotAString /\ personalize_mean c n nb ids dim = Err IdNotAString.
Proof.
  exists ex_chain, 4%Z, 1%Z, [IntId 3; IntId 7], 2%nat. split; [exact ex_chain_ok|]. split; [lia|]. split.
  - constructor; [intros [C|[]]; discriminate | constructor; [intros []|constructor]].
  - split; vm_compute; reflexivity.
Qed.

Lemma integer_ids_refused_scipy :
  forall minimise scal objs starts, personalize_scipy minimise scal [IntId 3; IntId 7] objs starts = Err IdNotAString.
Proof. reflexivity. Qed.

Local Close Scope Q_scope.
Local Open Scope R_scope.

(** a non-trivial optimiser that satisfies [minimise_monotone]: try one step, keep it only if not worse *)
Definition ex_minimise (f : list R -> R) (x0 : list R) : list R :=
  let x1 := map (fun x => x - 1) x0 in if Rle_dec (f x1) (f x0) then x1 else x0.
Example ex_minimise_monotone : minimise_monotone ex_minimise /\ minimise_keeps_length ex_minimise.
Proof.
  split; intros f x0; unfold ex_minimise; destruct (Rle_dec _ _); auto; try lra. now rewrite map_length.
Qed.
Example ex_scal_ok : scal_ok [[(0, 1)]; [(70, 5)]; [(0, 1 / 2); (1, 2)]] /\
  map (@length _) [[1 / 4]; [72]; [0; 3]] = dims_of R [[(0, 1)]; [(70, 5)]; [(0, 1 / 2); (1, 2)]].
Proof. split; [repeat constructor; simpl; lra | reflexivity]. Qed.
Example ex_slices : slices [1; 1; 2]%nat = [(0, 1); (1, 2); (2, 4)]%nat /\ total [1; 1; 2]%nat = 4%nat.
Proof. split; reflexivity. Qed.
