(* Proofs about the full public calls of ApiCalls.v (C13).  Same interface hypotheses about one `State` object as
   ApiProofs.v, packaged as the record `state_interface`. *)
From Coq Require Import List Arith Bool Lia ZArith.
From Leaspy Require Import Api.ApiModel Api.ApiProofs Api.ApiCalls.
Import ListNotations.

Section CallsProofs.
  Variable V : Type.
  Variable sread : st V -> nat -> st V * option V.
  Variable swrite : st V -> nat -> option V -> st V.
  Variable sclone : st V -> st V.
  Variable tracked : list nat.
  Variable tape : gen -> nat -> V.
  Variable seed_pos : gen -> nat -> nat.
  Variable anc : nat -> list nat.
  Variable indep : nat -> bool.
  Variable simOn : view -> st V -> st V -> Prop.

  Notation ev := (ev V).
  Notation cfg := (cfg V).
  Notation step := (step V sread swrite sclone tracked tape seed_pos).
  Notation exec := (exec V sread swrite sclone tracked tape seed_pos).
  Notation api_call := (api_call V sread swrite sclone tracked tape seed_pos).
  Notation flow_all := (flow_all V anc).
  Notation same_outcome := (same_outcome V).
  Notation top := ApiModel.top.

  (* ------------------------------------------------------------------ scripts that address late clones only *)
  Lemma from_step k base c c' e :
    clones_from V k e = true -> cCur c < base + k -> base + k <= length (cS c) -> step base c e = Some c' ->
    (forall j, j < base + k -> nth_error (cS c') j = nth_error (cS c) j) /\ cCur c' = cCur c.
  Proof.
    intros Hu Hc Hb Hst. destruct c as [S1 cu p rg lg]; simpl in *.
    destruct e as [r n|r n f|r n f|r|r|g b|g s|r]; simpl in Hst, Hu; try discriminate;
      try (destruct r as [|i]; try discriminate; simpl in Hst);
      try (apply Nat.leb_le in Hu);
      try (destruct (nth_error S1 _) as [s0|] eqn:E; try discriminate);
      try (destruct (f rg)); try (destruct (b rg));
      inversion Hst; subst; simpl; split; auto; intros j Hj;
      try (rewrite nth_error_upd_ne by lia; auto); try (apply nth_error_app1; lia).
  Qed.

  Lemma from_exec k base evs : forall c c',
    forallb (clones_from V k) evs = true -> cCur c < base + k -> base + k <= length (cS c) -> exec base evs c = Some c' ->
    (forall j, j < base + k -> nth_error (cS c') j = nth_error (cS c) j) /\ cCur c' = cCur c.
  Proof.
    induction evs as [|e t IH]; intros c c' Hf Hc Hb He.
    - simpl in He; inversion He; subst; auto.
    - simpl in Hf. apply andb_true_iff in Hf as (H1 & H2). rewrite exec_cons in He.
      destruct (step base c e) as [d|] eqn:Es; try discriminate.
      destruct (from_step k base c d e H1 Hc Hb Es) as (Hk & Hcur).
      pose proof (step_length V sread swrite sclone tracked tape seed_pos _ _ _ _ Es) as Hl.
      destruct (IH d c' H2 ltac:(lia) ltac:(lia) He) as (Hk' & Hcur'). split; [|congruence].
      intros j Hlt. rewrite Hk', Hk; auto.
  Qed.

  (* ------------------------------------------------------------------ generic purity of a call that only addresses clones *)
  Theorem clones_only_pure script s p c' :
    forallb (untouched_ev V) script = true ->
    api_call script s p = Some c' ->
    nth_error (cS c') 0 = Some s /\ cCur c' = 0.
  Proof.
    intros Hu H. unfold ApiModel.api_call in H.
    destruct (untouched_exec V sread swrite sclone tracked tape seed_pos 1 _ (Cfg [s] 0 p [] []) c' Hu
                             ltac:(simpl; lia) ltac:(simpl; lia) H) as (Hk & Hc).
    split; [rewrite Hk by lia; reflexivity | exact Hc].
  Qed.

  (* ------------------------------------------------------------------ estimate for several individuals *)
  Lemma estimate_at_untouched l tvar outs q :
    forallb (untouched_ev V) (estimate_at V l tvar outs q) = true
    /\ forallb (nodraw_ev V) (estimate_at V l tvar outs q) = true.
  Proof.
    unfold estimate_at, sets. split; simpl; (apply forallb_app_true; apply forallb_map_true; auto).
  Qed.

  Lemma estimate_many_untouched tvar outs reqs : forall l,
    forallb (untouched_ev V) (estimate_many V l tvar outs reqs) = true
    /\ forallb (nodraw_ev V) (estimate_many V l tvar outs reqs) = true.
  Proof.
    induction reqs as [|q t IH]; intros l; [split; reflexivity|].
    destruct (estimate_at_untouched l tvar outs q) as (A & B). destruct (IH (S l)) as (C & D).
    simpl estimate_many. split; apply forallb_app_true; auto.
  Qed.

  Lemma estimate_many_one tvar modelvar tin ips :
    estimate_many V 0 tvar [modelvar] [(tin, ips)] = estimate_script V tvar modelvar tin ips.
  Proof. unfold estimate_many, estimate_at, estimate_script, sets. simpl. rewrite app_nil_r. reflexivity. Qed.

  (* the model's State OBJECT is exactly what it was, `model.state` still points to it, no generator moved *)
  Theorem estimate_many_pure tvar outs reqs s p c' :
    api_call (estimate_many V 0 tvar outs reqs) s p = Some c' ->
    nth_error (cS c') 0 = Some s /\ cCur c' = 0 /\ cPos c' = p.
  Proof.
    intros H. destruct (estimate_many_untouched tvar outs reqs 0) as (Hu & Hn).
    destruct (clones_only_pure _ s p c' Hu H) as (A & B). split; auto. split; auto.
    unfold ApiModel.api_call in H. apply (nodraw_exec V sread swrite sclone tracked tape seed_pos _ _ _ _ Hn H).
  Qed.

  (* ------------------------------------------------------------------ calls that only read the model's state *)
  Hypothesis I : state_interface V sread swrite sclone anc indep simOn.

  Theorem readonly_call_pure script s p c' :
    forallb (writes_in V (fun _ => false)) script = true -> simOn top s s ->
    api_call script s p = Some c' ->
    exists s', model_state V c' = Some s' /\ cCur c' = 0 /\ simOn top s' s /\ forall n, snd (sread s' n) = snd (sread s n).
  Proof.
    destruct I. intros Hf Hwf H. unfold ApiModel.api_call in H.
    assert (HW : forall n : nat, (fun _ : nat => false) n = true -> top n = false) by (intros; discriminate).
    assert (Hp0 : prot V simOn top 1 [s] [s]).
    { apply (prot_refl V simOn sim_sym). intros k t Hk E. destruct k; [|lia]. inversion E; subst; auto. }
    destruct (frame_exec V sread swrite sclone tracked tape seed_pos simOn sim_sym sim_trans get_transparent set_frame
                         top (fun _ => false) 1 [s] script HW Hf (Cfg [s] 0 p [] []) c' Hp0 H) as (Hp & Hc).
    simpl in Hc. destruct (Hp 0 s ltac:(lia) eq_refl) as (s' & E & Hsim).
    exists s'. unfold model_state. rewrite Hc. split; auto. split; auto. split; auto.
    intros n. eapply get_determined; eauto. apply all_top_forallb. reflexivity.
  Qed.

  Lemma untouched_writes W e : untouched_ev V e = true -> writes_in V W e = true.
  Proof. destruct e as [r n|r n f|r n f|r|r|g b|g s|r]; simpl; auto; destruct r; auto; discriminate. Qed.

  Lemma scipy_call_readonly sd scal work :
    forallb (untouched_ev V) work = true -> forallb (writes_in V (fun _ => false)) (scipy_call V sd scal work) = true.
  Proof.
    intros Hw. unfold scipy_call, seeded, seed_all. simpl. apply forallb_app_true.
    - apply forallb_map_true. reflexivity.
    - apply forallb_forall. intros e He. rewrite forallb_forall in Hw. apply untouched_writes; auto.
  Qed.

  (* scipy_minimize as it is really called: `model.state` is the same object and every variable reads as before *)
  Theorem scipy_call_pure sd scal work s p c' :
    forallb (untouched_ev V) work = true -> simOn top s s ->
    api_call (scipy_call V sd scal work) s p = Some c' ->
    exists s', model_state V c' = Some s' /\ cCur c' = 0 /\ simOn top s' s /\ forall n, snd (sread s' n) = snd (sread s n).
  Proof. intros Hw. apply readonly_call_pure. apply scipy_call_readonly; auto. Qed.

  (* ------------------------------------------------------------------ MCMC personalisation as it is really called *)
  Theorem mcmc_call_clean (P : view) pre dvars ivars tail s p c' :
    simOn top s s ->
    (forall n, In n (dvars ++ ivars) -> P n = false /\ indep n = true) ->
    forallb (fun e => writes_in V (mem (dvars ++ ivars)) e && noclone_ev V e) pre = true ->
    forallb (clones_from V 1) tail = true ->
    api_call (mcmc_call V pre dvars ivars tail) s p = Some c' ->
    exists sf, model_state V c' = Some sf /\ cCur c' = 1 /\ simOn P sf s /\
               forall n, In n (dvars ++ ivars) -> snd (sread sf n) = None.
  Proof.
    intros Hwf Hvars Hpre Htail H. unfold ApiModel.api_call, mcmc_call in H.
    rewrite app_assoc, exec_app in H.
    destruct (exec 1 (pre ++ terminate_script V 0 dvars ivars) (Cfg [s] 0 p [] [])) as [d|] eqn:Ed; try discriminate.
    assert (Hm : ApiModel.api_call V sread swrite sclone tracked tape seed_pos (mcmc_script V [] [] pre dvars ivars) s p = Some d).
    { unfold ApiModel.api_call, mcmc_script. simpl. exact Ed. }
    destruct I.
    destruct (mcmc_clean V sread swrite sclone tracked tape seed_pos anc indep simOn sim_sym sim_trans sim_mono get_transparent
                         get_determined set_agree set_frame set_get clone_isolated anc_indep
                         P [] [] pre dvars ivars s p d Hwf Hvars ltac:(intros ? []) ltac:(intros ? []) Hpre Hm)
      as (sf & Ms & Mc & Msim & Mun).
    unfold model_state in Ms. rewrite Mc in Ms.
    destruct (from_exec 1 1 tail d c' Htail ltac:(lia) ltac:(apply nth_error_lt in Ms; lia) H) as (Hk & Hc).
    exists sf. unfold model_state. rewrite Hc, Mc, Hk by lia. auto.
  Qed.

  (* ------------------------------------------------------------------ a seeded call is a function of the seed, not of the past *)
  Lemma flow_seeded fs sd body : flow_all 1 fs (seeded V sd body) = flow_all 1 fs body.
  Proof. destruct fs as [vs cur]. reflexivity. Qed.

  Theorem seeded_call_function_of_seed (kept : view) sd body s s' p p' :
    simOn kept s s' ->
    flow_all 1 ([kept], 0) body <> None ->
    orel same_outcome (api_call (seeded V sd body) s p) (api_call (seeded V sd body) s' p').
  Proof.
    intros Hs Hf. destruct I.
    assert (E : api_call (seeded V sd body) s' p' = api_call (seeded V sd body) s' p).
    { unfold ApiModel.api_call, seeded.
      rewrite (reseed_call V sread swrite sclone tracked tape seed_pos 1 sd body (Cfg [s'] 0 p' [] []) p). reflexivity. }
    rewrite E.
    eapply (history_independent V sread swrite sclone tracked tape seed_pos anc simOn); eauto.
  Qed.

  (* the answer of a repeated call: whatever state `s1` the first call left (provided it agrees with the former one on the
     kept variables — what the purity / cleaning theorems give) and wherever it left the generators *)
  Theorem repeated_call_same_answer (kept : view) sd body s s1 p c1 :
    simOn kept s1 s ->
    flow_all 1 ([kept], 0) body <> None ->
    api_call (seeded V sd body) s p = Some c1 ->
    orel same_outcome (api_call (seeded V sd body) s1 (cPos c1)) (Some c1).
  Proof.
    intros Hs Hf H. pose proof (seeded_call_function_of_seed kept sd body s1 s (cPos c1) p Hs Hf) as Hx.
    rewrite H in Hx. exact Hx.
  Qed.

  (* ------------------------------------------------------------------ MCMC personalisation: clean AND repeatable *)
  Lemma mcmc_full_seeded sd data init_ind body dvars ivars tail :
    mcmc_full V sd data init_ind body dvars ivars tail
    = seeded V sd (map (fun nv => ESet Cur (fst nv) (konst V (snd nv))) data
                   ++ map (fun nf => ESet Cur (fst nf) (snd nf)) init_ind
                   ++ (body ++ terminate_script V 0 dvars ivars ++ tail)).
  Proof. unfold mcmc_full, mcmc_call, seeded, sets. rewrite <- !app_assoc. reflexivity. Qed.

  Theorem mcmc_repeat_same_answer (kept : view) sd data init_ind body dvars ivars tail s p c1 :
    simOn top s s ->
    (forall n, In n (dvars ++ ivars) -> kept n = false /\ indep n = true) ->
    (forall nv, In nv data -> In (fst nv) (dvars ++ ivars)) ->
    (forall nf, In nf init_ind -> In (fst nf) (dvars ++ ivars)) ->
    forallb (fun e => writes_in V (mem (dvars ++ ivars)) e && noclone_ev V e) body = true ->
    forallb (clones_from V 1) tail = true ->
    closed anc (vadds (map fst init_ind) (vadds (map fst data) kept)) ->
    api_call (mcmc_full V sd data init_ind body dvars ivars tail) s p = Some c1 ->
    exists s1, model_state V c1 = Some s1 /\ cCur c1 = 1 /\ simOn kept s1 s
               /\ (forall n, In n (dvars ++ ivars) -> snd (sread s1 n) = None)
               /\ orel same_outcome (api_call (mcmc_full V sd data init_ind body dvars ivars tail) s1 (cPos c1)) (Some c1).
  Proof.
    intros Hwf Hvars Hdata Hinit Hbody Htail Hcl H.
    assert (Hpre : forallb (fun e => writes_in V (mem (dvars ++ ivars)) e && noclone_ev V e)
                           (seed_all V sd ++ sets V Cur data ++ map (fun nf => ESet Cur (fst nf) (snd nf)) init_ind ++ body) = true).
    { apply forallb_app_true; [reflexivity|]. apply forallb_app_true; [|apply forallb_app_true; auto].
      - apply forallb_forall. intros e He. apply in_map_iff in He as (nv & <- & Hin). simpl.
        rewrite andb_true_r. apply mem_In; auto.
      - apply forallb_forall. intros e He. apply in_map_iff in He as (nv & <- & Hin). simpl.
        rewrite andb_true_r. apply mem_In; auto. }
    destruct (mcmc_call_clean kept _ dvars ivars tail s p c1 Hwf Hvars Hpre Htail H) as (s1 & A & B & C & D).
    exists s1. repeat (split; auto).
    rewrite mcmc_full_seeded in *. eapply repeated_call_same_answer; eauto.
    destruct I.
    rewrite (flow_sets_cur V anc fst (fun nv => konst V (snd nv))). rewrite (flow_sets_cur V anc fst snd).
    apply (flow_covers V anc) with (U := vadds (map fst init_ind) (vadds (map fst data) kept)); auto.
    intros k v Hv m Hm. destruct k as [|[|k]]; simpl in Hv; try discriminate. inversion Hv; subst; auto.
  Qed.
End CallsProofs.
