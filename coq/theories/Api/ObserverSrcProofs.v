(* C11 — a script that realises a list of allowed abstract operations is `read_only` (the predicate of ApiModel.v the C11
   theorems use); the canonical realisation; non-vacuity. *)
From Coq Require Import List Bool String.
From Leaspy Require Import Api.ApiModel Api.ApiProofs Api.ApiInst Api.RunProg Api.ObserverSrc.
Import ListNotations.

Section ObsProofs.
  Variable V : Type.

  Lemma allowed_event_read_only op e : op_allowed op = true -> ev_of_op V op e = true -> read_only_ev V e = true.
  Proof.
    destruct op; simpl; try discriminate; intros _;
      destruct e as [[|i] n|[|i] n f|[|i] n f|[|i]|[|i]|g b|g s|r]; simpl; auto; discriminate.
  Qed.

  Theorem realises_read_only ops s : ops_allowed ops = true -> realises V ops s = true -> read_only V s = true.
  Proof.
    intros Ha R. unfold realises in R. unfold read_only. rewrite forallb_forall in *. intros e He.
    specialize (R e He). apply existsb_exists in R as (op & Hop & Hk).
    eapply allowed_event_read_only; eauto. unfold ops_allowed in Ha. rewrite forallb_forall in Ha. auto.
  Qed.

  (* the converse direction that matters: an operation kind that is not allowed HAS a realisation that is not read-only
     (except `OWriteAlgo`, which the event model cannot express) *)
  Theorem forbidden_op_not_read_only op :
    op_allowed op = false -> op <> OWriteAlgo ->
    exists e, ev_of_op V op e = true /\ read_only_ev V e = false.
  Proof.
    destruct op; simpl; try discriminate; intros _ H.
    - exists (@ESet V Cur 0 (fun _ => None)); auto.
    - congruence.
    - exists (@EReplace V Cur); auto.
    - exists (@EDraw V GTorch (fun _ => true)); auto.
    - exists (@ESeed V GTorch 0); auto.
  Qed.

  Lemma den1_kind vars mv w op : forallb (ev_of_op V op) (den1 V vars mv w op) = true.
  Proof.
    destruct op; simpl; auto; try (apply forallb_forall; intros e He; apply in_map_iff in He as (k & <- & _); reflexivity).
  Qed.

  Lemma realises_app ops s1 s2 : realises V ops (s1 ++ s2) = realises V ops s1 && realises V ops s2.
  Proof. unfold realises. apply forallb_app. Qed.

  Lemma realises_weaken op ops s : realises V ops s = true -> realises V (op :: ops) s = true.
  Proof.
    unfold realises. rewrite !forallb_forall. intros H e He. simpl. rewrite (H e He). apply orb_true_r.
  Qed.

  Theorem den_realises vars mv w ops : realises V ops (den V vars mv w ops) = true.
  Proof.
    induction ops as [|op ops IH]; simpl; [reflexivity|].
    unfold den in *. rewrite realises_app. apply andb_true_iff. split; [|apply realises_weaken; exact IH].
    unfold realises. pose proof (den1_kind vars mv w op) as H. rewrite forallb_forall in *. intros e He.
    simpl. rewrite (H e He). reflexivity.
  Qed.

  Corollary den_read_only vars mv w ops : ops_allowed ops = true -> read_only V (den V vars mv w ops) = true.
  Proof. intros H. eapply realises_read_only; eauto. apply den_realises. Qed.
End ObsProofs.

(* ---------------------------------------------------------------------- non-vacuity (fixed lists, not the generated ones) *)
Module ObsDemo.
  Open Scope string_scope.
  Definition plot_patient : list obs_op :=
    [OReadModel; OReadState "xi"; OReadState "tau"; OWriteOwn; OCloneAndRead; OWriteOwn].
  Definition vars (s : string) : list nat := if String.eqb s "xi" then [0] else if String.eqb s "tau" then [1] else [].

  Example allowed : ops_allowed plot_patient = true.
  Proof. reflexivity. Qed.

  (* the realisation really contains a read of the model's state, a clone and an assignment on the clone *)
  Example realisation :
    den nat vars [2] (fun _ => Some 7) plot_patient
    = [@EGet nat Cur 2; @EGet nat Cur 0; @EGet nat Cur 1; @EClone nat Cur; @ESet nat (Loc 0) 2 (fun _ => Some 7); @EGet nat (Loc 0) 2].
  Proof. reflexivity. Qed.

  Example read_only_holds : read_only nat (den nat vars [2] (fun _ => Some 7) plot_patient) = true.
  Proof. reflexivity. Qed.

  (* the three mutations of the brief: each gives an operation list that is refused, and a realisation that is not read-only *)
  Definition mut_algo : list obs_op := [OReadModel; OWriteAlgo].
  Definition mut_state : list obs_op := plot_patient ++ [OWriteState "xi"].
  Definition mut_draw : list obs_op := [OReadState "*"; ODraw; OSaveState].
  Example mutants_refused :
    ops_allowed mut_algo = false /\ ops_allowed mut_state = false /\ ops_allowed mut_draw = false
    /\ read_only nat (den nat vars [2] (fun _ => Some 7) mut_state) = false
    /\ read_only nat (den nat vars [2] (fun _ => Some 7) mut_draw) = false.
  Proof. repeat split; reflexivity. Qed.
End ObsDemo.
