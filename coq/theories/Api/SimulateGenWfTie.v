(** C18 — the generation program REGENERATED from simulate.py ([GenC18.gen_prog_src]) is well-formed ([prog_wf], decided by
    computation on the regenerated value, not on the hand-written [model_prog]), hence the generation of the current source
    never takes a [GCrash] branch on an accepted design, except for the two listed families: a [bool] count (F10d) and
    non-string IDs in a visit table (F10g/h).  For every arithmetic, every number of sources and every tape. *)
From Coq Require Import ZArith QArith Qabs Bool List String Lia.
From Leaspy Require Import Base.QAux Api.Simulate Api.SimulateProofs Api.SimulateTie Api.SimulateGen Api.SimulateGenProofs
  Api.SimulateGenTie Api.SimulateGenWf Api.SimulateGenWfProofs.
From LeaspyGen Require Import GenC18.
Import ListNotations.
Open Scope string_scope.

(** every column expression of the regenerated program names columns assigned before it, sized draws only; the loop step uses
    [time] and scalar draws only; the loop's start / end columns are assigned; the parameter columns are plain sized draws *)
Lemma tie_prog_wf : prog_wf gen_prog_src = true /\ ip_draws_only gen_prog_src = true /\ List.length (gp_ip gen_prog_src) = 2%nat.
Proof. repeat split; reflexivity. Qed.

Lemma tie_precision_init_int : gen_precision_init = Some 3%Z.
Proof. reflexivity. Qed.

Section Arith.
  Variable T : Type.
  Variable add : T -> T -> T.
  Variable absT : T -> T.
  Variable ltb : T -> T -> bool.
  Variable key : Z -> T -> Z.
  Variable ofQ : Q -> T.
  Notation gen_generate := (gen_generate T add absT ltb key ofQ).

  (** the exact crash set of the generation on an accepted design *)
  Definition gen_crash_family (vt : vtype) (ps : dict) : Prop :=
    match vt with
    | VtRandom => exists b, lookup "patient_number" ps = Some (VBool b)
    | VtDataframe => exists f, lookup "df_visits" ps = Some (VFrame f) /\ all_string_ids f = false
    | VtOther => False
    end.

  Theorem gen_never_crashes nsrc d ps vt tp :
    construct d = Ok ps -> d_visit_type d = Some vt ->
    (gen_generate nsrc vt ps tp = GCrash <-> gen_crash_family vt ps) /\
    (gen_generate nsrc vt ps tp = GCrash \/ gen_generate nsrc vt ps tp = GExhausted \/ gen_generate nsrc vt ps tp = GMismatch \/
     exists o, gen_generate nsrc vt ps tp = GOk o).
  Proof.
    intros C V. split.
    - unfold SimulateGenTie.gen_generate. rewrite tie_precision_init_int. destruct vt.
      + apply (generate_random_crash_iff T add absT ltb key ofQ _ _ _ _ nsrc d ps tp (proj1 tie_prog_wf) C V).
      + destruct (generate_table_crash_iff T add absT ltb key ofQ gen_rounding_options 3%Z gen_default_spacing gen_prog_src
                                           nsrc d ps tp (proj1 tie_prog_wf) C V) as (f & Hf & H).
        rewrite H. simpl. split.
        * intros A. exists f. auto.
        * intros (f' & Hf' & A). rewrite Hf in Hf'. injection Hf' as <-. exact A.
      + exfalso. exact (accepted_not_other d ps C V).
    - destruct (gen_generate nsrc vt ps tp) as [o| | |]; eauto.
  Qed.

  (** integer count / string IDs: never a crash; the outcome is the generated table, or [GExhausted] when the tape ends before
      the visit loop does, or [GMismatch] when the next element of the tape is not of the kind / size the code asks for *)
  Corollary gen_random_no_crash nsrc d ps n tp :
    construct d = Ok ps -> d_visit_type d = Some VtRandom -> lookup "patient_number" ps = Some (VInt n) ->
    gen_generate nsrc VtRandom ps tp <> GCrash.
  Proof.
    intros C V Hn X. apply (gen_never_crashes nsrc d ps VtRandom tp C V) in X. destruct X as (b & X). congruence.
  Qed.

  (** a table design with string IDs on a tape holding one vector of [n_groups] values per parameter column
      ((2 + sources) vectors: (2 + sources)·n_groups draws): the generation COMPLETES and consumes exactly those *)
  Theorem gen_table_total nsrc d ps f vs rest :
    construct d = Ok ps -> d_visit_type d = Some VtDataframe ->
    lookup "df_visits" ps = Some (VFrame f) -> all_string_ids f = true ->
    List.length vs = (2 + nsrc)%nat -> Forall (fun v : list T => List.length v = n_groups f) vs ->
    exists o, gen_generate nsrc VtDataframe ps (vec_tape vs rest) = GOk o /\ go_rest o = rest /\
              map fst (go_requested o) = table_ids f /\
              consumed T (vec_tape vs rest) o = ((2 + nsrc) * n_groups f)%nat.
  Proof.
    intros C V Hf A L F. unfold SimulateGenTie.gen_generate. rewrite tie_precision_init_int.
    destruct (generate_table_total T add absT ltb key ofQ gen_rounding_options 3%Z gen_default_spacing gen_prog_src nsrc d ps vs rest
                (proj1 (proj2 tie_prog_wf)) C V f Hf A L F) as (o & E & R & I).
    exists o. split; [exact E|]. split; [exact R|]. split; [exact I|].
    assert (E' : gen_generate nsrc VtDataframe ps (vec_tape vs rest) = GOk o).
    { unfold SimulateGenTie.gen_generate. rewrite tie_precision_init_int. exact E. }
    destruct (gen_table_accepted T add absT ltb key ofQ nsrc d ps _ o C V E') as (f' & Hps & _ & _ & _ & _ & Hc).
    rewrite Hps in Hf. simpl in Hf. injection Hf as ->. exact Hc.
  Qed.
End Arith.

(** non-vacuity (exact rationals): the accepted designs of SimulateGenTie run without a crash; a [bool] count and a table with
    integer IDs are accepted and crash; a short tape gives [GExhausted] *)
Example ex_never_crashes :
  (exists ps, construct (table_design ex_frame) = Ok ps /\
     exists o, gen_generate_Q 1%nat VtDataframe ps (vec_tape [[0; 0]; [70; 71]; [1; -1]] [DScal 5]) = GOk o /\ go_rest o = [DScal 5]) /\
  gen_generate_Q 1%nat VtRandom ex_ps (firstn 7 ex_tape) = GExhausted /\
  gen_generate_Q 1%nat VtRandom ex_ps [DScal 0] = GMismatch /\
  (exists ps, construct {| d_features := FsList [FStr "y"]; d_visit_type := Some VtRandom;
                           d_params := good_params (VBool true) [] |} = Ok ps /\
     gen_generate_Q 1%nat VtRandom ps ex_tape = GCrash) /\
  (exists ps, construct (table_design {| has_id := true; has_time := true; rows := [(IdInt 1, Some 60)] |}) = Ok ps /\
     gen_generate_Q 1%nat VtDataframe ps [DVec [0]; DVec [70]; DVec [1]] = GCrash).
Proof.
  split; [eexists; split; [reflexivity|]; eexists; split; [vm_compute; reflexivity | reflexivity]|].
  split; [vm_compute; reflexivity|]. split; [vm_compute; reflexivity|].
  split; eexists; (split; [reflexivity | vm_compute; reflexivity]).
Qed.

(** [prog_wf] is not vacuous: single-site variants of the program of the source are rejected — the follow-up column computed
    from a column that is not assigned (yet), the loop's end column misspelt, a sized draw inside the visit loop, the baseline
    column computed from the follow-up column (assigned later); the interpreter crashes on the first of them *)
Definition with_cols (cs : list (string * cexpr)) : gen_prog :=
  {| gp_ip := gp_ip model_prog; gp_source := gp_source model_prog; gp_cols := cs; gp_loop := gp_loop model_prog |}.
Definition with_loop (lp : loop_prog) : gen_prog :=
  {| gp_ip := gp_ip model_prog; gp_source := gp_source model_prog; gp_cols := gp_cols model_prog; gp_loop := lp |}.

Example prog_wf_rejects :
  prog_wf (with_cols [("AGE_AT_BASELINE", CAdd (CCol "tau") (CDraw call_baseline));
                      ("AGE_FOLLOW_UP", CAdd (CCol "AGE_BASELINE") (CAbs (CDraw call_followup)))]) = false /\
  prog_wf (with_cols [("AGE_AT_BASELINE", CAdd (CCol "AGE_FOLLOW_UP") (CDraw call_baseline));
                      ("AGE_FOLLOW_UP", CAdd (CCol "AGE_AT_BASELINE") (CAbs (CDraw call_followup)))]) = false /\
  prog_wf (with_loop {| lp_start := "AGE_AT_BASELINE"; lp_end := "AGE_FOLLOWUP"; lp_step := lp_step model_loop; lp_keep_start := true |}) = false /\
  prog_wf (with_loop {| lp_start := "AGE_AT_BASELINE"; lp_end := "AGE_FOLLOW_UP";
                        lp_step := CAdd CTime (CDraw (PStudy "distance_visit_mean", PStudy "distance_visit_std", SzN));
                        lp_keep_start := true |}) = false /\
  run_random Q Qplus Qabs Qlt_bool
             (with_cols [("AGE_AT_BASELINE", CAdd (CCol "tau") (CDraw call_baseline));
                         ("AGE_FOLLOW_UP", CAdd (CCol "AGE_BASELINE") (CAbs (CDraw call_followup)))]) 2 1 ex_tape = GCrash.
Proof. repeat split; vm_compute; reflexivity. Qed.
