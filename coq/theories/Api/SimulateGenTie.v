(** C18 — the generation program regenerated from simulate.py / base.py (gen/GenC18.v: [gen_prog_src], [gen_run_order]) is the
    model's, and the theorems of SimulateGenProofs.v stated on the regenerated constants: for every arithmetic and every tape. *)
From Coq Require Import ZArith QArith Qabs Bool List String Lia Lqa Sorted Permutation.
From Leaspy Require Import Base.QAux Api.Simulate Api.SimulateProofs Api.SimulateTie Api.SimulateGen Api.SimulateGenProofs.
From LeaspyGen Require Import GenC18.
Import ListNotations.
Open Scope string_scope.

(** which distribution, which parameters, which size, in which order; the columns; the loop *)
Lemma tie_gen_prog : gen_prog_src = model_prog.
Proof. reflexivity. Qed.

(** [_run]: parameters drawn first, then the visit ages, then the dataset (rounding, de-duplication), then ingestion (sort) *)
Lemma tie_run_order :
  gen_run_order = ["self._sample_individual_parameters_from_model_parameters"; "self._get_leaspy_model";
                   "self._generate_visit_ages"; "self._generate_dataset"; "Data.from_dataframe"].
Proof. reflexivity. Qed.

Section Arith.
  Variable T : Type.
  Variable add : T -> T -> T.
  Variable absT : T -> T.
  Variable ltb : T -> T -> bool.
  Variable key : Z -> T -> Z.
  Variable ofQ : Q -> T.

  (** the generation of the current source *)
  Definition gen_generate := generate T add absT ltb key ofQ gen_rounding_options gen_precision_init gen_default_spacing gen_prog_src.

  Lemma gen_precision_range nsrc vt ps tp o :
    gen_generate nsrc vt ps tp = GOk o -> (0 <= go_precision o <= 3)%Z.
  Proof.
    unfold gen_generate, generate. destruct vt; [| |discriminate].
    - destruct (lookup "patient_number" ps) as [[n| | | | |]|]; try discriminate.
      destruct (min_spacing_of gen_default_spacing ps) as [ms|]; [|discriminate].
      destruct (precision_total_gen ms) as (p & E & Hp). rewrite E.
      destruct (n <? 0)%Z; [discriminate|].
      destruct (run_random _ _ _ _ _ _ _ _) as [[[out r] g]| | |]; simpl; try discriminate. intros [= <-]. exact Hp.
    - destruct (lookup "df_visits" ps) as [[| | | | |f]|]; try discriminate.
      destruct (precision_total_gen gen_default_spacing) as (p & E & Hp). rewrite E.
      destruct (run_table _ _ _ _ _ _ _ _) as [[[out r] g]| | |]; simpl; try discriminate. intros [= <-]. exact Hp.
  Qed.

  (** random design *)
  Lemma gen_random nsrc ps tp o :
    gen_generate nsrc VtRandom ps tp = GOk o ->
    exists n ms, lookup "patient_number" ps = Some (VInt n) /\ (0 <= n)%Z /\ min_spacing_of gen_default_spacing ps = Some ms /\
      gen_precision ms = Some (go_precision o) /\
      map fst (go_ages o) = ids_random (Z.to_nat n) /\ List.length (go_ages o) = Z.to_nat n /\
      ages_wellformed T key o /\
      consumed T tp o = ((4 + nsrc) * Z.to_nat n + later_visits (go_requested o))%nat /\
      go_calls o = calls_random nsrc (later_visits (go_requested o)).
  Proof.
    intros H. unfold gen_generate in H.
    apply (generate_random T add absT ltb key ofQ _ _ _ gen_prog_src eq_refl nsrc ps tp o) in H.
    destruct H as (n & ms & H1 & H2 & H3 & H4 & H5 & H6 & H7 & H8 & H9). exists n, ms.
    rewrite tie_gen_prog in H9. rewrite ip_calls_model, loop_calls_model in H9.
    assert (C : go_calls o = calls_random nsrc (later_visits (go_requested o))) by (rewrite H9; reflexivity).
    repeat (split; [assumption|]). split; [|exact C].
    unfold consumed. rewrite H8, C, calls_draws_random. lia.
  Qed.

  (** table design *)
  Lemma gen_table nsrc ps tp o :
    gen_generate nsrc VtDataframe ps tp = GOk o ->
    existsb (fun r => match snd r with None => true | Some _ => false end)
            (match lookup "df_visits" ps with Some (VFrame f) => rows f | _ => [] end) = false ->
    exists f, lookup "df_visits" ps = Some (VFrame f) /\ all_string_ids f = true /\
      gen_precision gen_default_spacing = Some (go_precision o) /\ go_precision o = 3%Z /\
      map fst (go_ages o) = table_ids f /\ NoDup (map fst (go_ages o)) /\ List.length (go_ages o) = n_groups f /\
      ages_wellformed T key o /\
      (forall id ks, In (id, ks) (go_ages o) ->
         forall k, In k ks <-> exists q, In (IdStr id, Some q) (rows f) /\ k = key (go_precision o) (ofQ q)) /\
      consumed T tp o = ((2 + nsrc) * n_groups f)%nat /\
      go_calls o = calls_ip nsrc.
  Proof.
    intros H Hn. unfold gen_generate in H.
    apply (generate_table T add absT ltb key ofQ _ _ _ gen_prog_src nsrc ps tp o) in H; [|exact Hn].
    destruct H as (f & H1 & H2 & H3 & H4 & H5 & H6 & H7 & H8 & H9 & H10). exists f.
    rewrite tie_gen_prog, ip_calls_model in H9, H10.
    split; [assumption|]. split; [assumption|]. split; [exact H3|].
    split; [pose proof default_precision as D; rewrite D in H3; now injection H3|].
    repeat (split; [assumption|]). split; [|exact H10].
    unfold consumed. rewrite H9, calls_draws_ip. lia.
  Qed.

  (** every ACCEPTED table design: the hypothesis of [gen_table] is what the constructor validated, and the number of simulated
      individuals is the stored [patient_number] *)
  Lemma gen_table_accepted nsrc d ps tp o :
    construct d = Ok ps -> d_visit_type d = Some VtDataframe ->
    gen_generate nsrc VtDataframe ps tp = GOk o ->
    exists f, ps = [("patient_number", VInt (Z.of_nat (n_groups f))); ("df_visits", VFrame f)] /\
      List.length (go_ages o) = n_groups f /\ map fst (go_ages o) = table_ids f /\ ages_wellformed T key o /\
      (forall id ks, In (id, ks) (go_ages o) ->
         forall k, In k ks <-> exists q, In (IdStr id, Some q) (rows f) /\ k = key 3%Z (ofQ q)) /\
      consumed T tp o = ((2 + nsrc) * n_groups f)%nat.
  Proof.
    intros C V H. destruct (accepted_table d ps C V) as (f & -> & Hn).
    destruct (gen_table nsrc _ tp o H Hn) as (f' & E & _ & _ & Hp & Hi & _ & Hl & Hw & Ha & Hc & _).
    simpl in E. injection E as <-. exists f. rewrite Hp in Ha.
    split; [reflexivity|]. split; [exact Hl|]. split; [exact Hi|]. split; [exact Hw|]. split; [exact Ha | exact Hc].
  Qed.
End Arith.

(* ------------------------------------------------------------------------------------------ *)
(** * witnesses (exact-rational instance) *)

Definition gen_generate_Q := gen_generate Q Qplus Qabs Qlt_bool Q_key (fun q => q).

(** 2 individuals, 1 source, spacing 1/5 (precision 1): the tape holds xi, tau, the source, the baseline and follow-up draws, then
    the spacing draws of individual "0" (three: the third passes the follow-up age) and of individual "1" (one). *)
Definition ex_ps : dict := good_params (VInt 2) [("min_spacing_between_visits", VFloat (1 # 5))].
Definition ex_tape : list (draw Q) :=
  [DVec [0; 0]; DVec [70; 71]; DVec [1; -1]; DVec [3 # 10; -1 # 4]; DVec [1; -1 # 2];
   DScal (52 # 100); DScal (2 # 100); DScal (6 # 10); DScal (1 # 2)].

(** non-vacuity of [gen_random]: the generation completes, the second and third ages of "0" (70.82, 70.84) collide at one decimal *)
Example ex_random_generation :
  exists o, gen_generate_Q 1%nat VtRandom ex_ps ex_tape = GOk o /\
    go_precision o = 1%Z /\
    map (fun it => (fst it, List.length (snd it))) (go_requested o) = [("0", 4%nat); ("1", 2%nat)] /\
    go_ages o = [("0", [703; 708; 714]); ("1", [708; 712])]%Z /\ go_rest o = [] /\
    go_calls o = calls_random 1 4 /\ consumed Q ex_tape o = 14%nat.
Proof. eexists. split; [vm_compute; reflexivity|]. vm_compute. repeat split; reflexivity. Qed.

Definition ex_frame : frame :=
  {| has_id := true; has_time := true;
     rows := [(IdStr "b", Some (702504 # 10000)); (IdStr "a", Some 60); (IdStr "b", Some (655 # 10)); (IdStr "a", Some 59);
              (IdStr "b", Some (702496 # 10000))] |}.

(** non-vacuity of [gen_table]: the design goes through the constructor; "b" has two ages that collide at 3 decimals *)
Example ex_table_generation :
  exists ps o, construct (table_design ex_frame) = Ok ps /\
    gen_generate_Q 1%nat VtDataframe ps [DVec [0; 0]; DVec [70; 71]; DVec [1; -1]] = GOk o /\
    go_ages o = [("b", [65500; 70250]); ("a", [59000; 60000])]%Z /\ go_rest o = [] /\ go_calls o = calls_ip 1.
Proof. eexists. eexists. split; [reflexivity|]. split; [vm_compute; reflexivity|]. vm_compute. repeat split; reflexivity. Qed.

(** the number of draws a RANDOM design consumes is not a function of the design: same design, two tapes *)
Lemma draws_random_not_design_only :
  exists ps tp1 tp2 o1 o2,
    gen_generate_Q 1%nat VtRandom ps tp1 = GOk o1 /\ gen_generate_Q 1%nat VtRandom ps tp2 = GOk o2 /\
    go_rest o1 = [] /\ go_rest o2 = [] /\ consumed Q tp1 o1 <> consumed Q tp2 o2.
Proof.
  exists ex_ps, ex_tape,
    [DVec [0; 0]; DVec [70; 71]; DVec [1; -1]; DVec [3 # 10; -1 # 4]; DVec [1; -1 # 2]; DScal 2; DScal (1 # 2)].
  eexists. eexists. split; [vm_compute; reflexivity|]. split; [vm_compute; reflexivity|]. vm_compute.
  repeat split; discriminate.
Qed.
