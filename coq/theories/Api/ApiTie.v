(* Executable side of the tie for C11 / C13 (definitions only, run with vm_compute from harness/props/c11.py, c13.py).

   A recorded operation of the implementation (harness/recorder.py) is a triple of numbers `(kind, ref, var)`:
     kind 0 get | 1 set | 2 set to None | 3 clone | 4 save | 5 revert | 6 rng draw | 7 rng seed | 8 model.state := | 9 is_variable_set
     ref  0 = the model's state (`Cur`) | i+1 = the i-th state created (cloned) inside the call / observer (`Loc i`)
     var  index of the variable in the name-sorted list of the DAG; for kinds 6/7 the generator (0 python, 1 numpy, 2 torch)
   `decode` maps it to an event of ApiModel.v over `unit` values; the predicates the THEOREMS are about (`read_only_ev`,
   `untouched_ev`, `writes_in`, `flow_all`) are then evaluated on the decoded recorded traces. *)
From Coq Require Import List Arith Bool.
From Leaspy Require Import Api.ApiModel Api.ApiInst.
Import ListNotations.

Definition rop := (nat * nat * nat)%type.
Definition U := unit.
Definition dref (r : nat) : ref := match r with 0 => Cur | S i => Loc i end.
Definition dgen (g : nat) : gen := match g with 0 => GPy | 1 => GNp | _ => GTorch end.

Definition decode (e : rop) : option (ev U) :=
  match e with
  | (0, r, n) => Some (EGet (dref r) n)
  | (1, r, n) => Some (ESet (dref r) n (fun _ => Some tt))
  | (2, r, n) => Some (ESet (dref r) n (fun _ => None))
  | (3, r, _) => Some (EClone (dref r))
  | (4, r, _) => Some (ESave (dref r))
  | (5, r, n) => Some (ESet (dref r) n (fun _ => Some tt))   (* revert = assignment of the former value (C02) *)
  | (6, _, g) => Some (EDraw (dgen g) (fun _ => true))
  | (7, _, g) => Some (ESeed (dgen g) 0)
  | (8, r, _) => Some (EReplace (dref r))
  | (9, r, n) => Some (EGet (dref r) n)                      (* is_variable_set: a read of the set/unset status *)
  | _ => None
  end.

Fixpoint decode_all (l : list rop) : option (list (ev U)) :=
  match l with
  | [] => Some []
  | e :: t => match decode e, decode_all t with Some d, Some r => Some (d :: r) | _, _ => None end
  end.

Definition rop_eqb (a b : rop) : bool :=
  match a, b with (k, r, n), (k', r', n') => (k =? k') && (r =? r') && (n =? n') end.
Fixpoint list_eqb {A} (eqb : A -> A -> bool) (l l' : list A) : bool :=
  match l, l' with
  | [], [] => true
  | x :: t, y :: t' => eqb x y && list_eqb eqb t t'
  | _, _ => false
  end.

(* ---------------------------------------------------------------------- C11 *)
(* a recorded observer call is an observer script in the model's sense *)
Definition observer_ok (o : list rop) : bool :=
  match decode_all o with Some d => read_only U d | None => false end.

Definition is_rng (e : rop) : bool := match e with (6, _, _) | (7, _, _) => true | _ => false end.

(* the first three generator events of a run are the three seeds, in the order of `seed_all` *)
Definition seeds_first (t : list rop) : bool :=
  match decode_all (firstn 3 (filter is_rng t)) with
  | Some [ESeed GPy _; ESeed GNp _; ESeed GTorch _] => true
  | _ => false
  end.

(* case: (observer calls of the logged run, logged run with the observer calls erased, run without logging) *)
Definition check_logging (c : list (list rop) * list rop * list rop) : bool :=
  match c with
  | (segs, erased, off) => forallb observer_ok segs && list_eqb rop_eqb erased off && seeds_first off
  end.

(* ---------------------------------------------------------------------- C13 *)
Definition mem (l : list nat) : view := fun m => existsb (Nat.eqb m) l.

Definition check_untouched (t : list rop) : bool :=
  match decode_all t with Some d => forallb (untouched_ev U) d | None => false end.
Definition check_writes_in (W : list nat) (t : list rop) : bool :=
  match decode_all t with Some d => forallb (writes_in U (mem W)) d | None => false end.

(* flow check of a recorded call: views start as [kept] for the model's state; `anc` = independent ancestors per variable *)
Definition check_flow (anc : list (list nat)) (kept : list nat) (t : list rop) : bool :=
  match decode_all t with
  | Some d => match flow_all U (fun n => nth n anc []) 1 ([mem kept], 0) d with Some _ => true | None => false end
  | None => false
  end.

(* the log a model script emits on a state whose slots are set / unset as given, compared with the recorded trace
   (kind, ABSOLUTE state id, variable) *)
Definition kcode (k : okind) : nat :=
  match k with KGet => 0 | KSet => 1 | KClone => 3 | KSave => 4 | KDraw _ => 6 | KSeed _ => 7 | KReplace => 8 end.
Definition log_of (script : list (ev U)) (s0 : st U) : option (list (nat * nat * nat)) :=
  match Shape.exec [] 1 script (Cfg [s0] 0 (0, 0, 0) [] []) with
  | Some c => Some (rev (map (fun e => match e with (k, sid, n) => (kcode k, sid, n) end) (cLog c)))
  | None => None
  end.
Definition check_script (script : list (ev U)) (s0 : st U) (recorded : list (nat * nat * nat)) : bool :=
  match log_of script s0 with Some l => list_eqb rop_eqb l recorded | None => false end.
