(** C20 — model of the two benchmark models.  Definitions only (proofs: BenchProofs.v).

    Constant model
      leaspy/algo/personalize/constant_prediction_algo.py::_get_feature_values   (l.100-114)
      leaspy/models/constant.py::compute_individual_trajectory                   (l.82-83)
    Linear mixed-effects model
      leaspy/algo/personalize/lme_personalize.py::_remove_nans (l.55-60),
        _get_individual_random_effects_and_residuals (l.66-95), _generic_get_random_effects (l.118-120)
      leaspy/models/lme.py::compute_individual_trajectory                        (l.117-136)

    Numbers are exact rationals (no rounding); a missing value (NaN) is [None].
    Nothing is totalised: an empty history, a ragged table, a singular system, a zero
    normalisation scale and mismatching lengths are explicit errors. *)
From Coq Require Import QArith List Bool Arith.
From Leaspy Require Import Base.QAux.
Import ListNotations.

Inductive err := Empty | Ragged | Singular | ZeroScale | Shape.
Inductive res (A : Type) := Ok (a : A) | Err (e : err).
Arguments Ok {A} a.
Arguments Err {A} e.

Definition rbind {A B} (x : res A) (f : A -> res B) : res B :=
  match x with Ok a => f a | Err e => Err e end.
Definition rmap {A B} (f : A -> B) (x : res A) : res B :=
  match x with Ok a => Ok (f a) | Err e => Err e end.

Fixpoint mapM {A B} (f : A -> res B) (l : list A) : res (list B) :=
  match l with
  | [] => Ok []
  | a :: l' => rbind (f a) (fun b => rbind (mapM f l') (fun bs => Ok (b :: bs)))
  end.

(* ------------------------------------------------------------------------------------ *)
(** * Constant model *)

Definition value := option Q.                 (** [None] = NaN *)
Definition hist := list (Q * value).          (** one feature: (age, value) per visit, any order *)
Definition table := list (Q * list value).    (** all features: (age, row of values) per visit *)

Definition present (v : value) : bool := match v with Some _ => true | None => false end.

(** [sorted(range(len(times)), key=times.__getitem__, reverse=True)] : Python's sort is stable
    also with [reverse=True], i.e. visits with equal ages keep their input order.  The model sorts
    the rows themselves (a row = index's payload) by a stable insertion sort, greatest age first. *)
Fixpoint insert_desc {A} (r : Q * A) (l : list (Q * A)) : list (Q * A) :=
  match l with
  | [] => [r]
  | x :: l' => if Qle_bool (fst x) (fst r) then r :: l else x :: insert_desc r l'
  end.

Fixpoint sort_desc {A} (l : list (Q * A)) : list (Q * A) :=
  match l with
  | [] => []
  | r :: l' => insert_desc r (sort_desc l')
  end.

(** 'last' : [values[sorted_indices[0]]] (IndexError on an empty history) *)
Definition last_row {A} (l : list (Q * A)) : res A :=
  match sort_desc l with
  | [] => Err Empty
  | r :: _ => Ok (snd r)
  end.

(** [numpy.argmax] of a boolean vector: first [true], 0 when there is none *)
Fixpoint argmax_first (bs : list bool) : nat :=
  match bs with
  | [] => 0
  | true :: _ => 0
  | false :: bs' => if existsb (fun b => b) bs' then S (argmax_first bs') else 0
  end.

(** 'last-known', one feature:
      values_sorted_desc = values[sorted_indices]
      ix = (~isnan(values_sorted_desc)).argmax(axis=0)        (ValueError on an empty history)
      values_sorted_desc[ix, feature]                                                        *)
Definition last_known1 (h : hist) : res value :=
  let s := map snd (sort_desc h) in
  match s with
  | [] => Err Empty
  | _ => match nth_error s (argmax_first (map present s)) with
         | Some v => Ok v
         | None => Err Shape          (* unreachable, see [last_known1_total] *)
         end
  end.

Fixpoint present_values (h : hist) : list Q :=
  match h with
  | [] => []
  | (_, Some x) :: h' => x :: present_values h'
  | (_, None) :: h' => present_values h'
  end.

Definition qmax2 (a b : Q) : Q := if Qle_bool a b then b else a.

(** 'max', one feature: [numpy.nanmax(values, axis=0)]: NaN (with a warning) when every entry is NaN,
    ValueError on a zero-size array *)
Definition max1 (h : hist) : res value :=
  match h with
  | [] => Err Empty
  | _ => match present_values h with
         | [] => Ok None
         | x :: xs => Ok (Some (fold_left qmax2 xs x))
         end
  end.

Fixpoint sumQ (l : list Q) : Q :=
  match l with [] => 0 | x :: l' => x + sumQ l' end.

Definition Qnat (n : nat) : Q := inject_Z (Z.of_nat n).

(** 'mean', one feature: [numpy.nanmean(values, axis=0)] = sum of the non-NaN entries / their number;
    NaN (with a warning) when there is none — including on an empty history (no exception there) *)
Definition mean1 (h : hist) : res value :=
  match present_values h with
  | [] => Ok None
  | xs => Ok (Some (sumQ xs / Qnat (length xs)))
  end.

(** column [j] of a table; a row without entry [j] is an explicit error (numpy arrays are rectangular) *)
Definition column (j : nat) (t : table) : res hist :=
  mapM (fun r => match nth_error (snd r) j with
                 | Some v => Ok (fst r, v)
                 | None => Err Ragged
                 end) t.

Definition per_feature (f : hist -> res value) (d : nat) (t : table) : res (list value) :=
  mapM (fun j => rbind (column j t) f) (seq 0 d).

Inductive kind := Last | LastKnown | Max | Mean.

(** [_get_feature_values(times, values)], [d = values.shape[1]] *)
Definition predict (k : kind) (d : nat) (t : table) : res (list value) :=
  match k with
  | Last => last_row t
  | LastKnown => per_feature last_known1 d t
  | Max => per_feature max1 d t
  | Mean => per_feature mean1 d t
  end.

(** [ConstantModel.compute_individual_trajectory]: [[values] * len(timepoints)] *)
Definition trajectory (vals : list value) (ages : list Q) : list (list value) :=
  map (fun _ => vals) ages.

(** personalize then estimate *)
Definition constant_estimate (k : kind) (d : nat) (t : table) (ages : list Q) : res (list (list value)) :=
  rmap (fun v => trajectory v ages) (predict k d t).

(* ------------------------------------------------------------------------------------ *)
(** * Linear mixed-effects model *)

Record mat2 := Mat2 { m11 : Q; m12 : Q; m21 : Q; m22 : Q }.

Definition madd (a b : mat2) : mat2 :=
  Mat2 (m11 a + m11 b) (m12 a + m12 b) (m21 a + m21 b) (m22 a + m22 b).
Definition det2 (m : mat2) : Q := m11 m * m22 m - m12 m * m21 m.
Definition mulv (m : mat2) (v : Q * Q) : Q * Q :=
  (m11 m * fst v + m12 m * snd v, m21 m * fst v + m22 m * snd v).

(** [numpy.linalg.inv] of a 2x2 matrix (LinAlgError when singular) *)
Definition inv2 (m : mat2) : res mat2 :=
  let d := det2 m in
  if Qeq_bool d 0 then Err Singular
  else Ok (Mat2 (m22 m / d) (- m12 m / d) (- m21 m / d) (m11 m / d)).

(** Z : n x 2 as a list of rows *)
Definition ZtZ (Z : list (Q * Q)) : mat2 :=
  Mat2 (sumQ (map (fun z => fst z * fst z) Z)) (sumQ (map (fun z => fst z * snd z) Z))
       (sumQ (map (fun z => snd z * fst z) Z)) (sumQ (map (fun z => snd z * snd z) Z)).

Fixpoint dotQ (a b : list Q) : Q :=
  match a, b with
  | x :: a', y :: b' => x * y + dotQ a' b'
  | _, _ => 0
  end.

Definition Ztr (Z : list (Q * Q)) (r : list Q) : Q * Q :=
  (dotQ (map fst Z) r, dotQ (map snd Z) r).

(** [_generic_get_random_effects(resid, Z, cov_re_unscaled_inv)] with two columns:
      tZZ = Z.T @ Z ;  G = inv(tZZ + cov_re_unscaled_inv) ;  G @ (Z.T @ resid)            *)
Definition blup2 (Z : list (Q * Q)) (r : list Q) (Pinv : mat2) : res (Q * Q) :=
  if negb (length Z =? length r) then Err Shape
  else rbind (inv2 (madd (ZtZ Z) Pinv)) (fun G => Ok (mulv G (Ztr Z r))).

(** the same formula with one column *)
Definition blup1 (z : list Q) (r : list Q) (pinv : Q) : res Q :=
  if negb (length z =? length r) then Err Shape
  else let m := dotQ z z + pinv in
       if Qeq_bool m 0 then Err Singular else Ok (dotQ z r / m).

(** the random-intercept special case written in the code:
      random_intercept = sum(residuals) / (n + cov_re_unscaled_inv.item())                 *)
Definition intercept_re (r : list Q) (pinv : Q) : res Q :=
  let m := Qnat (length r) + pinv in
  if Qeq_bool m 0 then Err Singular else Ok (sumQ r / m).

Record lme_params := LmeParams {
  ages_mean : Q; ages_std : Q;          (** normalisation of ages stored by the fit *)
  fe0 : Q; fe1 : Q;                      (** fixed intercept, fixed slope (on normalised age) *)
  cov_inv : mat2                         (** cov_re_unscaled_inv (only [m11] is used without random slope) *)
}.

(** [(t - ages_mean) / ages_std] *)
Definition normalise (p : lme_params) (t : Q) : Q := (t - ages_mean p) / ages_std p.

(** [_remove_nans]: visits where the value is present, in input order *)
Fixpoint remove_nans (obs : hist) : list (Q * Q) :=
  match obs with
  | [] => []
  | (t, Some y) :: o' => (t, y) :: remove_nans o'
  | (_, None) :: o' => remove_nans o'
  end.

(** [X = add_constant(ages_norm, prepend=True, has_constant="add")] *)
Definition design (p : lme_params) (ts : list Q) : list (Q * Q) :=
  map (fun t => (1, normalise p t)) ts.

(** [residuals = values - X @ fe_params] *)
Definition residuals (p : lme_params) (obs : list (Q * Q)) : list Q :=
  map (fun o => snd o - (1 * fe0 p + normalise p (fst o) * fe1 p)) obs.

(** [_get_individual_random_effects_and_residuals]: (random_intercept, random_slope_age);
    without random slope the second component is the [0] that [compute_individual_trajectory] uses *)
Definition lme_personalize (with_slope : bool) (p : lme_params) (obs : hist) : res (Q * Q) :=
  if Qeq_bool (ages_std p) 0 then Err ZeroScale
  else
    let o := remove_nans obs in
    let r := residuals p o in
    match o with
    | [] => Err Empty      (* statsmodels' add_constant raises ValueError on an empty array *)
    | _ => if with_slope then blup2 (design p (map fst o)) r (cov_inv p)
           else rmap (fun b => (b, 0)) (intercept_re r (m11 (cov_inv p)))
    end.

(** [compute_individual_trajectory]: [X @ (fe_params + re_params)] at one age *)
Definition lme_at (p : lme_params) (re : Q * Q) (t : Q) : Q :=
  1 * (fe0 p + fst re) + normalise p t * (fe1 p + snd re).

Definition lme_trajectory (p : lme_params) (re : Q * Q) (ages : list Q) : res (list Q) :=
  if Qeq_bool (ages_std p) 0 then Err ZeroScale
  else Ok (map (lme_at p re) ages).

(** slope and intercept of the line in (un-normalised) age *)
Definition lme_slope (p : lme_params) (re : Q * Q) : Q := (fe1 p + snd re) / ages_std p.
Definition lme_intercept (p : lme_params) (re : Q * Q) : Q :=
  (fe0 p + fst re) - ages_mean p * lme_slope p re.

(* ------------------------------------------------------------------------------------ *)
(** * Comparison helpers used by the executable correspondence (harness/props/c20.py) *)

Definition Qabs' (x : Q) : Q := if Qle_bool 0 x then x else - x.

(** [|a - b| <= tol * (1 + |b|)] *)
Definition close (tol a b : Q) : bool := Qle_bool (Qabs' (a - b)) (tol * (1 + Qabs' b)).

Definition value_close (tol : Q) (a b : value) : bool :=
  match a, b with
  | Some x, Some y => close tol x y
  | None, None => true
  | _, _ => false
  end.

Definition value_eqb (a b : value) : bool :=
  match a, b with
  | Some x, Some y => Qeq_bool x y
  | None, None => true
  | _, _ => false
  end.

Fixpoint all2 {A B} (f : A -> B -> bool) (a : list A) (b : list B) : bool :=
  match a, b with
  | [], [] => true
  | x :: a', y :: b' => f x y && all2 f a' b'
  | _, _ => false
  end.
