(** C20 — checkers evaluated with [vm_compute] by harness/props/c20.py: each case carries the input given to the
    implementation and the result it returned; the checker runs the model of Bench.v on the same input and compares
    (exactly when [tol = 0], else [|model - observed| <= tol * (1 + |observed|)]).  Definitions only. *)
From Coq Require Import QArith List Bool Arith.
From Leaspy Require Import Base.QAux Api.Bench.
Import ListNotations.

Definition err_eqb (a b : err) : bool :=
  match a, b with
  | Empty, Empty | Ragged, Ragged | Singular, Singular | ZeroScale, ZeroScale | Shape, Shape => true
  | _, _ => false
  end.

Definition res_check {A B} (f : A -> B -> bool) (m : res A) (o : res B) : bool :=
  match m, o with
  | Ok a, Ok b => f a b
  | Err e, Err e' => err_eqb e e'
  | _, _ => false
  end.

(** [_get_feature_values] *)
Definition check_predict (c : kind * nat * table * res (list value) * Q) : bool :=
  let '(k, d, t, obs, tol) := c in
  res_check (all2 (value_close tol)) (predict k d t) obs.

(** [personalize] then [estimate] *)
Definition check_estimate (c : kind * nat * table * list Q * res (list (list value)) * Q) : bool :=
  let '(k, d, t, ages, obs, tol) := c in
  res_check (all2 (all2 (value_close tol))) (constant_estimate k d t ages) obs.

Definition pair_close (tol : Q) (a b : Q * Q) : bool := close tol (fst a) (fst b) && close tol (snd a) (snd b).

(** [_generic_get_random_effects] *)
Definition check_blup2 (c : list (Q * Q) * list Q * mat2 * res (Q * Q) * Q) : bool :=
  let '(Z, r, P, obs, tol) := c in
  res_check (pair_close tol) (blup2 Z r P) obs.

(** [_get_individual_random_effects_and_residuals] *)
Definition check_personalize (c : bool * lme_params * hist * res (Q * Q) * Q) : bool :=
  let '(s, p, h, obs, tol) := c in
  res_check (pair_close tol) (lme_personalize s p h) obs.

(** [LMEModel.compute_individual_trajectory] *)
Definition check_traj (c : lme_params * (Q * Q) * list Q * res (list Q) * Q) : bool :=
  let '(p, re, ages, obs, tol) := c in
  res_check (all2 (close tol)) (lme_trajectory p re ages) obs.
