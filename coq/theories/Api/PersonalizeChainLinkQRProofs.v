(** C17 — the simulation lemma [run_hom] read on the two instances the project uses: the rational run (executed by T2 on the
    recorded runs) and the real run (about which the decision theorems are stated), related by [Q2R].

    [hom_QR]: [Q2R] is a [carrier_hom] from (Q, +, x, id, decQ, oracles over Q) to (R, +, x, Q2R, decR, oracles over R) as soon as
    the two decision rules agree on the images and the real oracles extend the rational ones.  With [decQ := decideQR] and
    [decR := decideR] the decision clause holds by definition; with a decision TABLE (what T2 executes: uniform |-> recorded
    decision) it is the hypothesis "the same table".  [run_QR]: the real run on the injected inputs is the injection of the
    rational run; [run_QR_steps]: hence every sampler call of a successful rational run, injected, is a [step_ok] call of the real
    instance — C03's [ind_step] by [gstep_is_ind_step] — at the scale and inverse temperature the rational trace names. *)
From Coq Require Import ZArith QArith Qabs List Bool Arith Lia Reals Qreals Lra.
From Leaspy Require Import Base.QAux Sampler.SamplerModel Sampler.SamplerProofs Saem.Anneal Sampler.AdaptiveStd
  Api.Personalize Api.PersonalizeChain Api.PersonalizeChainProofs Api.PersonalizeChainLink Api.PersonalizeChainLinkProofs Api.PersonalizeExec Api.PersonalizeChainExec Api.PersonalizeChainExecR.
Import ListNotations.

Lemma hom_QR addQ mulQ decQ decR attQ regvQ regsumQ attR regvR regsumR :
  (forall x y, Q2R (addQ x y) = (Q2R x + Q2R y)%R) -> (forall x y, Q2R (mulQ x y) = (Q2R x * Q2R y)%R) ->
  (forall u a b c d t, decQ u a b c d t = decR (Q2R u) (Q2R a) (Q2R b) (Q2R c) (Q2R d) (Q2R t)) ->
  (forall st, attR (smap Q2R st) = map Q2R (attQ st)) ->
  (forall v st, regvR v (smap Q2R st) = map Q2R (regvQ v st)) ->
  (forall st, regsumR (smap Q2R st) = map Q2R (regsumQ st)) ->
  carrier_hom Q R Q2R addQ mulQ (fun q => q) decQ attQ regvQ regsumQ Rplus Rmult Q2R decR attR regvR regsumR.
Proof. intros Hp Hm Hd Ha Hr Hs. constructor; auto. Qed.

Section QR.
  (** the rational addition / multiplication: [Qplus] / [Qmult], or the normalising [radd] / [rmul] of the executor *)
  Variables addQ mulQ : Q -> Q -> Q.
  Hypothesis Hp : forall x y, Q2R (addQ x y) = (Q2R x + Q2R y)%R.
  Hypothesis Hm : forall x y, Q2R (mulQ x y) = (Q2R x * Q2R y)%R.
  Variable decQ : Q -> Q -> Q -> Q -> Q -> Q -> bool.
  Variable decR : R -> R -> R -> R -> R -> R -> bool.
  Variable attQ : istate Q -> list Q.
  Variable regvQ : nat -> istate Q -> list Q.
  Variable regsumQ : istate Q -> list Q.
  Variable attR : istate R -> list R.
  Variable regvR : nat -> istate R -> list R.
  Variable regsumR : istate R -> list R.
  Hypothesis Hd : forall u a b c d t, decQ u a b c d t = decR (Q2R u) (Q2R a) (Q2R b) (Q2R c) (Q2R d) (Q2R t).
  Hypothesis Ha : forall st, attR (smap Q2R st) = map Q2R (attQ st).
  Hypothesis Hr : forall v st, regvR v (smap Q2R st) = map Q2R (regvQ v st).
  Hypothesis Hs : forall st, regsumR (smap Q2R st) = map Q2R (regsumQ st).
  Variables (scf : scfg) (acf : Anneal.cfg) (nb : Z) (random_order : bool) (n_ind : nat).

  Theorem run_QR orders init scales tp :
    personalize_run R Rplus Rmult Q2R decR attR regvR regsumR scf acf nb random_order n_ind orders (smap Q2R init) scales (tape_map Q2R tp)
    = outcome_map (out_map Q2R)
        (personalize_run Q addQ mulQ (fun q => q) decQ attQ regvQ regsumQ scf acf nb random_order n_ind orders init scales tp).
  Proof. apply run_hom. apply hom_QR; assumption. Qed.

  (** what the theorems over R say about the rational re-execution: the real run succeeds on the injected inputs with the injected
      result, and each recorded call of the rational run, injected, is a step of the real model *)
  Theorem run_QR_steps orders init scales tp o :
    personalize_run Q addQ mulQ (fun q => q) decQ attQ regvQ regsumQ scf acf nb random_order n_ind orders init scales tp = Done o ->
    personalize_run R Rplus Rmult Q2R decR attR regvR regsumR scf acf nb random_order n_ind orders (smap Q2R init) scales (tape_map Q2R tp)
      = Done (out_map Q2R o) /\
    Forall (fun kl => Forall (fun r => step_ok R Rplus Rmult Q2R decR attR regvR (step_map Q2R r)) (snd kl)) (o_trace o).
  Proof.
    intros E. pose proof (run_QR orders init scales tp) as HR. rewrite E in HR. cbn [outcome_map] in HR. split; [exact HR|].
    destruct (run_steps _ _ _ _ _ _ _ _ _ _ _ _ _ _ _ _ _ _ HR) as (a0 & _ & _ & _ & F).
    unfold out_map in F. cbn [o_trace] in F. rewrite Forall_map in F.
    eapply Forall_impl; [|exact F]. intros [k log] (m & a & _ & _ & Fl). cbn [snd] in *. rewrite Forall_map in Fl.
    eapply Forall_impl; [|exact Fl]. intros r [_ S]. exact S.
  Qed.
End QR.

(** the instance T2 executes on every recorded run ([PersonalizeChainExec.run_case]: normalising arithmetic, decisions and oracles
    looked up in finite tables of what the implementation did): for ANY real decision rule that takes, on the recorded uniforms,
    the recorded decisions, and ANY real oracles that extend the tables, the re-execution is — injected — the real run *)
Lemma Q2R_Qred q : Q2R (Qred q) = Q2R q.
Proof. apply Qeq_eqR. apply Qred_correct. Qed.

Theorem run_case_real tol (c : chain_case) decR attR regvR regsumR :
  (forall u a b cc d t, decide_of (cc_dec c) u a b cc d t = decR (Q2R u) (Q2R a) (Q2R b) (Q2R cc) (Q2R d) (Q2R t)) ->
  (forall st, attR (smap Q2R st) = map Q2R (att_of tol (cc_table c) st)) ->
  (forall v st, regvR v (smap Q2R st) = map Q2R (regv_of tol (cc_table c) v st)) ->
  (forall st, regsumR (smap Q2R st) = map Q2R (regsum_of tol (cc_table c) st)) ->
  forall o, run_case tol c = Done o ->
    personalize_run R Rplus Rmult Q2R decR attR regvR regsumR (cc_scf c) (cc_acf c) (cc_nb c) (cc_random c) (length (cc_ids c))
                    (cc_orders c) (smap Q2R (cc_init c)) (cc_scales c) (tape_map Q2R (Build_tape (cc_normals c) (cc_uniforms c)))
      = Done (out_map Q2R o) /\
    Forall (fun kl => Forall (fun r => step_ok R Rplus Rmult Q2R decR attR regvR (step_map Q2R r)) (snd kl)) (o_trace o).
Proof.
  intros Hd Ha Hr Hs o E. unfold run_case in E.
  refine (run_QR_steps radd rmul _ _ _ decR _ _ _ attR regvR regsumR Hd Ha Hr Hs _ _ _ _ _ _ _ _ _ o E).
  - intros x y. unfold radd. now rewrite Q2R_Qred, Q2R_plus.
  - intros x y. unfold rmul. now rewrite Q2R_Qred, Q2R_mult.
Qed.

(** * The tables of the executor read over R (Api/PersonalizeChainExecR.v) extend the rational tables *)
Lemma Q2R_0' : Q2R 0 = 0%R. Proof. unfold Q2R; simpl; lra. Qed.
Lemma Q2R_1' : Q2R 1 = 1%R. Proof. unfold Q2R; simpl; lra. Qed.

Lemma Q2R_Qabs q : Q2R (Qabs q) = Rabs (Q2R q).
Proof.
  apply Qabs_case; intros Hq.
  - apply Qle_Rle in Hq. rewrite Q2R_0' in Hq. now rewrite Rabs_pos_eq.
  - apply Qle_Rle in Hq. rewrite Q2R_0' in Hq. rewrite Q2R_opp. now rewrite Rabs_left1.
Qed.

Lemma rclose_hom tol x y : rclose tol x (Q2R y) = qclose tol x y.
Proof.
  unfold rclose, qclose.
  assert (E1 : Rabs (Q2R x - Q2R y) = Q2R (Qabs (x - y))) by (now rewrite Q2R_Qabs, Q2R_minus).
  assert (E2 : (Q2R tol * (1 + Rabs (Q2R y)))%R = Q2R (tol * (1 + Qabs y))) by (now rewrite Q2R_mult, Q2R_plus, Q2R_Qabs, Q2R_1').
  rewrite E1, E2.
  destruct (Rle_dec (Q2R (Qabs (x - y))) (Q2R (tol * (1 + Qabs y)))) as [L|L]; symmetry.
  - apply Qle_bool_iff. now apply Rle_Qle.
  - apply not_true_is_false. intros C. apply L. apply Qle_Rle. now apply Qle_bool_iff.
Qed.

Lemma tclose_hom tol : forall (a b : tens Q), tcloseR tol a (tmap Q2R b) = tclose_lazy tol a b.
Proof.
  induction a as [x | l IH] using tens_ind'; intros [y | m]; try reflexivity.
  - apply rclose_hom.
  - cbn [tmap tcloseR tclose_lazy]. revert m. induction IH as [|c cs Hc _ IHl]; intros [|d m]; try reflexivity.
    cbn [map]. rewrite Hc. destruct (tclose_lazy tol c d); [apply IHl | reflexivity].
Qed.

Lemma state_close_hom tol : forall s t, state_closeR tol s (smap Q2R t) = state_close tol s t.
Proof.
  unfold state_closeR, state_close, smap. induction s as [|a s IH]; intros [|b t]; try reflexivity.
  cbn [map all2]. rewrite tclose_hom. destruct (tclose_lazy tol a b); [apply IH | reflexivity].
Qed.

Lemma lookup_hom tol : forall tbl st, lookupR tol tbl (smap Q2R st) = lookup tol tbl st.
Proof. induction tbl as [|r tbl IH]; intros st; [reflexivity|]. cbn [lookupR lookup]. rewrite state_close_hom, IH. reflexivity. Qed.

Lemma lookup_dec_hom : forall tbl u, lookup_decR tbl (Q2R u) = lookup_dec tbl u.
Proof.
  induction tbl as [|[x b] tbl IH]; intros u; [reflexivity|]. cbn [lookup_decR lookup_dec]. rewrite IH.
  destruct (Req_EM_T (Q2R x) (Q2R u)) as [E|E].
  - apply eqR_Qeq in E. apply Qeq_bool_iff in E. now rewrite E.
  - destruct (Qeq_bool x u) eqn:Eb; [|reflexivity]. exfalso. apply E. apply Qeq_eqR. now apply Qeq_bool_iff.
Qed.

(** the hypotheses of [run_case_real] are met by the tables themselves read over R: T2's re-execution of EVERY recorded run is,
    injected, a run of the real instance — no hypothesis left but the success of the rational run *)
Theorem run_case_real_tables tol (c : chain_case) o : run_case tol c = Done o ->
  personalize_run R Rplus Rmult Q2R (decide_ofR (cc_dec c)) (att_ofR tol (cc_table c)) (regv_ofR tol (cc_table c)) (regsum_ofR tol (cc_table c))
                  (cc_scf c) (cc_acf c) (cc_nb c) (cc_random c) (length (cc_ids c))
                  (cc_orders c) (smap Q2R (cc_init c)) (cc_scales c) (tape_map Q2R (Build_tape (cc_normals c) (cc_uniforms c)))
    = Done (out_map Q2R o) /\
  Forall (fun kl => Forall (fun r => step_ok R Rplus Rmult Q2R (decide_ofR (cc_dec c)) (att_ofR tol (cc_table c)) (regv_ofR tol (cc_table c))
                                             (step_map Q2R r)) (snd kl)) (o_trace o).
Proof.
  apply run_case_real.
  - intros u a b cc d t. unfold decide_of, decide_ofR. symmetry. apply lookup_dec_hom.
  - intros st. unfold att_ofR, att_of. rewrite lookup_hom; destruct (lookup tol (cc_table c) st); reflexivity.
  - intros v st. unfold regv_ofR, regv_of. rewrite lookup_hom; destruct (lookup tol (cc_table c) st); reflexivity.
  - intros st. unfold regsum_ofR, regsum_of. rewrite lookup_hom; destruct (lookup tol (cc_table c) st); reflexivity.
Qed.

(** * Non-vacuity: the example run of PersonalizeChainProofs (computed over Q) and its real counterpart *)
Definition sumR (l : list R) : R := fold_right Rplus 0%R l.
Definition exR_att (st : istate R) : list R := map (fun i => sumR (row_vals R st i)) [0%nat; 1%nat].
Definition exR_regv (v : nat) (st : istate R) : list R :=
  map (fun i => match nth_error st v with Some (Nd rows) => sumR (flat (nth i rows (Nd []))) | _ => 0%R end) [0%nat; 1%nat].
Definition exR_decide (u pa na pr nr tinv : R) : bool := if Rle_dec (u + (na - pa) + tinv * (nr - pr)) 1 then true else false.

Lemma Q2R_sumQ l : Q2R (sumQ l) = sumR (map Q2R l).
Proof. induction l as [|x l IH]; simpl; [unfold Q2R; simpl; lra|]. now rewrite Q2R_plus, IH. Qed.

Lemma ex_decide_QR u a b c d t : ex_decide u a b c d t = exR_decide (Q2R u) (Q2R a) (Q2R b) (Q2R c) (Q2R d) (Q2R t).
Proof.
  unfold ex_decide, exR_decide.
  assert (E : (Q2R u + (Q2R b - Q2R a) + Q2R t * (Q2R d - Q2R c))%R = Q2R (u + (b - a) + t * (d - c))).
  { now rewrite !Q2R_plus, Q2R_mult, !Q2R_minus. }
  rewrite E. replace 1%R with (Q2R 1) by (unfold Q2R; simpl; lra).
  destruct (Rle_dec (Q2R (u + (b - a) + t * (d - c))) (Q2R 1)) as [L|L].
  - apply Qle_bool_iff. now apply Rle_Qle.
  - apply not_true_is_false. intros C. apply L. apply Qle_Rle. now apply Qle_bool_iff.
Qed.

Lemma ex_att_QR st : exR_att (smap Q2R st) = map Q2R (ex_att st).
Proof.
  unfold exR_att, ex_att. rewrite map_map. apply map_ext. intros i.
  rewrite (row_vals_hom Q R Q2R). symmetry. apply Q2R_sumQ.
Qed.

Lemma ex_regv_QR v st : exR_regv v (smap Q2R st) = map Q2R (ex_regv v st).
Proof.
  unfold exR_regv, ex_regv. rewrite map_map. apply map_ext. intros i. unfold smap. rewrite nth_error_map.
  destruct (nth_error st v) as [[x|rows]|]; cbn [option_map tmap]; try (unfold Q2R; simpl; lra).
  rewrite Q2R_sumQ, <- (tmap_flat Q R Q2R). f_equal. f_equal.
  change (Nd []) with (tmap Q2R (Nd [])) at 1. apply map_nth.
Qed.

(** [ex_run] of PersonalizeChainProofs, spelt out (a notation: no conversion is left to the kernel but the [vm_compute] ones) *)
Notation exQ_run := (personalize_run Q Qplus Qmult (fun q => q) ex_decide ex_att ex_regv ex_att ex_scf ex_acf 1 true 2
                                     ex_orders ex_init [1; 2]%Q ex_tape).

Example run_QR_example :
  exists o, exQ_run = Done o /\
    personalize_run R Rplus Rmult Q2R exR_decide exR_att exR_regv exR_att ex_scf ex_acf 1 true 2 ex_orders
                    (smap Q2R ex_init) [1; 2]%Q (tape_map Q2R ex_tape) = Done (out_map Q2R o) /\
    Forall (fun kl => Forall (fun r => step_ok R Rplus Rmult Q2R exR_decide exR_att exR_regv (step_map Q2R r)) (snd kl)) (o_trace o) /\
    length (concat (map snd (o_trace o))) = 6%nat /\
    existsb (fun kl => existsb (fun r => existsb (fun b => b) (sr_acc r)) (snd kl)) (o_trace o) = true /\
    existsb (fun kl => existsb (fun r => existsb negb (sr_acc r)) (snd kl)) (o_trace o) = true.
Proof.
  assert (X : exists o, exQ_run = Done o /\
            length (concat (map snd (o_trace o))) = 6%nat /\
            existsb (fun kl => existsb (fun r => existsb (fun b => b) (sr_acc r)) (snd kl)) (o_trace o) = true /\
            existsb (fun kl => existsb (fun r => existsb negb (sr_acc r)) (snd kl)) (o_trace o) = true).
  { destruct exQ_run as [o|e] eqn:E; vm_compute in E; [|discriminate]. exists o. split; [reflexivity|].
    inversion E; subst o. repeat split; vm_compute; reflexivity. }
  destruct X as (o & E & X1 & X2 & X3). exists o. split; [exact E|].
  destruct (run_QR_steps Qplus Qmult Q2R_plus Q2R_mult ex_decide exR_decide ex_att ex_regv ex_att exR_att exR_regv exR_att ex_decide_QR ex_att_QR ex_regv_QR ex_att_QR
              ex_scf ex_acf 1 true 2 ex_orders ex_init [1; 2]%Q ex_tape o E) as [R1 R2].
  repeat split; assumption.
Qed.
