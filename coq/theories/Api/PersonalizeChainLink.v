(** C17 — vocabulary of the two links the chain extension left open (definitions only; proofs in PersonalizeChainLinkProofs.v).

    (a) SIMULATION between the instances of the generic run [personalize_run].  The run is generic in the carrier [A]
        (R in the statements about decisions, Q when the model is executed on the recorded runs, T2).  A map [f : A -> B]
        between two carriers is a [carrier_hom] when it commutes with everything the run uses: [add], [mul], [ofQ], the
        decision rule (same decisions on the images: "the decision oracle is the same table") and the three oracle
        functions.  [tmap], [tape_map], [smap], [out_map] push states, tapes and results of a run through [f].
        PersonalizeChainLinkProofs.run_hom: running over A then mapping = running over B on the mapped inputs — failures
        included, with the same error.

    (b) The proposal SCALES of the run are C19's.  [var_calls v tr]: the sampler calls of variable [v] in the trace of a
        run, in the order they were made; [map sr_acc] of them is the acceptance history of that sampler, [map sr_sds]
        the proposal scales the run used.  PersonalizeChainLinkProofs.run_scales: these scales are the [std] of the states
        [AdaptiveStd.run_sampler] goes through on that very acceptance history, from [AdaptiveStd.init_sampler] at
        STD_SCALE_FACTOR = 1/2 of the scale of the variable. *)
From Coq Require Import ZArith QArith List Bool Arith.
From Leaspy Require Import Base.QAux Sampler.SamplerModel Saem.Anneal Sampler.AdaptiveStd Api.Personalize Api.PersonalizeChain.
Import ListNotations.

Section MapCarrier.
  Variables A B : Type.
  Variable f : A -> B.

  Fixpoint tmap (t : tens A) : tens B :=
    match t with Sc x => Sc (f x) | Nd l => Nd (map tmap l) end.

  Definition tape_map (tp : tape A) : tape B := Build_tape (map f (normals tp)) (map f (uniforms tp)).
  Definition smap (st : istate A) : istate B := map tmap st.
  Definition cell_map (c : gcell A) : gcell B := (map f (fst (fst c)), f (snd (fst c)), f (snd c)).
  Definition draw_map (d : gdraw A) : gdraw B := map cell_map d.
  Definition rs_map (s : rstate A) : rstate B := mkRs (smap (r_vals s)) (tape_map (r_tape s)) (r_samp s).
  Definition step_map (r : step_rec A) : step_rec B :=
    mkStep (sr_var r) (sr_tinv r) (sr_sds r) (smap (sr_before r)) (tape_map (sr_tape r)) (smap (sr_after r)) (tape_map (sr_tape' r))
           (sr_acc r).
  Definition iter_map (x : iter_st A) : iter_st B :=
    mkIt B (i_ast A x) (rs_map (i_rs A x)) (i_ord A x) (map draw_map (i_rec A x)) (map step_map (i_log A x)).
  Definition out_map (o : run_out A) : run_out B :=
    mkOut (o_ast o) (rs_map (o_rs o)) (map draw_map (o_all o)) (map draw_map (o_hist o))
          (map (fun kl => (fst kl, map step_map (snd kl))) (o_trace o)).

  (** [f] commutes with every operation the generic run uses *)
  Record carrier_hom (addA mulA : A -> A -> A) (ofQA : Q -> A) (decideA : A -> A -> A -> A -> A -> A -> bool)
         (attA : istate A -> list A) (regvA : nat -> istate A -> list A) (regsumA : istate A -> list A)
         (addB mulB : B -> B -> B) (ofQB : Q -> B) (decideB : B -> B -> B -> B -> B -> B -> bool)
         (attB : istate B -> list B) (regvB : nat -> istate B -> list B) (regsumB : istate B -> list B) : Prop := {
    h_add : forall x y, f (addA x y) = addB (f x) (f y);
    h_mul : forall x y, f (mulA x y) = mulB (f x) (f y);
    h_ofQ : forall q, f (ofQA q) = ofQB q;
    h_decide : forall u a b c d t, decideA u a b c d t = decideB (f u) (f a) (f b) (f c) (f d) (f t);
    h_att : forall st, attB (smap st) = map f (attA st);
    h_regv : forall v st, regvB v (smap st) = map f (regvA v st);
    h_regsum : forall st, regsumB (smap st) = map f (regsumA st) }.
End MapCarrier.

Arguments tmap {A B}.
Arguments tape_map {A B}.
Arguments smap {A B}.
Arguments out_map {A B}.
Arguments rs_map {A B}.
Arguments step_map {A B}.
Arguments draw_map {A B}.

Definition outcome_map {X Y} (g : X -> Y) (r : outcome X) : outcome Y :=
  match r with Done x => Done (g x) | Failed e => Failed e end.

(** the sampler calls of variable [v] along a run, in the order they were made *)
Definition var_calls {A} (v : nat) (tr : list (Z * list (step_rec A))) : list (step_rec A) :=
  filter (fun r => Nat.eqb (sr_var r) v) (concat (map snd tr)).

(** [follows c s calls s']: the sampler goes from [s] to [s'] through [calls] = (proposal scale used, decisions) of its
    successive `sample` calls — each call proposes at the [std] of the state it finds and ends with
    `_update_acceptation_rate(accepted); _update_std()` ([AdaptiveStd.sample_step]) *)
Fixpoint follows (c : scfg) (s : sstate) (calls : list (list Q * list bool)) (s' : sstate) : Prop :=
  match calls with
  | [] => s = s'
  | (sd, acc) :: r => sd = std s /\ exists s1, sample_step c s acc = Anneal.Ok s1 /\ follows c s1 r s'
  end.

Definition call_of {A} (r : step_rec A) : list Q * list bool := (sr_sds r, sr_acc r).
