(** C17 — the finite tables of the executor (PersonalizeChainExec.v) read over R (definitions only): the real decision rule and the
    real oracle functions that EXTEND the tables T2 builds from a recorded run — looked up by the same closeness test, decided on R.
    PersonalizeChainLinkQRProofs.run_case_real_tables: with them the hypotheses of the simulation lemma hold for every case. *)
From Coq Require Import ZArith QArith Qabs List Bool Reals Qreals.
From Leaspy Require Import Base.QAux Sampler.SamplerModel Api.PersonalizeChain Api.PersonalizeExec Api.PersonalizeChainExec.
Import ListNotations.

Definition rclose (tol x : Q) (y : R) : bool :=
  if Rle_dec (Rabs (Q2R x - y)) (Q2R tol * (1 + Rabs y)) then true else false.

Fixpoint tcloseR (tol : Q) (a : tens Q) (b : tens R) : bool :=
  match a, b with
  | Sc x, Sc y => rclose tol x y
  | Nd l, Nd m =>
      (fix go (l : list (tens Q)) (m : list (tens R)) : bool :=
         match l, m with
         | [], [] => true
         | x :: l', y :: m' => tcloseR tol x y &&& go l' m'
         | _, _ => false
         end) l m
  | _, _ => false
  end.

Definition state_closeR (tol : Q) (s : list (tens Q)) (t : list (tens R)) : bool := all2 (tcloseR tol) s t.

Fixpoint lookupR (tol : Q) (tbl : list oracle_row) (st : list (tens R)) : option oracle_row :=
  match tbl with
  | [] => None
  | r :: rest => if state_closeR tol (or_state r) st then Some r else lookupR tol rest st
  end.

Definition att_ofR tol tbl st : list R := match lookupR tol tbl st with Some r => map Q2R (or_att r) | None => [] end.
Definition regv_ofR tol tbl (v : nat) st : list R := match lookupR tol tbl st with Some r => map Q2R (nth v (or_regv r) []) | None => [] end.
Definition regsum_ofR tol tbl st : list R := match lookupR tol tbl st with Some r => map Q2R (or_regsum r) | None => [] end.

Fixpoint lookup_decR (tbl : list (Q * bool)) (u : R) : bool :=
  match tbl with
  | [] => false
  | (x, b) :: rest => if Req_EM_T (Q2R x) u then b else lookup_decR rest u
  end.
Definition decide_ofR (tbl : list (Q * bool)) (u pa na pr nr tinv : R) : bool := lookup_decR tbl u.
