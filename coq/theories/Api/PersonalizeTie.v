(** C17 — the rules regenerated from the source (gen/GenC17.v) are the model's rules. *)
From Coq Require Import String ZArith QArith List Bool Reals Lra.
From Leaspy Require Import Base.QAux Api.Personalize.
From LeaspyGen Require Import GenC17.

(** `if not self._is_burn_in():` with `_is_burn_in` inlined *)
Lemma tie_keep k nb : gen_keep k nb = keep k nb.
Proof. reflexivity. Qed.

(** `for self.current_iteration in range(1, n_iter + 1)` *)
Lemma tie_iterations n : zrange gen_iter_lo (gen_iter_hi n) = iterations n.
Proof. reflexivity. Qed.

(** `value_var.mean(dim=0)` and `torch.argmin(..., dim=0)`: axis 0 of the stacked histories = the kept draws *)
Lemma tie_axes : gen_mean_dim = 0%Z /\ gen_argmin_dim = 0%Z.
Proof. split; reflexivity. Qed.

(** `attachments + self.regularity_factor * regularities` with the class constant 1.0 *)
Lemma tie_mode_loss c : (gen_mode_loss (att c) (reg c) == mode_loss c)%Q.
Proof. unfold gen_mode_loss, mode_loss. ring. Qed.

Lemma tie_unscale_R loc scale x : gen_unscale_R loc scale x = unscale1 R Rplus Rmult (loc, scale) x.
Proof. reflexivity. Qed.
Lemma tie_scale_R loc scale x : gen_scale_R loc scale x = scale1 R Rminus Rdiv (loc, scale) x.
Proof. reflexivity. Qed.
Lemma tie_unscale_Q loc scale x : (gen_unscale_Q loc scale x == unscale1 Q Qplus Qmult (loc, scale) x)%Q.
Proof. unfold gen_unscale_Q, unscale1. simpl. ring. Qed.
Lemma tie_scale_Q loc scale x : (gen_scale_Q loc scale x == scale1 Q Qminus Qdiv (loc, scale) x)%Q.
Proof. unfold gen_scale_Q, scale1. simpl. reflexivity. Qed.

(** `state["nll_attach"] + self.regularity_factor * state["nll_regul_ind_sum"]` with the class constant 1.0 *)
Lemma tie_objective attach regul ips : gen_obj_R (attach ips) (regul ips) = objective attach regul ips.
Proof. unfold gen_obj_R, objective. lra. Qed.

Lemma tie_ids : gen_ids_must_be_strings = true /\ gen_duplicate_ids_refused = true.
Proof. split; reflexivity. Qed.
