(** C18 — a well-formed generation program ([prog_wf], SimulateGenWf.v) never takes a [GCrash] branch of the interpreter of
    SimulateGen.v: for EVERY arithmetic, every cohort size, every number of sources and every tape.  What the constructor
    guarantees about the stored count ([accepted_random_count]) and the totality of a table design on a tape of the right
    shape ([run_table_total]). *)
From Coq Require Import ZArith QArith Qabs Bool List String Lia.
From Leaspy Require Import Base.QAux Api.Simulate Api.SimulateProofs Api.SimulateGen Api.SimulateGenProofs Api.SimulateGenWf.
Import ListNotations.

(* ------------------------------------------------------------------------------------------ *)
(** * what validation guarantees about [patient_number] *)

Lemma apply_effect_flag e f : any_flag f = true -> any_flag (apply_effect e f) = true.
Proof. destruct f as [[] [] []], e; simpl; intros H; try reflexivity; discriminate. Qed.

Lemma exec_stmts_flag v ss : forall f f', exec_stmts v ss f = Some f' -> any_flag f = true -> any_flag f' = true.
Proof.
  induction ss as [|[g e] r IH]; simpl; intros f f' H A.
  - injection H as <-. exact A.
  - destruct (eval_guard v g) as [[|]|]; [|eauto|discriminate].
    destruct e; try (eapply IH; [exact H | now apply apply_effect_flag]).
    injection H as <-. exact A.
Qed.

Lemma exec_rows_flag d rs : forall f f', exec_rows d rs f = Some f' -> any_flag f = true -> any_flag f' = true.
Proof.
  induction rs as [|[k ss] r IH]; simpl; intros f f' H A.
  - injection H as <-. exact A.
  - destruct (exec_stmts (lookup k d) ss f) as [f1|] eqn:E; [|discriminate].
    eapply IH; [exact H|]. eapply exec_stmts_flag; eauto.
Qed.

(** [_check_params] on the random rows: the count is present, an instance of [int] (a genuine integer or a bool) and positive *)
Lemma checked_count d rest :
  check_params d (row_int_positive "patient_number" :: rest) = Ok tt ->
  (exists n, lookup "patient_number" d = Some (VInt n) /\ (0 < n)%Z) \/ (exists b, lookup "patient_number" d = Some (VBool b)).
Proof.
  unfold check_params, row_int_positive. cbn [exec_rows].
  match goal with |- context [exec_stmts ?v ?ss no_flags] => destruct (exec_stmts v ss no_flags) as [f1|] eqn:E1; [|discriminate] end.
  destruct (exec_rows d rest f1) as [f2|] eqn:E2; [|discriminate].
  destruct (any_flag f2) eqn:A2; [discriminate|]. intros _.
  assert (A1 : any_flag f1 = false).
  { destruct (any_flag f1) eqn:A1; [|reflexivity]. rewrite (exec_rows_flag _ _ _ _ E2 A1) in A2. discriminate. }
  clear E2 A2. destruct (lookup "patient_number" d) as [v|].
  - destruct v as [z|b|q| | |f]; simpl in E1.
    + left. exists z. split; [reflexivity|]. unfold cmp0 in E1. simpl in E1.
      destruct (Qle_bool (inject_Z z) 0) eqn:Q; simpl in E1; injection E1 as <-; [discriminate|].
      destruct (Z_lt_le_dec 0 z) as [L|L]; [exact L|]. exfalso.
      assert (X : Qle_bool (inject_Z z) 0 = true) by (apply Qle_bool_iff; change 0%Q with (inject_Z 0); rewrite <- Zle_Qle; exact L).
      congruence.
    + right. eauto.
    + exfalso. unfold cmp0 in E1. simpl in E1. destruct (Qle_bool q 0); simpl in E1; injection E1 as <-; discriminate.
    + discriminate E1.
    + discriminate E1.
    + discriminate E1.
  - simpl in E1. injection E1 as <-. discriminate.
Qed.

Lemma accepted_random_count d ps :
  construct d = Ok ps -> d_visit_type d = Some VtRandom ->
  (exists n, lookup "patient_number" ps = Some (VInt n) /\ (0 < n)%Z) \/ (exists b, lookup "patient_number" ps = Some (VBool b)).
Proof.
  unfold construct. intros H E. rewrite E in H.
  destruct (set_param_study VtRandom (d_params d)) as [ps'|]; [|discriminate].
  destruct (validate VtRandom (d_features d) ps') as [[]| |] eqn:V; try discriminate. injection H as <-.
  unfold validate in V. destruct (check_features (d_features d)); try discriminate.
  destruct (check_params ps' random_rows) as [[]| |] eqn:C; try discriminate.
  exact (checked_count _ _ C).
Qed.

(** no design of another visit type is accepted *)
Lemma accepted_not_other d ps : construct d = Ok ps -> d_visit_type d <> Some VtOther.
Proof.
  unfold construct. intros H E. rewrite E in H. simpl in H. unfold validate in H.
  destruct (check_features (d_features d)); discriminate.
Qed.

(* ------------------------------------------------------------------------------------------ *)
Section WfProofs.
  Variable T : Type.
  Variable add : T -> T -> T.
  Variable absT : T -> T.
  Variable ltb : T -> T -> bool.
  Variable key : Z -> T -> Z.
  Variable ofQ : Q -> T.

  (** every column of [d] is bound in [e] to a list of [n] values *)
  Definition env_ok (n : nat) (e : env T) (d : sdom) : Prop :=
    forall c, in_dom c d = true -> exists l, elookup T c e = Some l /\ List.length l = n.

  Lemma env_ok_nil n : env_ok n [] [].
  Proof. intros c H. discriminate. Qed.

  Lemma env_ok_cons n e d c l : env_ok n e d -> List.length l = n -> env_ok n ((c, l) :: e) (c :: d).
  Proof.
    intros H L c' Hc. simpl in *. destruct (String.eqb c' c); [eauto|]. simpl in Hc. auto.
  Qed.

  Lemma env_ok_weak n e d c l : env_ok n e d -> List.length l = n -> env_ok n ((c, l) :: e) d.
  Proof.
    intros H L c' Hc. simpl. destruct (String.eqb c' c); [eauto | auto].
  Qed.

  Lemma zip_add_len : forall a b, List.length a = List.length b ->
    exists l, zip_add T add a b = Some l /\ List.length l = List.length a.
  Proof.
    induction a as [|x a IH]; intros [|y b] H; simpl in *; try discriminate; [eauto|].
    destruct (IH b) as (l & E & L); [lia|]. rewrite E. eexists. split; [reflexivity|]. simpl. now rewrite L.
  Qed.

  (** ** expressions *)
  Lemma eval_vec_total n e d x : env_ok n e d -> vec_wf d x = true ->
    forall tp, gpost (fun o => List.length (fst (fst o)) = n) (eval_vec T add absT n e x tp).
  Proof.
    intros He. induction x as [c| |[[lo sc] [|]]|a IH|a IHa b IHb]; simpl; intros W tp; try discriminate.
    - destruct (He c W) as (l & E & L). rewrite E. exact L.
    - destruct tp as [|[v|s] r]; simpl; auto. destruct (List.length v =? n)%nat eqn:E; simpl; [|exact I].
      now apply Nat.eqb_eq in E.
    - specialize (IH W tp). destruct (eval_vec T add absT n e a tp) as [[[l r] g]| | |]; simpl in *; auto.
      now rewrite map_length.
    - apply andb_true_iff in W. destruct W as [Wa Wb]. specialize (IHa Wa tp).
      destruct (eval_vec T add absT n e a tp) as [[[la r] g]| | |]; simpl in *; auto.
      specialize (IHb Wb r). destruct (eval_vec T add absT n e b r) as [[[lb r'] g']| | |]; simpl in *; auto.
      destruct (zip_add_len la lb) as (l & E & L); [congruence|]. rewrite E. simpl. congruence.
  Qed.

  Lemma eval_scal_total x : scal_wf x = true -> forall t tp, not_crash (eval_scal T add absT t x tp).
  Proof.
    induction x as [c| |[[lo sc] [|]]|a IH|a IHa b IHb]; simpl; intros W t tp; try discriminate; try exact I.
    - destruct tp as [|[v|s] r]; exact I.
    - specialize (IH W t tp). destruct (eval_scal T add absT t a tp) as [[[v r] g]| | |]; simpl in *; auto.
    - apply andb_true_iff in W. destruct W as [Wa Wb]. specialize (IHa Wa t tp).
      destruct (eval_scal T add absT t a tp) as [[[va r] g]| | |]; simpl in *; auto.
      specialize (IHb Wb t r). destruct (eval_scal T add absT t b r) as [[[vb r'] g']| | |]; simpl in *; auto.
  Qed.

  (** ** column assignments *)
  Lemma run_cols_total n : forall cs e d d' tp, env_ok n e d -> cols_wf d cs = Some d' ->
    gpost (fun o => env_ok n (fst (fst o)) d') (run_cols T add absT n e cs tp).
  Proof.
    induction cs as [|[c x] rest IH]; simpl; intros e d d' tp He W.
    - injection W as <-. exact He.
    - destruct (vec_wf d x) eqn:Wx; [|discriminate].
      pose proof (eval_vec_total n e d x He Wx tp) as H.
      destruct (eval_vec T add absT n e x tp) as [[[l r] g]| | |]; simpl in *; auto.
      specialize (IH ((c, l) :: e) (c :: d) d' r (env_ok_cons n e d c l He H) W).
      destruct (run_cols T add absT n ((c, l) :: e) rest r) as [[[e2 r2] g2]| | |]; simpl in *; auto.
  Qed.

  Lemma run_cols_repeat_total n s x d : vec_wf d x = true -> forall k e tp, env_ok n e d ->
    gpost (fun o => env_ok n (fst (fst o)) d) (run_cols T add absT n e (repeat (s, x) k) tp).
  Proof.
    intros Wx. induction k as [|k IH]; simpl; intros e tp He; [exact He|].
    pose proof (eval_vec_total n e d x He Wx tp) as H.
    destruct (eval_vec T add absT n e x tp) as [[[l r] g]| | |]; simpl in *; auto.
    specialize (IH ((s, l) :: e) r (env_ok_weak n e d s l He H)).
    destruct (run_cols T add absT n ((s, l) :: e) (repeat (s, x) k) r) as [[[e2 r2] g2]| | |]; simpl in *; auto.
  Qed.

  Lemma run_cols_app n : forall a e tp b,
    run_cols T add absT n e (a ++ b) tp =
    gbind (run_cols T add absT n e a tp) (fun o => match o with (e1, r1, g1) =>
    gbind (run_cols T add absT n e1 b r1) (fun o' => match o' with (e2, r2, g2) => GOk (e2, r2, (g1 ++ g2)%list) end) end).
  Proof.
    induction a as [|[c x] a IH]; intros e tp b.
    - simpl. destruct (run_cols T add absT n e b tp) as [[[e2 r2] g2]| | |]; reflexivity.
    - simpl. destruct (eval_vec T add absT n e x tp) as [[[l r] g]| | |]; simpl; try reflexivity.
      rewrite IH. destruct (run_cols T add absT n ((c, l) :: e) a r) as [[[e1 r1] g1]| | |]; simpl; try reflexivity.
      destruct (run_cols T add absT n e1 b r1) as [[[e2 r2] g2]| | |]; simpl; try reflexivity.
      now rewrite app_assoc.
  Qed.

  (** the individual-parameter columns: xi, tau, one per source *)
  Lemma ip_cols_total n P nsrc d1 tp :
    cols_wf [] (gp_ip P) = Some d1 -> vec_wf d1 (gp_source P) = true ->
    gpost (fun o => env_ok n (fst (fst o)) d1) (run_cols T add absT n [] (ip_cols P nsrc) tp).
  Proof.
    intros W1 Ws. unfold ip_cols. rewrite run_cols_app.
    pose proof (run_cols_total n (gp_ip P) [] [] d1 tp (env_ok_nil n) W1) as H.
    destruct (run_cols T add absT n [] (gp_ip P) tp) as [[[e1 r1] g1]| | |]; simpl in *; auto.
    pose proof (run_cols_repeat_total n "sources"%string (gp_source P) d1 Ws nsrc e1 r1 H) as H2.
    destruct (run_cols T add absT n e1 (repeat ("sources"%string, gp_source P) nsrc) r1) as [[[e2 r2] g2]| | |]; simpl in *; auto.
  Qed.

  (** ** the visit loop *)
  Lemma run_loop_total step : scal_wf step = true ->
    forall fuel t fu tp, not_crash (run_loop T add absT ltb fuel step t fu tp).
  Proof.
    intros W. induction fuel as [|f IH]; simpl; intros t fu tp; destruct (ltb t fu); simpl; auto.
    pose proof (eval_scal_total step W t tp) as H.
    destruct (eval_scal T add absT t step tp) as [[[t' r] g]| | |]; simpl in *; auto.
    specialize (IH t' fu r). destruct (run_loop T add absT ltb f step t' fu r) as [[[l r'] g']| | |]; simpl in *; auto.
  Qed.

  Lemma col_at_some n e d c i : env_ok n e d -> in_dom c d = true -> (i < n)%nat -> exists t, col_at T e c i = Some t.
  Proof.
    intros He Hc Hi. unfold col_at. destruct (He c Hc) as (l & E & L). rewrite E.
    destruct (nth_error l i) eqn:N; [eauto|]. apply nth_error_None in N. lia.
  Qed.

  Lemma run_inds_total n fuel lp e d : env_ok n e d ->
    in_dom (lp_start lp) d = true -> in_dom (lp_end lp) d = true -> scal_wf (lp_step lp) = true ->
    forall is tp, Forall (fun i => (i < n)%nat) is -> not_crash (run_inds T add absT ltb fuel lp e is tp).
  Proof.
    intros He Hs Hf Hw. induction is as [|i rest IH]; simpl; intros tp F; [exact I|].
    inversion F as [|? ? Hi F']; subst.
    destruct (col_at_some n e d _ i He Hs Hi) as (t0 & ->). destruct (col_at_some n e d _ i He Hf Hi) as (fu & ->).
    pose proof (run_loop_total _ Hw fuel t0 fu tp) as H.
    destruct (run_loop T add absT ltb fuel (lp_step lp) t0 fu tp) as [[[l r] g]| | |]; simpl in *; auto.
    specialize (IH r F'). destruct (run_inds T add absT ltb fuel lp e rest r) as [[[ls r'] g']| | |]; simpl in *; auto.
  Qed.

  (** ** the two designs *)
  Theorem run_random_never_crashes P n nsrc tp : prog_wf P = true -> not_crash (run_random T add absT ltb P n nsrc tp).
  Proof.
    unfold prog_wf. intros W.
    destruct (cols_wf [] (gp_ip P)) as [d1|] eqn:W1; [|discriminate]. apply andb_true_iff in W. destruct W as [Ws W].
    destruct (cols_wf d1 (gp_cols P)) as [d2|] eqn:W2; [|discriminate].
    apply andb_true_iff in W. destruct W as [W Wstep]. apply andb_true_iff in W. destruct W as [Wst Wen].
    unfold run_random.
    pose proof (ip_cols_total n P nsrc d1 tp W1 Ws) as H.
    destruct (run_cols T add absT n [] (ip_cols P nsrc) tp) as [[[e r] g]| | |]; simpl in *; auto.
    pose proof (run_cols_total n (gp_cols P) e d1 d2 r H W2) as H2.
    destruct (run_cols T add absT n e (gp_cols P) r) as [[[e' r'] g']| | |]; simpl in *; auto.
    assert (F : Forall (fun i => (i < n)%nat) (seq 0 n)) by (apply Forall_forall; intros i Hi; apply in_seq in Hi; lia).
    pose proof (run_inds_total n (S (List.length r')) (gp_loop P) e' d2 H2 Wst Wen Wstep (seq 0 n) r' F) as H3.
    destruct (run_inds T add absT ltb (S (List.length r')) (gp_loop P) e' (seq 0 n) r') as [[[vs r''] g'']| | |]; simpl in *; auto.
  Qed.

  Theorem run_table_crash_iff P nsrc f tp : prog_wf P = true ->
    (run_table T add absT ofQ P nsrc f tp = GCrash <-> all_string_ids f = false).
  Proof.
    unfold prog_wf. intros W.
    destruct (cols_wf [] (gp_ip P)) as [d1|] eqn:W1; [|discriminate]. apply andb_true_iff in W. destruct W as [Ws _].
    unfold run_table. destruct (all_string_ids f); simpl; [|split; reflexivity].
    pose proof (ip_cols_total (List.length (table_ids f)) P nsrc d1 tp W1 Ws) as H.
    destruct (run_cols T add absT (List.length (table_ids f)) [] (ip_cols P nsrc) tp) as [[[e r] g]| | |]; simpl in *;
      split; intros X; try discriminate; contradiction.
  Qed.

  (** a table design on a tape of one vector of [n_groups] values per column: the generation completes and leaves the rest *)
  Lemma run_cols_draws_total n : forall cs vs e rest,
    forallb (fun c => is_vec_draw (snd c)) cs = true -> List.length vs = List.length cs ->
    Forall (fun v : list T => List.length v = n) vs ->
    exists e' g, run_cols T add absT n e cs (vec_tape vs rest) = GOk (e', rest, g).
  Proof.
    unfold vec_tape. induction cs as [|[c x] cs IH]; intros [|v vs] e rest W L F; simpl in *; try discriminate; [eauto|].
    apply andb_true_iff in W. destruct W as [Wx W]. inversion F as [|? ? Hv F']; subst.
    destruct x as [| |[[lo sc] [|]]| |]; try discriminate. simpl. rewrite Nat.eqb_refl. simpl.
    destruct (IH vs ((c, v) :: e) rest W ltac:(lia) F') as (e' & g & E). rewrite E. simpl. eauto.
  Qed.

  Lemma ip_draws_forallb P nsrc : ip_draws_only P = true -> forallb (fun c => is_vec_draw (snd c)) (ip_cols P nsrc) = true.
  Proof.
    unfold ip_draws_only, ip_cols. intros H. apply andb_true_iff in H. destruct H as [H1 H2].
    rewrite forallb_app, H1. simpl. induction nsrc as [|k IH]; simpl; [reflexivity|]. now rewrite H2.
  Qed.

  Theorem run_table_total P nsrc f vs rest :
    ip_draws_only P = true -> all_string_ids f = true ->
    List.length vs = (List.length (gp_ip P) + nsrc)%nat -> Forall (fun v : list T => List.length v = n_groups f) vs ->
    exists g, run_table T add absT ofQ P nsrc f (vec_tape vs rest)
              = GOk (map (fun id => (id, table_times T ofQ f id)) (table_ids f), rest, g).
  Proof.
    intros D A L F. unfold run_table. rewrite A. simpl.
    rewrite <- (table_ids_length f A) in F.
    destruct (run_cols_draws_total (List.length (table_ids f)) (ip_cols P nsrc) vs [] rest (ip_draws_forallb P nsrc D)) as (e' & g & E);
      [unfold ip_cols; now rewrite app_length, repeat_length | exact F|].
    rewrite E. simpl. eauto.
  Qed.

  (** ** the whole generation, integer precision [k] before the loop *)
  Notation generate := (generate T add absT ltb key ofQ).

  Theorem generate_random_crash_iff opts k dflt P nsrc d ps tp :
    prog_wf P = true -> construct d = Ok ps -> d_visit_type d = Some VtRandom ->
    (generate opts (Some k) dflt P nsrc VtRandom ps tp = GCrash <-> exists b, lookup "patient_number" ps = Some (VBool b)).
  Proof.
    intros W C V. destruct (accepted_spacing_ok dflt d ps VtRandom C V) as (ms & Hms).
    unfold SimulateGen.generate. rewrite Hms. destruct (precision_total opts k ms) as (p & Ep & _). rewrite Ep.
    destruct (accepted_random_count d ps C V) as [(n & -> & Hn)|(b & ->)].
    - destruct (n <? 0)%Z eqn:En; [apply Z.ltb_lt in En; lia|].
      pose proof (run_random_never_crashes P (Z.to_nat n) nsrc tp W) as H.
      destruct (run_random T add absT ltb P (Z.to_nat n) nsrc tp) as [[[out r] g]| | |]; simpl in *;
        split; intros X; try discriminate; try contradiction; destruct X as (b & X); discriminate.
    - split; [eauto | reflexivity].
  Qed.

  Theorem generate_table_crash_iff opts k dflt P nsrc d ps tp :
    prog_wf P = true -> construct d = Ok ps -> d_visit_type d = Some VtDataframe ->
    exists f, lookup "df_visits" ps = Some (VFrame f) /\
      (generate opts (Some k) dflt P nsrc VtDataframe ps tp = GCrash <-> all_string_ids f = false).
  Proof.
    intros W C V. destruct (accepted_table d ps C V) as (f & -> & _). exists f. split; [reflexivity|].
    unfold SimulateGen.generate. simpl lookup. destruct (precision_total opts k dflt) as (p & Ep & _). rewrite Ep.
    pose proof (run_table_crash_iff P nsrc f tp W) as H.
    destruct (run_table T add absT ofQ P nsrc f tp) as [[[out r] g]| | |]; simpl; split; intros X;
      first [ discriminate X | reflexivity | (apply H; reflexivity) | (apply H in X; discriminate X) ].
  Qed.

  Theorem generate_table_total opts k dflt P nsrc d ps vs rest :
    ip_draws_only P = true -> construct d = Ok ps -> d_visit_type d = Some VtDataframe ->
    forall f, lookup "df_visits" ps = Some (VFrame f) -> all_string_ids f = true ->
    List.length vs = (List.length (gp_ip P) + nsrc)%nat -> Forall (fun v : list T => List.length v = n_groups f) vs ->
    exists o, generate opts (Some k) dflt P nsrc VtDataframe ps (vec_tape vs rest) = GOk o /\ go_rest o = rest /\
              map fst (go_requested o) = table_ids f.
  Proof.
    intros D C V f Hf A L F. unfold SimulateGen.generate. rewrite Hf.
    destruct (precision_total opts k dflt) as (p & Ep & _). rewrite Ep.
    destruct (run_table_total P nsrc f vs rest D A L F) as (g & E). rewrite E. simpl. eexists. split; [reflexivity|].
    simpl. split; [reflexivity|]. rewrite map_map. simpl. apply map_id.
  Qed.
End WfProofs.
