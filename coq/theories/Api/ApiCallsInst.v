(* Concrete runs of the call-level scripts of ApiCalls.v on the memo table of ApiInst.v (a, b independent, c = a + b cached):
   non-vacuity of the theorems of ApiCallsProofs.v / Props/C13.v.  Variable 0 (a) plays an individual variable (and the time
   points for estimate), variable 1 (b) the kept model parameter, variable 2 (c) the trajectory. *)
From Coq Require Import List Arith Bool Lia ZArith.
From Leaspy Require Import Api.ApiModel Api.ApiProofs Api.ApiInst Api.ApiCalls Api.ApiCallsProofs.
Import ListNotations.

Module MemoCalls.
  Import Memo.

  Definition est2 : list (ev V) := estimate_many V 0 0 [2] [(Some 7%Z, []); (Some 8%Z, [])].

  Definition body : list (ev V) := [EGet Cur 2; EDraw GTorch (fun _ => true); ESet Cur 0 hd_or; EGet Cur 2].
  Definition tail : list (ev V) := [EClone Cur; ESet (Loc 1) 0 (fun _ => Some 1%Z); EGet (Loc 1) 2].
  Definition init_ind : list (nat * (regs V -> option V)) := [(0, fun _ => Some 0%Z)].
  Definition mcmc_full_script : list (ev V) := mcmc_full V 3 [] init_ind body [] [0] tail.

  Definition mcmc_full_hyps : Prop :=
    simOn top after_fit after_fit
    /\ (forall n, In n ([] ++ [0]) -> kept n = false /\ indep n = true)
    /\ (forall nf, In nf init_ind -> In (fst nf) ([] ++ [0]))
    /\ forallb (fun e => writes_in V (mem ([] ++ [0])) e && noclone_ev V e) body = true
    /\ forallb (clones_from V 1) tail = true
    /\ closed anc (vadds (map fst init_ind) (vadds (map fst (@nil (nat * option V))) kept)).

  Lemma mcmc_full_hyps_hold : mcmc_full_hyps.
  Proof.
    unfold mcmc_full_hyps. split; [|split; [|split; [|split; [|split]]]].
    - unfold simOn, wf, after_fit; simpl. repeat split; auto.
    - intros n [<-|[]]. split; reflexivity.
    - intros nf [<-|[]]. left; reflexivity.
    - reflexivity.
    - reflexivity.
    - intros n. destruct n as [|[|[|n]]]; reflexivity.
  Qed.

  (* the second call starts from the state and the generator positions the first one left; same registers *)
  Definition mcmc_repeat_demo : Prop :=
    match api_call mcmc_full_script after_fit (4, 5, 6) with
    | Some c1 =>
        match model_state V c1 with
        | Some s1 => option_map (fun c => cRegs c) (api_call mcmc_full_script s1 (cPos c1)) = Some (cRegs c1)
                     /\ s1 <> after_fit /\ cPos c1 <> (4, 5, 6) /\ length (cRegs c1) = 4
        | None => False
        end
    | None => False
    end.

  Definition scipy_full : list (ev V) := scipy_call V 3 [1] (scipy_script V [] 0 0 [0] opt).

  Lemma call_examples :
    option_map (fun c => (cRegs c, nth_error (cS c) 0, cCur c)) (api_call est2 after_fit (4, 5, 6))
      = Some ([Some 18%Z; Some 17%Z], Some after_fit, 0)
    /\ option_map (fun c => (cCur c, option_map (fun s => (snd (sread s 0), snd (sread s 1))) (model_state V c)))
                  (api_call mcmc_full_script after_fit (4, 5, 6)) = Some (1, Some (None, Some 10%Z))
    /\ mcmc_full_hyps
    /\ mcmc_repeat_demo
    /\ option_map (fun c => (cCur c, hd_or (cRegs c))) (api_call scipy_full after_fit (0, 0, 0)) = Some (0, Some 5%Z).
  Proof.
    split; [vm_compute; reflexivity|]. split; [vm_compute; reflexivity|]. split; [exact mcmc_full_hyps_hold|].
    split; [|vm_compute; reflexivity].
    unfold mcmc_repeat_demo. vm_compute. repeat split; try reflexivity; discriminate.
  Qed.
End MemoCalls.
