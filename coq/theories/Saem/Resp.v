(** C04 (extension) — the cluster RESPONSIBILITIES of the mixture model, inside the model.
    Definitions only; proofs are in RespProofs.v, the tie to the expressions regenerated from the running
    code (gen/GenC04.v: gen_resp_logit etc., gen_probs_rule, gen_mix_mean_rule) in RespTie.v, the executable
    comparisons (vm_compute on recorded steps) in RespExec.v.

    Mirrors (leaspy @ $VERIF_REPO/src/leaspy/models/utilities.py), the four mixture rules, each of which recomputes
        nll_cluster = -state["nll_regul_ind_sum_ind"].value                       (n_individuals x n_clusters)
        probs_ind   = torch.nn.Softmax(dim=1)(torch.clamp(nll_cluster, -100.0))
    ->  [logit], [softmax], [resp_row], [resp]
      compute_probs_from_state                         probs_ind.sum(dim=0) / n_inds                 -> [probs_updateR]
      compute_ind_param_mean_from_suff_stats_mixture   (probs_ind * x).sum(0) / probs_ind.sum(0)     -> [wmeanR]
      compute_ind_param_std_from_suff_stats_mixture(_burn_in)  (probs_ind * s).sum(0) / probs_ind.sum(0), s constant over
                                                       individuals                                   -> MStep.mix_spread
    The responsibilities involve [exp]: they live in [R].  The rational rules of MStep.v ([probs_update], [wmean]) are the
    same rules on rational weights (RespProofs.probs_updateR_Q2R, wmeanR_Q2R): nothing is forked. *)
From Coq Require Import Reals QArith Qreals List Bool.
From Leaspy Require Import Saem.MStep.
Import ListNotations.
Local Open Scope R_scope.

(** tensor axes, as named by the tracer (harness/translate/resp_rules.py) *)
Inductive axis : Type := AxInd | AxCluster | AxOther.

Definition sumR (l : list R) : R := fold_right Rplus 0 l.
Definition lenR {A} (l : list A) : R := INR (length l).

(** [torch.clamp(-t, -100.0)]: the cluster log-density, bounded below *)
Definition clamp_min : R := -100.
Definition logit (t : R) : R := Rmax (- t) clamp_min.

(** [torch.nn.Softmax(dim=1)] on one row (one individual, all clusters) *)
Definition softmax (z : list R) : list R := map (fun a => exp a / sumR (map exp z)) z.

(** one individual: its per-cluster terms [nll_regul_ind_sum_ind[i, :]] -> its responsibilities *)
Definition resp_row (terms : list R) : list R := softmax (map logit terms).
Definition resp (T : list (list R)) : list (list R) := map resp_row T.

Definition prob_vector (nc : nat) (row : list R) : Prop :=
  length row = nc /\ Forall (fun p => 0 < p <= 1) row /\ sumR row = 1.

(** the real-valued rules (the rational ones of MStep.v on real weights) *)
Definition colR (c : nat) (Rm : list (list R)) : list R := map (fun row => nth c row 0) Rm.

Definition probs_updateR (nc : nat) (Rm : list (list R)) : list R :=
  map (fun c => sumR (colR c Rm) / lenR Rm) (seq 0 nc).

Fixpoint dotR (w x : list R) : R :=
  match w, x with a :: w', b :: x' => a * b + dotR w' x' | _, _ => 0 end.

(** an empty cluster (responsibilities of that cluster summing to 0: torch 0/0 = nan) is [Undefined], not totalised *)
Definition wmeanR (w x : list R) : res R :=
  if Req_EM_T (sumR w) 0 then Undefined else Ok (dotR w x / sumR w).

(** the parameters of one mixture M-step from the per-cluster terms [T] (rows: individuals) *)
Definition mix_probs (nc : nat) (T : list (list R)) : list R := probs_updateR nc (resp T).
Definition mix_mean (c : nat) (T : list (list R)) (x : list R) : res R := wmeanR (colR c (resp T)) x.

(** * What the mixture mean maximises: the responsibility-weighted Gaussian log-likelihood of one cluster
      sum_i w_i * ( - ln s - (x_i - m)^2 / (2 s^2) )      (+ a constant)                                   *)
Fixpoint wss (w x : list R) (m : R) : R :=          (* weighted sum of squares *)
  match w, x with a :: w', b :: x' => a * ((b - m) * (b - m)) + wss w' x' m | _, _ => 0 end.

Fixpoint dwss (w x : list R) (m : R) : R :=         (* its derivative in m (RespProofs.dwss_is_derivative) *)
  match w, x with a :: w', b :: x' => a * (-2 * (b - m)) + dwss w' x' m | _, _ => 0 end.

Fixpoint sumw (w x : list R) : R :=                 (* the weights actually paired with a value *)
  match w, x with a :: w', _ :: x' => a + sumw w' x' | _, _ => 0 end.

Definition wloglik (w x : list R) (m s : R) : R := - (ln s) * sumw w x - wss w x m / (2 * (s * s)).

(** the maximiser of [wloglik] in the variance: the responsibility-weighted dispersion (NOT what the code's mixture std
    rule computes, see RespProofs.mix_std_is_weighted_dispersion_partial) *)
Definition wvar (w x : list R) (m : R) : R := wss w x m / sumw w x.

(** * Non-finite per-cluster terms: an extended-real reading of the two torch calls, where it is determinate.
    [torch.clamp] propagates nan, [max(-inf, -100) = -100], [max(+inf, -100) = +inf]; the softmax of a row holding a +inf or
    a nan logit is nan in EVERY entry of that row ([x - max(x)] is nan there): [None]. *)
Inductive xr : Type := Fin (r : R) | PInf | NInf | NaN.

Definition xlogit (t : xr) : xr :=
  match t with Fin r => Fin (logit r) | PInf => Fin clamp_min | NInf => PInf | NaN => NaN end.

Fixpoint fin_list (l : list xr) : option (list R) :=
  match l with
  | [] => Some []
  | Fin r :: l' => match fin_list l' with Some rs => Some (r :: rs) | None => None end
  | _ :: _ => None
  end.

Definition xresp_row (ts : list xr) : option (list R) :=
  match fin_list (map xlogit ts) with Some z => Some (softmax z) | None => None end.

Fixpoint all_some {A} (l : list (option A)) : option (list A) :=
  match l with
  | [] => Some []
  | Some a :: l' => match all_some l' with Some r => Some (a :: r) | None => None end
  | None :: _ => None
  end.

(** every reduction over individuals meets the nan row: the whole updated vector is nan ([None]); no mixture rule raises *)
Definition xmix_probs (nc : nat) (T : list (list xr)) : option (list R) :=
  match all_some (map xresp_row T) with Some Rm => Some (probs_updateR nc Rm) | None => None end.

Definition xmix_mean (c : nat) (T : list (list xr)) (x : list R) : option (res R) :=
  match all_some (map xresp_row T) with Some Rm => Some (wmeanR (colR c Rm) x) | None => None end.

(** [compute_std_from_variance] on a non-finite variance: [nan < tol] is false — nan is RETURNED, not raised; [+inf] is
    returned ([sqrt inf = inf]); [-inf < tol] raises. *)
Inductive xq : Type := FinQ (q : Q) | PInfQ | NInfQ | NaNQ.
Inductive xout : Type := Returns (v : xq) | Raises.

Definition xguard (tol : Q) (v : xq) : xout :=
  match v with
  | FinQ q => match guard tol q with Collapse => Raises | _ => Returns (FinQ q) end
  | PInfQ => Returns PInfQ
  | NInfQ => Raises
  | NaNQ => Returns NaNQ
  end.
