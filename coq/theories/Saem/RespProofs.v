(** C04 (extension) — proofs about the responsibilities (Resp.v) and the mixture rules fed with them. *)
From Coq Require Import Reals QArith Qreals List Bool Lra Lia.
From Leaspy Require Import Base.QAux Saem.MStep Saem.MStepProofs Saem.Resp.
Import ListNotations.
Local Open Scope R_scope.

(** * Sums over [R] *)
Lemma sumR_cons x l : sumR (x :: l) = x + sumR l.
Proof. reflexivity. Qed.

Lemma sumR_nonneg l : (forall y, In y l -> 0 <= y) -> 0 <= sumR l.
Proof.
  induction l as [|a l IH]; intros H; simpl; [lra|].
  pose proof (H a (or_introl eq_refl)). assert (0 <= sumR l) by (apply IH; intros; apply H; now right). lra.
Qed.

Lemma In_le_sumR l x : (forall y, In y l -> 0 <= y) -> In x l -> x <= sumR l.
Proof.
  induction l as [|a l IH]; intros H Hx; [contradiction|]. simpl.
  assert (Hl : forall y, In y l -> 0 <= y) by (intros; apply H; now right).
  pose proof (sumR_nonneg l Hl). pose proof (H a (or_introl eq_refl)).
  destruct Hx as [->|Hx]; [lra|]. pose proof (IH Hl Hx). lra.
Qed.

Lemma sumR_map_div {A} (f : A -> R) (k : R) l : sumR (map (fun x => f x / k) l) = sumR (map f l) / k.
Proof. induction l as [|x l IH]; simpl; [unfold Rdiv; ring | rewrite IH; unfold Rdiv; ring]. Qed.

Lemma sumR_map_mult_r {A} (f : A -> R) (k : R) l : sumR (map (fun x => f x * k) l) = sumR (map f l) * k.
Proof. induction l as [|x l IH]; simpl; [ring | rewrite IH; ring]. Qed.

Lemma sumR_map_plus {A} (f g : A -> R) l : sumR (map (fun x => f x + g x) l) = sumR (map f l) + sumR (map g l).
Proof. induction l as [|x l IH]; simpl; [ring | rewrite IH; ring]. Qed.

Lemma sumR_map_const {A} (a : R) (l : list A) : sumR (map (fun _ => a) l) = lenR l * a.
Proof.
  unfold lenR. induction l as [|x l IH]; [simpl; ring|].
  change (length (x :: l)) with (S (length l)). rewrite S_INR. simpl map. rewrite sumR_cons, IH. ring.
Qed.

Lemma sumR_map_ext {A} (f g : A -> R) l : (forall x, In x l -> f x = g x) -> sumR (map f l) = sumR (map g l).
Proof.
  induction l as [|x l IH]; intros H; simpl; [reflexivity|].
  rewrite (H x (or_introl eq_refl)), IH; [reflexivity|]. intros; apply H; now right.
Qed.

Lemma lenR_pos {A} (l : list A) : l <> [] -> 0 < lenR l.
Proof. destruct l; [congruence|]. intros _. unfold lenR. apply lt_0_INR. simpl. lia. Qed.

Lemma sum_exp_pos z : z <> [] -> 0 < sumR (map exp z).
Proof.
  destruct z as [|a z]; [congruence|]. intros _. simpl.
  assert (0 <= sumR (map exp z)).
  { apply sumR_nonneg. intros y Hy. apply in_map_iff in Hy. destruct Hy as [b [<- _]]. left. apply exp_pos. }
  pose proof (exp_pos a). lra.
Qed.

(** * The softmax of a non-empty row is a probability vector with strictly positive entries *)
Lemma softmax_length z : length (softmax z) = length z.
Proof. unfold softmax. apply map_length. Qed.

Lemma softmax_entries z p : In p (softmax z) -> 0 < p <= 1.
Proof.
  unfold softmax. intros Hp. apply in_map_iff in Hp. destruct Hp as [a [<- Ha]].
  assert (Hne : z <> []) by (intros ->; contradiction).
  pose proof (sum_exp_pos z Hne) as HS. pose proof (exp_pos a) as Ha0.
  assert (Hle : exp a <= sumR (map exp z)).
  { apply In_le_sumR; [|now apply in_map].
    intros y Hy. apply in_map_iff in Hy. destruct Hy as [b [<- _]]. left. apply exp_pos. }
  split.
  - apply Rdiv_lt_0_compat; assumption.
  - apply (Rmult_le_reg_r (sumR (map exp z))); [exact HS|]. unfold Rdiv. rewrite Rmult_assoc, Rinv_l by lra. lra.
Qed.

Lemma softmax_sum z : z <> [] -> sumR (softmax z) = 1.
Proof.
  intros Hne. unfold softmax. rewrite (sumR_map_div exp (sumR (map exp z)) z).
  pose proof (sum_exp_pos z Hne). field. lra.
Qed.

Lemma softmax_prob_vector z : z <> [] -> prob_vector (length z) (softmax z).
Proof.
  intros Hne. split; [apply softmax_length|]. split; [|now apply softmax_sum].
  apply Forall_forall. intros p Hp. now apply softmax_entries in Hp.
Qed.

(** ** Each row of responsibilities is a probability vector, for ANY finite per-cluster terms (the clamp included). *)
Lemma resp_row_prob_vector (terms : list R) : terms <> [] -> prob_vector (length terms) (resp_row terms).
Proof.
  intros Hne. unfold resp_row. rewrite <- (map_length logit terms). apply softmax_prob_vector.
  destruct terms; [congruence | discriminate].
Qed.

Lemma resp_prob_vectors nc (T : list (list R)) :
  (0 < nc)%nat -> Forall (fun row => length row = nc) T -> Forall (prob_vector nc) (resp T).
Proof.
  intros Hnc HT. unfold resp. apply Forall_forall. intros r Hr. apply in_map_iff in Hr. destruct Hr as [row [<- Hrow]].
  rewrite Forall_forall in HT. rewrite <- (HT row Hrow). apply resp_row_prob_vector.
  intros ->. specialize (HT [] Hrow). simpl in HT. lia.
Qed.

(** the clamp gives a floor: when the best cluster's log-density is at most [U], every responsibility is at least
    [exp (-100 - U) / n_clusters] — no cluster is ever empty, and the bound does not depend on how unlikely the other
    clusters are (without the clamp a term [t] contributes [exp (-t)], arbitrarily small) *)
Lemma logit_ge t : clamp_min <= logit t.
Proof. unfold logit. apply Rmax_r. Qed.

Lemma logit_le t U : - t <= U -> clamp_min <= U -> logit t <= U.
Proof. intros. unfold logit. now apply Rmax_lub. Qed.

Lemma sumR_le_const (l : list R) (b : R) : (forall y, In y l -> y <= b) -> sumR l <= lenR l * b.
Proof.
  unfold lenR. induction l as [|a l IH]; intros H; [simpl; lra|].
  change (length (a :: l)) with (S (length l)). rewrite S_INR, sumR_cons.
  pose proof (H a (or_introl eq_refl)). assert (sumR l <= INR (length l) * b) by (apply IH; intros; apply H; now right). lra.
Qed.

Lemma resp_row_floor (terms : list R) (U : R) :
  terms <> [] -> clamp_min <= U -> Forall (fun t => - t <= U) terms ->
  Forall (fun p => exp (clamp_min - U) / lenR terms <= p) (resp_row terms).
Proof.
  intros Hne HU Hall. apply Forall_forall. intros p Hp. unfold resp_row, softmax in Hp.
  apply in_map_iff in Hp. destruct Hp as [a [<- Ha]]. apply in_map_iff in Ha. destruct Ha as [t [<- Ht]].
  set (z := map logit terms). assert (Hz : z <> []) by (subst z; destruct terms; [congruence|discriminate]).
  pose proof (sum_exp_pos z Hz) as HS. pose proof (lenR_pos terms Hne) as HK.
  assert (HSle : sumR (map exp z) <= lenR terms * exp U).
  { replace (lenR terms) with (lenR (map exp z)) by (unfold lenR, z; now rewrite !map_length).
    apply sumR_le_const. intros y Hy. apply in_map_iff in Hy. destruct Hy as [b [<- Hb]].
    subst z. apply in_map_iff in Hb. destruct Hb as [t' [<- Ht']].
    rewrite Forall_forall in Hall. pose proof (logit_le t' U (Hall t' Ht') HU) as H.
    destruct H as [H|H]; [left; now apply exp_increasing | right; now rewrite H]. }
  assert (Hnum : exp clamp_min <= exp (logit t)).
  { destruct (logit_ge t) as [H|H]; [left; now apply exp_increasing | right; now rewrite H]. }
  unfold Rminus. rewrite exp_plus, exp_Ropp. pose proof (exp_pos U) as HeU. pose proof (exp_pos clamp_min) as Hec.
  apply (Rmult_le_reg_r (sumR (map exp z))); [exact HS|].
  replace (exp (logit t) / sumR (map exp z) * sumR (map exp z)) with (exp (logit t)) by (field; lra).
  apply Rle_trans with (exp clamp_min * / exp U / lenR terms * (lenR terms * exp U)).
  - apply Rmult_le_compat_l; [|exact HSle].
    apply Rlt_le, Rdiv_lt_0_compat; [|exact HK]. apply Rmult_lt_0_compat; [exact Hec|]. now apply Rinv_0_lt_compat.
  - replace (exp clamp_min * / exp U / lenR terms * (lenR terms * exp U)) with (exp clamp_min) by (field; lra). exact Hnum.
Qed.

(** ** One cluster: the responsibility is 1 *)
Lemma resp_row_one (t : R) : resp_row [t] = [1].
Proof.
  unfold resp_row, softmax. simpl. f_equal. pose proof (exp_pos (logit t)). field. lra.
Qed.

Lemma resp_one_cluster (ts : list R) : resp (map (fun t => [t]) ts) = map (fun _ => [1]) ts.
Proof. unfold resp. rewrite map_map. apply map_ext. intros t. apply resp_row_one. Qed.

(** non-vacuity: two equally likely clusters; a cluster 800 nats less likely than the other still gets exp(-100)/2 at least *)
Example resp_example :
  resp_row [0; 0] = [1 / 2; 1 / 2] /\ prob_vector 2 (resp_row [0; 0]) /\
  Forall (fun p => exp (clamp_min - 0) / lenR [0; 800] <= p) (resp_row [0; 800]).
Proof.
  split; [|split].
  - unfold resp_row, softmax, logit, clamp_min. simpl.
    replace (Rmax (- 0) (-100)) with 0 by (rewrite Rmax_left; lra). rewrite exp_0. repeat f_equal; field.
  - apply (resp_row_prob_vector [0; 0]). discriminate.
  - apply resp_row_floor; [discriminate | unfold clamp_min; lra|]. repeat constructor; lra.
Qed.

(** * [probs]: the mean of the responsibilities is a probability vector *)
Lemma sumR_pos l : l <> [] -> (forall y, In y l -> 0 < y) -> 0 < sumR l.
Proof.
  destruct l as [|a l]; [congruence|]. intros _ H. simpl.
  pose proof (H a (or_introl eq_refl)).
  assert (0 <= sumR l) by (apply sumR_nonneg; intros y Hy; left; apply H; now right). lra.
Qed.

Lemma sumR_nth_seq (row : list R) : sumR (map (fun c => nth c row 0) (seq 0 (length row))) = sumR row.
Proof.
  induction row as [|x row IH]; [reflexivity|].
  simpl length. rewrite <- cons_seq, <- seq_shift, map_cons, map_map, !sumR_cons. cbn [nth]. now rewrite IH.
Qed.

Lemma sumR_cols (nc : nat) (Rm : list (list R)) :
  Forall (fun row => length row = nc) Rm ->
  sumR (map (fun c => sumR (colR c Rm)) (seq 0 nc)) = sumR (map sumR Rm).
Proof.
  induction 1 as [|row Rm Hr _ IH].
  - unfold colR. simpl. rewrite (sumR_map_const 0 (seq 0 nc)). ring.
  - unfold colR in *. simpl. rewrite (sumR_map_plus (fun c => nth c row 0) (fun c => sumR (map (fun r => nth c r 0) Rm))), IH.
    subst nc. now rewrite sumR_nth_seq.
Qed.

Lemma col_entries_pos nc (Rm : list (list R)) c :
  Forall (prob_vector nc) Rm -> (c < nc)%nat -> forall y, In y (colR c Rm) -> 0 < y.
Proof.
  intros Hs Hc y Hy. unfold colR in Hy. apply in_map_iff in Hy. destruct Hy as [row [<- Hrow]].
  rewrite Forall_forall in Hs. destruct (Hs row Hrow) as [Hl [Hp _]].
  rewrite Forall_forall in Hp. apply Hp. apply nth_In. now rewrite Hl.
Qed.

Lemma probs_updateR_spec (nc : nat) (Rm : list (list R)) :
  Rm <> [] -> Forall (prob_vector nc) Rm ->
  length (probs_updateR nc Rm) = nc /\ Forall (fun p => 0 < p <= 1) (probs_updateR nc Rm) /\ sumR (probs_updateR nc Rm) = 1.
Proof.
  intros Hne Hs. pose proof (lenR_pos Rm Hne) as Hn.
  assert (Hsum : sumR (probs_updateR nc Rm) = 1).
  { unfold probs_updateR. rewrite (sumR_map_div (fun c => sumR (colR c Rm)) (lenR Rm)), sumR_cols.
    - rewrite (sumR_map_ext sumR (fun _ => 1)).
      + rewrite sumR_map_const. field. lra.
      + intros row Hrow. rewrite Forall_forall in Hs. now destruct (Hs row Hrow) as [_ [_ E]].
    - eapply Forall_impl; [|exact Hs]. now intros row [E _]. }
  assert (Hpos : forall p, In p (probs_updateR nc Rm) -> 0 < p).
  { intros p Hp. unfold probs_updateR in Hp. apply in_map_iff in Hp. destruct Hp as [c [<- Hc]]. apply in_seq in Hc.
    apply Rdiv_lt_0_compat; [|exact Hn]. apply sumR_pos.
    - unfold colR. destruct Rm; [congruence | discriminate].
    - apply (col_entries_pos nc); [exact Hs | lia]. }
  split; [unfold probs_updateR; now rewrite map_length, seq_length|]. split; [|exact Hsum].
  apply Forall_forall. intros p Hp. split; [now apply Hpos|].
  rewrite <- Hsum. apply In_le_sumR; [|exact Hp]. intros y Hy. left. now apply Hpos.
Qed.

(** the [probs] update computed from ANY finite per-cluster terms is a probability vector *)
Lemma mix_probs_spec (nc : nat) (T : list (list R)) :
  (0 < nc)%nat -> T <> [] -> Forall (fun row => length row = nc) T ->
  length (mix_probs nc T) = nc /\ Forall (fun p => 0 < p <= 1) (mix_probs nc T) /\ sumR (mix_probs nc T) = 1.
Proof.
  intros Hnc Hne HT. unfold mix_probs. apply probs_updateR_spec; [|now apply resp_prob_vectors].
  unfold resp. destruct T; [congruence | discriminate].
Qed.

(** no cluster is ever empty: the responsibilities of a cluster sum to a positive number, so the mixture mean is always
    defined — the hypothesis [~ sumQ w == 0] of C04_mixture_mean is met by every matrix of responsibilities *)
Lemma resp_col_pos (nc : nat) (T : list (list R)) (c : nat) :
  (c < nc)%nat -> T <> [] -> Forall (fun row => length row = nc) T -> 0 < sumR (colR c (resp T)).
Proof.
  intros Hc Hne HT. apply sumR_pos.
  - unfold colR, resp. destruct T; [congruence | discriminate].
  - apply (col_entries_pos nc); [apply resp_prob_vectors; [lia | exact HT] | exact Hc].
Qed.

Lemma mix_mean_defined (nc : nat) (T : list (list R)) (c : nat) (x : list R) :
  (c < nc)%nat -> T <> [] -> Forall (fun row => length row = nc) T ->
  mix_mean c T x = Ok (dotR (colR c (resp T)) x / sumR (colR c (resp T))).
Proof.
  intros Hc Hne HT. pose proof (resp_col_pos nc T c Hc Hne HT) as H. unfold mix_mean, wmeanR.
  destruct (Req_EM_T (sumR (colR c (resp T))) 0) as [E|_]; [lra | reflexivity].
Qed.

(** the std rules average over individuals a quantity [s] that does not depend on the individual: with actual
    responsibilities the weights always cancel *)
Lemma mix_std_spread_resp (nc : nat) (T : list (list R)) (c : nat) (s : R) :
  (c < nc)%nat -> T <> [] -> Forall (fun row => length row = nc) T ->
  sumR (map (fun r => r * s) (colR c (resp T))) / sumR (colR c (resp T)) = s.
Proof.
  intros Hc Hne HT. pose proof (resp_col_pos nc T c Hc Hne HT) as H.
  rewrite (sumR_map_mult_r (fun r => r) s), map_id. field. lra.
Qed.

(** * The rational rules of MStep.v are these rules on rational weights *)
Lemma Q2R_lenQ {A} (l : list A) : Q2R (lenQ l) = lenR l.
Proof. unfold lenQ, lenR, Q2R. simpl. rewrite INR_IZR_INZ. field. Qed.

Lemma Q2R_sumQ (l : list Q) : Q2R (sumQ l) = sumR (map Q2R l).
Proof. induction l as [|a l IH]; simpl; [unfold Q2R; simpl; field | rewrite Q2R_plus, IH; reflexivity]. Qed.

Lemma Q2R_dotQ (w x : list Q) : Q2R (dotQ w x) = dotR (map Q2R w) (map Q2R x).
Proof.
  revert x. induction w as [|a w IH]; intros [|b x]; simpl; try (unfold Q2R; simpl; field).
  rewrite Q2R_plus, Q2R_mult, IH. reflexivity.
Qed.

Lemma Q2R_0_iff (q : Q) : Q2R q = 0 <-> (q == 0)%Q.
Proof.
  split; intros H.
  - apply eqR_Qeq. rewrite H. unfold Q2R; simpl; field.
  - rewrite (Qeq_eqR _ _ H). unfold Q2R; simpl; field.
Qed.

Lemma wmeanR_Q2R (w x : list Q) :
  wmeanR (map Q2R w) (map Q2R x) = res_map Q2R (wmean w x).
Proof.
  unfold wmeanR, wmean. rewrite <- Q2R_sumQ.
  destruct (Req_EM_T (Q2R (sumQ w)) 0) as [E|E]; destruct (Qeq_bool (sumQ w) 0) eqn:B; simpl.
  - reflexivity.
  - apply Q2R_0_iff in E. apply Qeq_bool_iff in E. congruence.
  - apply Qeq_bool_iff in B. apply Q2R_0_iff in B. contradiction.
  - f_equal. unfold Qdiv. rewrite Q2R_mult, Q2R_inv, Q2R_dotQ; [reflexivity|].
    intros C. apply E. now apply Q2R_0_iff.
Qed.

(** * ONE cluster: the mixture rules are the plain rules *)
Lemma dotR_ones {A} (ts : list A) (x : list R) : length ts = length x -> dotR (map (fun _ => 1) ts) x = sumR x.
Proof.
  revert x. induction ts as [|t ts IH]; intros [|b x] H; simpl in *; try discriminate; [reflexivity|].
  rewrite IH by lia. ring.
Qed.

Lemma colR_one_cluster (ts : list R) : colR 0 (resp (map (fun t => [t]) ts)) = map (fun _ => 1) ts.
Proof. rewrite resp_one_cluster. unfold colR. rewrite map_map. reflexivity. Qed.

Lemma one_cluster_rules (ts : list R) (xq : list Q) (s : R) :
  ts <> [] -> length ts = length xq ->
  let T := map (fun t => [t]) ts in
  resp T = map (fun _ => [1]) ts /\
  mix_probs 1 T = [1] /\
  mix_mean 0 T (map Q2R xq) = res_map Q2R (ind_mean_rule xq) /\
  sumR (map (fun r => r * s) (colR 0 (resp T))) / sumR (colR 0 (resp T)) = s.
Proof.
  intros Hne Hlen T. pose proof (lenR_pos ts Hne) as Hn.
  split; [apply resp_one_cluster|]. split; [|split].
  - unfold mix_probs, probs_updateR, T. simpl. rewrite colR_one_cluster, sumR_map_const.
    unfold lenR at 2. unfold resp. rewrite !map_length. fold (lenR ts). f_equal. field. lra.
  - unfold mix_mean, wmeanR, T. rewrite colR_one_cluster, sumR_map_const.
    destruct (Req_EM_T (lenR ts * 1) 0) as [E|_]; [lra|].
    rewrite dotR_ones by (now rewrite map_length).
    assert (Hx : xq <> []) by (intros ->; destruct ts; [congruence | discriminate]).
    assert (Er : ind_mean_rule xq = Ok (mean xq)) by (destruct xq; [congruence | reflexivity]).
    rewrite Er. cbn [res_map]. f_equal. unfold mean, Qdiv.
    assert (Hq : ~ (lenQ xq == 0)%Q).
    { intros C. apply Q2R_0_iff in C. rewrite Q2R_lenQ in C. unfold lenR in *. rewrite <- Hlen in C. lra. }
    rewrite Q2R_mult, Q2R_inv by exact Hq. rewrite Q2R_sumQ, Q2R_lenQ.
    unfold lenR. rewrite Hlen. unfold Rdiv. f_equal. f_equal. ring.
  - apply (mix_std_spread_resp 1 T 0 s); [lia | unfold T; destruct ts; [congruence | discriminate]|].
    unfold T. apply Forall_forall. intros r Hr. apply in_map_iff in Hr. now destruct Hr as [t [<- _]].
Qed.

(** * The mixture mean is the closed-form maximiser of the responsibility-weighted Gaussian log-likelihood *)
Lemma wss_closed w x m : wss w x m = wss w x 0 - 2 * m * dotR w x + m * m * sumw w x.
Proof. revert x. induction w as [|a w IH]; intros [|b x]; simpl; try ring. rewrite IH. ring. Qed.

Lemma dwss_closed w x m : dwss w x m = -2 * (dotR w x - m * sumw w x).
Proof. revert x. induction w as [|a w IH]; intros [|b x]; simpl; try ring. rewrite IH. ring. Qed.

Lemma sumw_same_length (w x : list R) : length w = length x -> sumw w x = sumR w.
Proof. revert x. induction w as [|a w IH]; intros [|b x] H; simpl in *; try discriminate; [reflexivity|]. rewrite IH by lia. reflexivity. Qed.

(** [dwss] IS the derivative of the weighted sum of squares *)
Lemma sq_term_derivative (a b m : R) : derivable_pt_lim (fun m => a * ((b - m) * (b - m))) m (a * (-2 * (b - m))).
Proof.
  intros eps Heps. assert (Hd : 0 < eps / (Rabs a + 1)).
  { apply Rdiv_lt_0_compat; [exact Heps|]. pose proof (Rabs_pos a). lra. }
  exists (mkposreal _ Hd). intros h Hh Hlt. simpl in Hlt.
  replace ((a * ((b - (m + h)) * (b - (m + h))) - a * ((b - m) * (b - m))) / h - a * (-2 * (b - m))) with (a * h) by (field; exact Hh).
  rewrite Rabs_mult. pose proof (Rabs_pos a) as Ha. pose proof (Rabs_pos h) as Hh0.
  apply Rle_lt_trans with (Rabs a * (eps / (Rabs a + 1))).
  - apply Rmult_le_compat_l; lra.
  - apply Rlt_le_trans with ((Rabs a + 1) * (eps / (Rabs a + 1))); [apply Rmult_lt_compat_r; lra|].
    right. field. lra.
Qed.

Lemma dwss_is_derivative w x m : derivable_pt_lim (wss w x) m (dwss w x m).
Proof.
  revert x. induction w as [|a w IH]; intros x.
  - apply (derivable_pt_lim_ext (fct_cte 0)); [intros z; reflexivity|]. simpl. apply derivable_pt_lim_const.
  - destruct x as [|b x].
    + apply (derivable_pt_lim_ext (fct_cte 0)); [intros z; reflexivity|]. simpl. apply derivable_pt_lim_const.
    + apply (derivable_pt_lim_ext (plus_fct (fun m => a * ((b - m) * (b - m))) (wss w x))); [intros z; reflexivity|].
      simpl. apply derivable_pt_lim_plus; [apply sq_term_derivative | apply IH].
Qed.

(** first-order condition: the derivative vanishes exactly at the responsibility-weighted mean ... *)
Lemma wss_foc w x m : sumw w x <> 0 -> (dwss w x m = 0 <-> m = dotR w x / sumw w x).
Proof.
  intros H. rewrite dwss_closed. split; intros E.
  - apply (Rmult_eq_reg_r (sumw w x)); [|exact H]. unfold Rdiv. rewrite Rmult_assoc, Rinv_l by exact H. lra.
  - rewrite E. field. exact H.
Qed.

(** ... and it is the minimum: the excess is [sum of weights * (m - m* )^2] *)
Lemma wss_decomp w x m :
  sumw w x <> 0 ->
  wss w x m = wss w x (dotR w x / sumw w x) + sumw w x * ((m - dotR w x / sumw w x) * (m - dotR w x / sumw w x)).
Proof. intros H. rewrite (wss_closed w x m), (wss_closed w x (dotR w x / sumw w x)). field. exact H. Qed.

Lemma wss_min w x m :
  0 < sumw w x ->
  wss w x (dotR w x / sumw w x) <= wss w x m /\ (wss w x m = wss w x (dotR w x / sumw w x) -> m = dotR w x / sumw w x).
Proof.
  intros H. rewrite (wss_decomp w x m) by lra. set (d := m - dotR w x / sumw w x).
  pose proof (Rle_0_sqr d) as Hd. unfold Rsqr in Hd. split.
  - pose proof (Rmult_le_pos _ _ (Rlt_le _ _ H) Hd). lra.
  - intros E. assert (E2 : sumw w x * (d * d) = 0) by lra.
    apply Rmult_integral in E2. destruct E2 as [E2|E2]; [lra|].
    apply Rmult_integral in E2. unfold d in E2. destruct E2; lra.
Qed.

(** the weighted Gaussian log-likelihood of the cluster is maximal in the mean at the rule's value, for every std *)
Lemma wloglik_mean_max w x m s :
  0 < s -> 0 < sumw w x -> wloglik w x m s <= wloglik w x (dotR w x / sumw w x) s.
Proof.
  intros Hs Hw. unfold wloglik. destruct (wss_min w x m Hw) as [Hle _].
  assert (H2 : 0 < / (2 * (s * s))) by (apply Rinv_0_lt_compat; nra).
  unfold Rdiv. pose proof (Rmult_le_compat_r _ _ _ (Rlt_le _ _ H2) Hle). lra.
Qed.

(** what [wmeanR] returns is that maximiser *)
Lemma wmeanR_is_maximiser w x :
  length w = length x -> 0 < sumR w ->
  exists v, wmeanR w x = Ok v /\ v = dotR w x / sumw w x /\ dwss w x v = 0 /\
            (forall m, wss w x v <= wss w x m) /\ (forall m s, 0 < s -> wloglik w x m s <= wloglik w x v s).
Proof.
  intros Hl Hw. pose proof (sumw_same_length w x Hl) as E. unfold wmeanR.
  destruct (Req_EM_T (sumR w) 0) as [C|_]; [lra|]. eexists. split; [reflexivity|]. rewrite <- E in *.
  split; [reflexivity|]. split; [apply wss_foc; [lra | reflexivity]|]. split.
  - intros m. now apply wss_min.
  - intros m s Hs. now apply wloglik_mean_max.
Qed.

(** ** and the std?  The maximiser of the same log-likelihood in the std is the responsibility-WEIGHTED dispersion
    [wvar]; the code's mixture std rule is the UNWEIGHTED dispersion around the cluster's old mean (the weights cancel,
    MStepProofs.mix_spread_collapse).  PARTIAL: they coincide when the cluster's responsibilities are all equal — in
    particular with one cluster — and differ otherwise (example below). *)
Lemma wloglik_std_max w x m s :
  0 < s -> 0 < sumw w x -> 0 < wss w x m ->
  wloglik w x m s <= wloglik w x m (sqrt (wvar w x m)).
Proof.
  intros Hs Hw Hd. unfold wloglik, wvar. set (W := sumw w x) in *. set (D := wss w x m) in *.
  assert (Hv : 0 < D / W) by (now apply Rdiv_lt_0_compat).
  rewrite sqrt_sqrt by lra. pose proof (sqrt_lt_R0 _ Hv) as Hs'.
  (* ln u <= u - 1 with u = (D/W) / s^2 *)
  set (u := D / W / (s * s)). assert (Hu : 0 < u) by (unfold u; apply Rdiv_lt_0_compat; nra).
  assert (Hln : ln u <= u - 1).
  { pose proof (exp_ineq1_le (ln u)) as H. rewrite exp_ln in H by exact Hu. lra. }
  assert (Eln : ln u = 2 * ln (sqrt (D / W)) - 2 * ln s).
  { unfold u. unfold Rdiv at 1. rewrite ln_mult; [|lra | apply Rinv_0_lt_compat; nra].
    rewrite ln_Rinv by nra. rewrite ln_mult by lra.
    rewrite <- (sqrt_sqrt (D / W)) at 1 by lra. rewrite ln_mult by lra. ring. }
  assert (Eu : D / (2 * (s * s)) = W / 2 * u) by (unfold u; field; lra).
  assert (E2 : D / (2 * (D / W)) = W / 2) by (field; lra).
  rewrite Eu, E2. rewrite Eln in Hln. nra.
Qed.

Lemma mix_std_is_weighted_dispersion_partial (a : R) (ts : list R) (x : list R) (m : R) :
  a <> 0 -> ts <> [] -> length ts = length x ->
  wvar (map (fun _ => a) ts) x m = sumR (map (fun b => (b - m) * (b - m)) x) / lenR x.
Proof.
  intros Ha Hne Hl. unfold wvar.
  assert (E1 : forall (ts : list R) x, length ts = length x -> wss (map (fun _ => a) ts) x m = a * sumR (map (fun b => (b - m) * (b - m)) x)).
  { clear. induction ts as [|t ts IH]; intros [|b x] H; simpl in *; try discriminate; [ring|]. rewrite IH by lia. ring. }
  assert (E2 : forall (ts : list R) x, length ts = length x -> sumw (map (fun _ => a) ts) x = a * lenR x).
  { clear. unfold lenR. induction ts as [|t ts IH]; intros [|b x] H; simpl length in *; try discriminate; [simpl; ring|].
    rewrite S_INR. simpl. rewrite IH by lia. ring. }
  rewrite E1, E2 by exact Hl. field. split; [|exact Ha].
  unfold lenR. rewrite <- Hl. pose proof (lenR_pos ts Hne). unfold lenR in *. lra.
Qed.

Example mix_std_not_weighted_dispersion :
  wvar [3 / 4; 1 / 4] [0; 1] 0 = 1 / 4 /\ sumR (map (fun b => (b - 0) * (b - 0)) [0; 1]) / lenR [0; 1] = 1 / 2.
Proof. unfold wvar, lenR. simpl. split; field. Qed.

(** * Non-finite per-cluster terms *)
Lemma fin_list_some_iff (l : list xr) : (exists rs, fin_list l = Some rs) <-> Forall (fun t => exists r, t = Fin r) l.
Proof.
  induction l as [|t l IH]; simpl.
  - split; [constructor | now exists []].
  - split.
    + intros [rs H]. destruct t; try discriminate. destruct (fin_list l) eqn:E; [|discriminate].
      constructor; [now exists r | apply IH; now exists l0].
    + intros H. inversion H as [|? ? [r ->] Hl]; subst. apply IH in Hl. destruct Hl as [rs ->]. now exists (r :: rs).
Qed.

Lemma fin_list_length l rs : fin_list l = Some rs -> length rs = length l.
Proof.
  revert rs. induction l as [|t l IH]; intros rs H; simpl in H; [now inversion H|].
  destruct t; try discriminate. destruct (fin_list l) eqn:E; [|discriminate]. inversion H; subst. simpl. now rewrite (IH l0).
Qed.

(** a row of responsibilities exists iff no term is -inf or nan; a +inf term (a cluster of zero density) is absorbed by the
    clamp; when it exists the row is a probability vector *)
Lemma xresp_row_spec (ts : list xr) :
  ((exists r, xresp_row ts = Some r) <-> Forall (fun t => t <> NInf /\ t <> NaN) ts) /\
  (forall r, ts <> [] -> xresp_row ts = Some r -> prob_vector (length ts) r).
Proof.
  split.
  - unfold xresp_row. split.
    + intros [r H]. destruct (fin_list (map xlogit ts)) eqn:E; [|discriminate].
      assert (Hf : Forall (fun t => exists r, t = Fin r) (map xlogit ts)) by (apply fin_list_some_iff; now exists l).
      rewrite Forall_map in Hf. eapply Forall_impl; [|exact Hf]. intros t [q Hq]. destruct t; simpl in Hq; try discriminate; split; discriminate.
    + intros H. assert (Hf : Forall (fun t => exists r, t = Fin r) (map xlogit ts)).
      { rewrite Forall_map. eapply Forall_impl; [|exact H]. intros t [H1 H2]. destruct t; simpl; try congruence; eexists; reflexivity. }
      apply fin_list_some_iff in Hf. destruct Hf as [rs ->]. now eexists.
  - intros r Hne H. unfold xresp_row in H. destruct (fin_list (map xlogit ts)) eqn:E; [|discriminate]. inversion H; subst.
    pose proof (fin_list_length _ _ E) as Hl. rewrite map_length in Hl. rewrite <- Hl. apply softmax_prob_vector.
    intros ->. simpl in Hl. destruct ts; [congruence | discriminate].
Qed.

Lemma xresp_row_fin (ts : list R) : xresp_row (map Fin ts) = Some (resp_row ts).
Proof.
  unfold xresp_row, resp_row. rewrite map_map. simpl.
  assert (E : forall l, fin_list (map (fun x => Fin (logit x)) l) = Some (map logit l)).
  { induction l as [|a l IH]; simpl; [reflexivity | now rewrite IH]. }
  now rewrite E.
Qed.

Lemma all_some_none_iff {A} (l : list (option A)) : all_some l = None <-> In None l.
Proof.
  induction l as [|o l IH]; simpl; [split; [discriminate | contradiction]|].
  destruct o as [a|].
  - destruct (all_some l) eqn:E.
    + split; [discriminate|]. intros [C|C]; [discriminate|]. apply IH in C. discriminate.
    + split; [intros _; right; now apply IH | reflexivity].
  - split; [now left | reflexivity].
Qed.

(** the mixture updates are nan (in every entry) iff some individual has a -inf or nan term; they never raise; otherwise
    [probs] is a probability vector *)
Lemma xmix_probs_spec (nc : nat) (T : list (list xr)) :
  (xmix_probs nc T = None <-> exists row, In row T /\ exists t, In t row /\ (t = NInf \/ t = NaN)) /\
  (forall x c, xmix_mean c T x = None <-> xmix_probs nc T = None).
Proof.
  assert (Hnone : all_some (map xresp_row T) = None <-> exists row, In row T /\ exists t, In t row /\ (t = NInf \/ t = NaN)).
  { rewrite all_some_none_iff, in_map_iff. split.
    - intros [row [E Hrow]]. exists row. split; [exact Hrow|].
      destruct (xresp_row_spec row) as [[_ H] _].
      destruct (Exists_dec (fun t => t = NInf \/ t = NaN) row) as [Hex|Hnex].
      + intros t. destruct t; [right; intros [C|C]; discriminate | right; intros [C|C]; discriminate | now left; left | now left; right].
      + apply Exists_exists in Hex. exact Hex.
      + exfalso. assert (Hall : Forall (fun t => t <> NInf /\ t <> NaN) row).
        { apply Forall_forall. intros t Ht. split; intros C; apply Hnex; apply Exists_exists; exists t; auto. }
        destruct (H Hall) as [r Hr]. congruence.
    - intros [row [Hrow [t [Ht Hbad]]]]. exists row. split; [|exact Hrow].
      destruct (xresp_row row) eqn:E; [|reflexivity]. exfalso.
      destruct (xresp_row_spec row) as [[H _] _]. assert (Hall := H (ex_intro _ l E)).
      rewrite Forall_forall in Hall. destruct (Hall t Ht). destruct Hbad; contradiction. }
  split.
  - unfold xmix_probs. destruct (all_some (map xresp_row T)) eqn:E.
    + split; [discriminate|]. intros H. apply Hnone in H. discriminate.
    + split; [intros _; now apply Hnone | reflexivity].
  - intros x c. unfold xmix_mean, xmix_probs. destruct (all_some (map xresp_row T)); split; (discriminate || reflexivity).
Qed.

(** [compute_std_from_variance] never raises on nan or +inf (they are returned), raises on -inf *)
Lemma xguard_spec (tol : Q) :
  xguard tol NaNQ = Returns NaNQ /\ xguard tol PInfQ = Returns PInfQ /\ xguard tol NInfQ = Raises /\
  (forall q, xguard tol (FinQ q) = if Qlt_bool q tol then Raises else Returns (FinQ q)).
Proof. repeat split. intros q. unfold xguard, guard. destruct (Qlt_bool q tol); reflexivity. Qed.

(** * Non-vacuity *)
Example one_cluster_example :
  mix_probs 1 [[3]; [5]] = [1] /\ mix_mean 0 [[3]; [5]] (map Q2R [1%Q; 2%Q]) = res_map Q2R (ind_mean_rule [1%Q; 2%Q]).
Proof.
  destruct (one_cluster_rules [3; 5] [1%Q; 2%Q] 0) as [_ [H1 [H2 _]]]; [discriminate | reflexivity|]. split; assumption.
Qed.

Example maximiser_example :
  wmeanR [3 / 4; 1 / 4] [0; 1] = Ok (((3 / 4) * 0 + ((1 / 4) * 1 + 0)) / (3 / 4 + (1 / 4 + 0))) /\
  dwss [3 / 4; 1 / 4] [0; 1] (1 / 4) = 0 /\ dwss [3 / 4; 1 / 4] [0; 1] (1 / 2) <> 0.
Proof.
  split; [|split].
  - unfold wmeanR. simpl. destruct (Req_EM_T (3 / 4 + (1 / 4 + 0)) 0) as [C|_]; [lra | reflexivity].
  - simpl. field.
  - simpl. lra.
Qed.

Example nonfinite_example :
  (exists r, xresp_row [Fin 0; PInf] = Some r /\ prob_vector 2 r) /\
  xresp_row [Fin 0; NInf] = None /\ xresp_row [Fin 0; NaN] = None /\
  xmix_probs 2 [[Fin 0; Fin 1]; [Fin 0; NaN]] = None /\ (exists p, xmix_probs 2 [[Fin 0; Fin 1]; [Fin 0; PInf]] = Some p).
Proof.
  split; [|repeat split; try reflexivity].
  - eexists. split; [reflexivity|]. apply (softmax_prob_vector [logit 0; clamp_min]). discriminate.
  - eexists. reflexivity.
Qed.
