(** C04 (extension) — proofs about the responsibilities (Resp.v) and the mixture rules fed with them. *)
From Coq Require Import Reals QArith Qreals List Bool Lra Lia.
From Leaspy Require Import Base.QAux Saem.MStep Saem.MStepProofs Saem.Resp.
Import ListNotations.
Local Open Scope R_scope.

(** * Sums over [R] *)
Lemma sumR_cons x l : sumR (x :: l) = x + sumR l.
Proof. reflexivity. Qed.

Lemma sumR_nonneg l : (forall y, In y l -> 0 <= y) -> 0 <= sumR l.
Proof.
  induction l as [|a l IH]; intros H; simpl; [lra|].
  pose proof (H a (or_introl eq_refl)). assert (0 <= sumR l) by (apply IH; intros; apply H; now right). lra.
Qed.

Lemma In_le_sumR l x : (forall y, In y l -> 0 <= y) -> In x l -> x <= sumR l.
Proof.
  induction l as [|a l IH]; intros H Hx; [contradiction|]. simpl.
  assert (Hl : forall y, In y l -> 0 <= y) by (intros; apply H; now right).
  pose proof (sumR_nonneg l Hl). pose proof (H a (or_introl eq_refl)).
  destruct Hx as [->|Hx]; [lra|]. pose proof (IH Hl Hx). lra.
Qed.

Lemma sumR_map_div {A} (f : A -> R) (k : R) l : sumR (map (fun x => f x / k) l) = sumR (map f l) / k.
Proof. induction l as [|x l IH]; simpl; [unfold Rdiv; ring | rewrite IH; unfold Rdiv; ring]. Qed.

Lemma sumR_map_mult_r {A} (f : A -> R) (k : R) l : sumR (map (fun x => f x * k) l) = sumR (map f l) * k.
Proof. induction l as [|x l IH]; simpl; [ring | rewrite IH; ring]. Qed.

Lemma sumR_map_plus {A} (f g : A -> R) l : sumR (map (fun x => f x + g x) l) = sumR (map f l) + sumR (map g l).
Proof. induction l as [|x l IH]; simpl; [ring | rewrite IH; ring]. Qed.

Lemma sumR_map_const {A} (a : R) (l : list A) : sumR (map (fun _ => a) l) = lenR l * a.
Proof.
  unfold lenR. induction l as [|x l IH]; [simpl; ring|].
  change (length (x :: l)) with (S (length l)). rewrite S_INR. simpl map. rewrite sumR_cons, IH. ring.
Qed.

Lemma sumR_map_ext {A} (f g : A -> R) l : (forall x, In x l -> f x = g x) -> sumR (map f l) = sumR (map g l).
Proof.
  induction l as [|x l IH]; intros H; simpl; [reflexivity|].
  rewrite (H x (or_introl eq_refl)), IH; [reflexivity|]. intros; apply H; now right.
Qed.

Lemma lenR_pos {A} (l : list A) : l <> [] -> 0 < lenR l.
Proof. destruct l; [congruence|]. intros _. unfold lenR. apply lt_0_INR. simpl. lia. Qed.

Lemma sum_exp_pos z : z <> [] -> 0 < sumR (map exp z).
Proof.
  destruct z as [|a z]; [congruence|]. intros _. simpl.
  assert (0 <= sumR (map exp z)).
  { apply sumR_nonneg. intros y Hy. apply in_map_iff in Hy. destruct Hy as [b [<- _]]. left. apply exp_pos. }
  pose proof (exp_pos a). lra.
Qed.

(** * The softmax of a non-empty row is a probability vector with strictly positive entries *)
Lemma softmax_length z : length (softmax z) = length z.
Proof. unfold softmax. apply map_length. Qed.

Lemma softmax_entries z p : In p (softmax z) -> 0 < p <= 1.
Proof.
  unfold softmax. intros Hp. apply in_map_iff in Hp. destruct Hp as [a [<- Ha]].
  assert (Hne : z <> []) by (intros ->; contradiction).
  pose proof (sum_exp_pos z Hne) as HS. pose proof (exp_pos a) as Ha0.
  assert (Hle : exp a <= sumR (map exp z)).
  { apply In_le_sumR; [|now apply in_map].
    intros y Hy. apply in_map_iff in Hy. destruct Hy as [b [<- _]]. left. apply exp_pos. }
  split.
  - apply Rdiv_lt_0_compat; assumption.
  - apply (Rmult_le_reg_r (sumR (map exp z))); [exact HS|]. unfold Rdiv. rewrite Rmult_assoc, Rinv_l by lra. lra.
Qed.

Lemma softmax_sum z : z <> [] -> sumR (softmax z) = 1.
Proof.
  intros Hne. unfold softmax. rewrite (sumR_map_div exp (sumR (map exp z)) z).
  pose proof (sum_exp_pos z Hne). field. lra.
Qed.

Lemma softmax_prob_vector z : z <> [] -> prob_vector (length z) (softmax z).
Proof.
  intros Hne. split; [apply softmax_length|]. split; [|now apply softmax_sum].
  apply Forall_forall. intros p Hp. now apply softmax_entries in Hp.
Qed.

(** ** Each row of responsibilities is a probability vector, for ANY finite per-cluster terms (the clamp included). *)
Lemma resp_row_prob_vector (terms : list R) : terms <> [] -> prob_vector (length terms) (resp_row terms).
Proof.
  intros Hne. unfold resp_row. rewrite <- (map_length logit terms). apply softmax_prob_vector.
  destruct terms; [congruence | discriminate].
Qed.

Lemma resp_prob_vectors nc (T : list (list R)) :
  (0 < nc)%nat -> Forall (fun row => length row = nc) T -> Forall (prob_vector nc) (resp T).
Proof.
  intros Hnc HT. unfold resp. apply Forall_forall. intros r Hr. apply in_map_iff in Hr. destruct Hr as [row [<- Hrow]].
  rewrite Forall_forall in HT. rewrite <- (HT row Hrow). apply resp_row_prob_vector.
  intros ->. specialize (HT [] Hrow). simpl in HT. lia.
Qed.

(** the clamp gives a floor: when the best cluster's log-density is at most [U], every responsibility is at least
    [exp (-100 - U) / n_clusters] — no cluster is ever empty, and the bound does not depend on how unlikely the other
    clusters are (without the clamp a term [t] contributes [exp (-t)], arbitrarily small) *)
Lemma logit_ge t : clamp_min <= logit t.
Proof. unfold logit. apply Rmax_r. Qed.

Lemma logit_le t U : - t <= U -> clamp_min <= U -> logit t <= U.
Proof. intros. unfold logit. now apply Rmax_lub. Qed.

Lemma sumR_le_const (l : list R) (b : R) : (forall y, In y l -> y <= b) -> sumR l <= lenR l * b.
Proof.
  unfold lenR. induction l as [|a l IH]; intros H; [simpl; lra|].
  change (length (a :: l)) with (S (length l)). rewrite S_INR, sumR_cons.
  pose proof (H a (or_introl eq_refl)). assert (sumR l <= INR (length l) * b) by (apply IH; intros; apply H; now right). lra.
Qed.

Lemma resp_row_floor (terms : list R) (U : R) :
  terms <> [] -> clamp_min <= U -> Forall (fun t => - t <= U) terms ->
  Forall (fun p => exp (clamp_min - U) / lenR terms <= p) (resp_row terms).
Proof.
  intros Hne HU Hall. apply Forall_forall. intros p Hp. unfold resp_row, softmax in Hp.
  apply in_map_iff in Hp. destruct Hp as [a [<- Ha]]. apply in_map_iff in Ha. destruct Ha as [t [<- Ht]].
  set (z := map logit terms). assert (Hz : z <> []) by (subst z; destruct terms; [congruence|discriminate]).
  pose proof (sum_exp_pos z Hz) as HS. pose proof (lenR_pos terms Hne) as HK.
  assert (HSle : sumR (map exp z) <= lenR terms * exp U).
  { replace (lenR terms) with (lenR (map exp z)) by (unfold lenR, z; now rewrite !map_length).
    apply sumR_le_const. intros y Hy. apply in_map_iff in Hy. destruct Hy as [b [<- Hb]].
    subst z. apply in_map_iff in Hb. destruct Hb as [t' [<- Ht']].
    rewrite Forall_forall in Hall. pose proof (logit_le t' U (Hall t' Ht') HU) as H.
    destruct H as [H|H]; [left; now apply exp_increasing | right; now rewrite H]. }
  assert (Hnum : exp clamp_min <= exp (logit t)).
  { destruct (logit_ge t) as [H|H]; [left; now apply exp_increasing | right; now rewrite H]. }
  unfold Rminus. rewrite exp_plus, exp_Ropp. pose proof (exp_pos U) as HeU. pose proof (exp_pos clamp_min) as Hec.
  apply (Rmult_le_reg_r (sumR (map exp z))); [exact HS|].
  replace (exp (logit t) / sumR (map exp z) * sumR (map exp z)) with (exp (logit t)) by (field; lra).
  apply Rle_trans with (exp clamp_min * / exp U / lenR terms * (lenR terms * exp U)).
  - apply Rmult_le_compat_l; [|exact HSle].
    apply Rlt_le, Rdiv_lt_0_compat; [|exact HK]. apply Rmult_lt_0_compat; [exact Hec|]. now apply Rinv_0_lt_compat.
  - replace (exp clamp_min * / exp U / lenR terms * (lenR terms * exp U)) with (exp clamp_min) by (field; lra). exact Hnum.
Qed.

(** ** One cluster: the responsibility is 1 *)
Lemma resp_row_one (t : R) : resp_row [t] = [1].
Proof.
  unfold resp_row, softmax. simpl. f_equal. pose proof (exp_pos (logit t)). field. lra.
Qed.

Lemma resp_one_cluster (ts : list R) : resp (map (fun t => [t]) ts) = map (fun _ => [1]) ts.
Proof. unfold resp. rewrite map_map. apply map_ext. intros t. apply resp_row_one. Qed.

(** non-vacuity: two equally likely clusters; a cluster 800 nats less likely than the other still gets exp(-100)/2 at least *)
Example resp_example :
  resp_row [0; 0] = [1 / 2; 1 / 2] /\ prob_vector 2 (resp_row [0; 0]) /\
  Forall (fun p => exp (clamp_min - 0) / lenR [0; 800] <= p) (resp_row [0; 800]).
Proof.
  split; [|split].
  - unfold resp_row, softmax, logit, clamp_min. simpl.
    replace (Rmax (- 0) (-100)) with 0 by (rewrite Rmax_left; lra). rewrite exp_0. repeat f_equal; field.
  - apply (resp_row_prob_vector [0; 0]). discriminate.
  - apply resp_row_floor; [discriminate | unfold clamp_min; lra|]. repeat constructor; lra.
Qed.
