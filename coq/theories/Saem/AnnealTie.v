(** C19 — the rules regenerated from the source (gen/GenC19.v) are the model's rules (Anneal.v). *)
From Coq Require Import ZArith QArith Qround Qminmax Bool List Lia Lqa.
From Leaspy Require Import Base.QAux Saem.Anneal.
From LeaspyGen Require Import GenC19.

Lemma tie_n_ann e f n :
  resolve_n_ann e f n =
  match e, f with
  | Some c, _ => Ok (gen_n_ann_explicit c)
  | None, Some fr => Ok (gen_n_ann_from_frac fr n)
  | None, None => Err InputError
  end.
Proof. destruct e, f; reflexivity. Qed.

Lemma tie_ctor : ctor_state = {| temp := gen_ctor_temperature; temp_inv := gen_ctor_temperature_inv; period := None; decr := None |}.
Proof. reflexivity. Qed.

Lemma Qmax_1_nonzero x : Qeq_bool (QAux.Qmax x 1) 0 = false.
Proof.
  destruct (Qeq_bool (QAux.Qmax x 1) 0) eqn:E; [|reflexivity]. apply Qeq_bool_eq in E.
  pose proof (Q.le_max_r x 1) as H. unfold QAux.Qmax in E. lra.
Qed.

(** [_initialize_annealing]: the model is the generated crash condition, refusal condition and attribute values *)
Lemma tie_init c :
  init_anneal c =
  if gen_init_crashes (a_on c) (T0 c) (n_plateau c) (n_ann c) then Err Crash
  else if gen_init_refuses (a_on c) (T0 c) (n_plateau c) (n_ann c) then Err InputError
  else Ok {| temp := gen_init_temp (a_on c) (T0 c) (n_plateau c) (n_ann c);
             temp_inv := gen_init_inv (a_on c) (T0 c) (n_plateau c) (n_ann c);
             period := gen_init_period (a_on c) (T0 c) (n_plateau c) (n_ann c);
             decr := gen_init_decr (a_on c) (T0 c) (n_plateau c) (n_ann c) |}.
Proof.
  unfold init_anneal, gen_init_crashes, gen_init_refuses, gen_init_temp, gen_init_inv, gen_init_period, gen_init_decr, ctor_state.
  destruct (a_on c); simpl; [|reflexivity].
  destruct (Qeq_bool (T0 c) 0) eqn:E0; simpl.
  - destruct (0 <? n_plateau c)%Z; simpl; [|reflexivity]. destruct (n_plateau c =? 1)%Z; reflexivity.
  - destruct (0 <? n_plateau c)%Z; simpl; [|reflexivity].
    destruct (n_plateau c =? 1)%Z eqn:E1; [reflexivity|].
    destruct (n_plateau c - 1 =? 0)%Z eqn:E2; [apply Z.eqb_eq in E2; apply Z.eqb_neq in E1; lia|].
    destruct (n_ann c / (n_plateau c - 1) <? 1)%Z; [reflexivity|].
    destruct (Qle_bool _ 0); reflexivity.
Qed.

(** [_update_temperature] once initialised (period and decrement set) *)
Lemma tie_update c k st p d : period st = Some p -> decr st = Some d ->
  update_temperature c k st =
  if gen_update_crashes (a_on c) k (n_ann c) p (temp st) (temp_inv st) d then Err Crash
  else Ok {| temp := gen_update_temp (a_on c) k (n_ann c) p (temp st) (temp_inv st) d;
             temp_inv := gen_update_inv (a_on c) k (n_ann c) p (temp st) (temp_inv st) d;
             period := Some p; decr := Some d |}.
Proof.
  intros Hp Hd. destruct st as [t ti pp dd]; simpl in *; subst pp dd.
  unfold update_temperature, gen_update_crashes, gen_update_temp, gen_update_inv; simpl.
  destruct (a_on c); simpl; [|reflexivity].
  destruct (k <=? n_ann c)%Z; [|reflexivity].
  destruct (p =? 0)%Z eqn:E0.
  - destruct (k mod p =? 0)%Z; reflexivity.
  - destruct (k mod p =? 0)%Z; [|reflexivity]. simpl. rewrite Qmax_1_nonzero. reflexivity.
Qed.

(** before initialisation (or with a single plateau) the update does nothing — the translator checks
    that the source has no effect on that path *)
Lemma update_without_period c k st : period st = None -> update_temperature c k st = Ok st.
Proof. intros H. unfold update_temperature. rewrite H. now destruct (a_on c). Qed.

Lemma tie_defaults :
  default_T0 = gen_default_T0 /\ default_n_plateau = gen_default_n_plateau /\ default_frac = gen_default_frac.
Proof. repeat split; reflexivity. Qed.
