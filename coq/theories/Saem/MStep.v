(** C04 — model of the maximisation step of MCMC-SAEM.
    Definitions only; proofs are in MStepProofs.v, the tie to the definitions regenerated from the
    running code (gen/GenC04.v) in MStepTie.v.

    Mirrors (leaspy @ $VERIF_REPO/src/leaspy):
      models/mcmc_saem_compatible.py  update_parameters           -> [op], [run_trace], [batched_trace], [update_parameters]
      variables/specs.py              ModelParameter.compute_update-> [compute_update]
                                      for_pop_mean (Identity)      -> [pop_rule]
                                      for_ind_mean (torch.mean)    -> [mean], [ind_mean_rule]
                                      for_ind_std  (burn-in Std)   -> [var_burn_in], [ind_std_burn_rule]
      variables/utilities.py          compute_individual_parameter_std_from_sufficient_statistics
                                                                   -> [ind_var_saem], [ind_std_rule]
      models/utilities.py             compute_std_from_variance    -> [guard]
                                      compute_probs_from_state     -> [probs_update]
                                      compute_ind_param_mean_from_suff_stats_mixture -> [wmean]
                                      compute_ind_param_std_from_suff_stats_mixture(_burn_in) -> [mix_spread], [mix_var_rule]
      variables/distributions.py      MixtureNormalFamily._nll (z = (x - loc) / scale) -> [standardised]
      models/obs_models/_gaussian.py  y_L2, n_obs (+ _per_ft)      -> [y_L2], [n_obs]
                                      scalar_noise_std_update      -> [noise_scalar_var], [noise_scalar_rule]
                                      diagonal_noise_std_update    -> [noise_ft_var], [noise_diag_rule]

    All algebra is over [Q] (exact, executable with vm_compute); the only real-valued step is the final
    square root [std_of].  Rules return the VARIANCE; the parameter stored by the code is its square root. *)
From Coq Require Import ZArith QArith Qabs Qreals Reals Bool List.
From Leaspy Require Import Base.QAux.
Import ListNotations.
Local Open Scope Q_scope.

(** * Results.  Nothing is totalised: an empty reduction / zero denominator (torch: nan or inf, which the
    guard of [compute_std_from_variance] lets through because [nan < tol] is false) is [Undefined];
    the data-dependent [raise LeaspyConvergenceError] is [Collapse]. *)
Inductive res (A : Type) : Type :=
| Ok (a : A)
| Undefined
| Collapse.
Arguments Ok {A} a.
Arguments Undefined {A}.
Arguments Collapse {A}.

Definition res_map {A B} (f : A -> B) (r : res A) : res B :=
  match r with Ok a => Ok (f a) | Undefined => Undefined | Collapse => Collapse end.

(** the parameter value stored by the code: the square root of the variance returned by a rule *)
Definition std_of (r : res Q) : res R := res_map (fun v => sqrt (Q2R v)) r.

(** * Reductions *)
Definition sumQ (l : list Q) : Q := fold_right Qplus 0 l.
Definition lenQ {A} (l : list A) : Q := inject_Z (Z.of_nat (length l)).
Definition sqr (x : Q) : Q := x * x.                       (* functional.Sqr : x ** 2 *)

(** [torch.mean(x, dim=LVL_IND)] — raw quotient; callers guard the empty case *)
Definition mean (l : list Q) : Q := sumQ l / lenQ l.

(** * Individual-variable rules ([S1], [S2]: the statistics in force for [x] and [x**2], one entry per individual) *)

(** [for_pop_mean]: Identity of the statistic *)
Definition pop_rule (stat : list Q) : list Q := stat.

(** [for_ind_mean]: mean over individuals *)
Definition ind_mean_rule (S1 : list Q) : res Q :=
  match S1 with [] => Undefined | _ => Ok (mean S1) end.

(** [compute_std_from_variance]: raise when [variance < tol], else the square root *)
Definition guard (tol v : Q) : res Q := if Qlt_bool v tol then Collapse else Ok v.

(** after burn-in: [mean(S2) - 2 * old_mean * mean(S1) + old_mean ** 2], old_mean read from the PRE-step state *)
Definition ind_var_saem (old_mean : Q) (S1 S2 : list Q) : Q :=
  mean S2 - 2 * old_mean * mean S1 + old_mean * old_mean.

Definition ind_std_rule (tol old_mean : Q) (S1 S2 : list Q) : res Q :=
  match S1, S2 with
  | [], _ | _, [] => Undefined
  | _, _ => guard tol (ind_var_saem old_mean S1 S2)
  end.

(** burn-in: [torch.std(S1, dim=LVL_IND)] with Bessel's correction [corr] (torch's default: 1); no guard *)
Definition var_burn_in (corr : Z) (l : list Q) : Q :=
  sumQ (map (fun x => sqr (x - mean l)) l) / (lenQ l - inject_Z corr).

Definition ind_std_burn_rule (corr : Z) (S1 : list Q) : res Q :=
  if (Z.of_nat (length S1) <=? corr)%Z then Undefined else Ok (var_burn_in corr S1).

(** * Gaussian noise.  One cell per (individual, visit, feature) of the padded tensors:
    [cy] the observation ([None]: missing or padded — weight 0 in the code's WeightedTensor),
    [c_ym] the statistic in force for [y * model] (its value under the mask is arbitrary),
    [c_mm] the statistic in force for [model ** 2] (a plain tensor in the code: it carries no mask of its own and
    holds the model's value — not 0 — where [y] is missing in a real visit). *)
Record cell : Type := { cy : option Q; c_ym : Q; c_mm : Q }.

Definition observed (c : cell) : bool := match cy c with Some _ => true | None => false end.
Definition y2 (c : cell) : Q := match cy c with Some y => sqr y | None => 0 end.
Definition masked (f : cell -> Q) (c : cell) : Q := if observed c then f c else 0.   (* WeightedTensor.sum: filled(0) * weight *)

Definition n_obs (cells : list cell) : Q := lenQ (filter observed cells).
Definition y_L2 (cells : list cell) : Q := sumQ (map y2 cells).

(** [scalar_noise_std_update]: [(y_L2 + sum_dim(-2*y_x_model + model_x_model)) / n_obs] over ALL cells.
    The combination is a WeightedTensor carrying the mask of [y] (only [y_x_model] is weighted, [model_x_model] is a
    plain tensor; the sum is taken AFTER combining them), so the single sum is masked: an unobserved cell contributes
    nothing, whatever the two statistics hold there. *)
Definition noise_scalar_var (cells : list cell) : Q :=
  (y_L2 cells + sumQ (map (masked (fun c => (-2) * c_ym c + c_mm c)) cells)) / n_obs cells.

Definition noise_scalar_rule (tol : Q) (cells : list cell) : res Q :=
  if Qeq_bool (n_obs cells) 0 then Undefined else guard tol (noise_scalar_var cells).

(** [diagonal_noise_std_update], one feature: [(y_L2_ft + sum_dim(-2*y_x_model + model_x_model, but_dim=FT)) / n_obs_ft];
    the combination is a WeightedTensor carrying the mask of [y], so the whole sum is masked. *)
Definition noise_ft_var (cells : list cell) : Q :=
  (y_L2 cells + sumQ (map (masked (fun c => (-2) * c_ym c + c_mm c)) cells)) / n_obs cells.

(** tensors as rows (one row per (individual, visit)) of cells (one per feature) *)
Definition pad_cell : cell := {| cy := None; c_ym := 0; c_mm := 0 |}.
Definition column (f : nat) (rows : list (list cell)) : list cell := map (fun r => nth f r pad_cell) rows.

Fixpoint all_ok (l : list (res Q)) : res (list Q) :=
  match l with
  | [] => Ok []
  | Ok v :: r => match all_ok r with Ok vs => Ok (v :: vs) | e => e end
  | Undefined :: _ => Undefined
  | Collapse :: r => match all_ok r with Undefined => Undefined | _ => Collapse end
  end.

(** [(variance < tol).any()] raises for the whole vector *)
Definition noise_diag_rule (tol : Q) (n_ft : nat) (rows : list (list cell)) : res (list Q) :=
  all_ok (map (fun f => let cells := column f rows in
                        if Qeq_bool (n_obs cells) 0 then Undefined else guard tol (noise_ft_var cells))
              (seq 0 n_ft)).

(** the memory-less cell: statistics of the current iteration, [junk] = whatever the product holds under the mask *)
Definition cell_of (t : option Q * Q * Q) : cell :=
  let '(y, m, junk) := t in
  {| cy := y; c_ym := match y with Some v => v * m | None => junk end; c_mm := m * m |}.

(** the documented quantity: residual sum of squares over OBSERVED entries only *)
Definition rss (l : list (option Q * Q * Q)) : Q :=
  sumQ (map (fun t => let '(y, m, _) := t in match y with Some v => sqr (v - m) | None => 0 end) l).
Definition n_observed (l : list (option Q * Q * Q)) : Q :=
  lenQ (filter (fun t => let '(y, _, _) := t in match y with Some _ => true | None => false end) l).

(** * Mixture rules.  [Rm] : responsibilities, one row per individual, one column per cluster
    (the code: softmax over clusters of the clamped cluster log-densities — abstract here). *)
Definition col (c : nat) (Rm : list (list Q)) : list Q := map (fun row => nth c row 0) Rm.

(** [compute_probs_from_state]: [probs_ind.sum(dim=0) / n_inds] *)
Definition probs_update (n_clusters : nat) (Rm : list (list Q)) : list Q :=
  map (fun c => sumQ (col c Rm) / lenQ Rm) (seq 0 n_clusters).

Fixpoint dotQ (w x : list Q) : Q :=
  match w, x with a :: w', b :: x' => a * b + dotQ w' x' | _, _ => 0 end.

(** [compute_ind_param_mean_from_suff_stats_mixture]: [(probs_ind * x).sum(0) / probs_ind.sum(0)], one cluster *)
Definition wmean (w x : list Q) : res Q :=
  if Qeq_bool (sumQ w) 0 then Undefined else Ok (dotQ w x / sumQ w).

(** [compute_ind_param_std_from_suff_stats_mixture(_burn_in)]: [(probs_ind * s).sum(0) / probs_ind.sum(0)] where [s]
    does not depend on the individual (it was already reduced over individuals) *)
Definition mix_spread (w : list Q) (s : R) : R :=
  (fold_right Rplus 0%R (map (fun a => (Q2R a * s)%R) w) / Q2R (sumQ w))%R.

(** [compute_ind_param_std_from_suff_stats_mixture], one cluster: the variance of the plain rule around the old mean of
    THAT cluster, but [std = ip_var.sqrt()] directly — the rule never calls [compute_std_from_variance]; the [tol] keyword
    that [for_ind_std_mixture] accepts and forwards is swallowed by [**kws].  (Whether the running code guards is
    regenerated on every run: GenC04.gen_mix_std_guarded.)  [sqrt] of a negative variance is nan: [Undefined]. *)
Definition mix_var_rule (old_mean : Q) (S1 S2 : list Q) : res Q :=
  match S1, S2 with
  | [], _ | _, [] => Undefined
  | _, _ => let v := ind_var_saem old_mean S1 S2 in if Qlt_bool v 0 then Undefined else Ok v
  end.

(** what the NEXT iteration does with the stored std of a cluster: [MixtureNormalFamily._nll] standardises each
    individual value, [z = (x - loc[c]) / scale[c]] — 0/0 (nan) or x/0 (inf) when the stored std is 0; every cluster
    log-density, hence every responsibility (softmax) and every mixture parameter of that M-step, is computed from [z] *)
Definition standardised (x m s : Q) : res Q := if Qeq_bool s 0 then Undefined else Ok ((x - m) / s).

(** * [update_parameters]: every update is computed from the pre-step state, then all are assigned. *)

(** the events of one call of [update_parameters], as recorded on the running code *)
Inductive op : Type := Compute (i : nat) | Assign (i : nat).

Section Update.
  Variable V : Type.              (* parameter values *)
  Variable Stats : Type.          (* sufficient statistics in force *)
  Definition pstate := nat -> V.  (* parameter name (index in name-sorted order) -> value *)

  Definition set (i : nat) (v : V) (s : pstate) : pstate := fun j => if Nat.eqb j i then v else s j.

  (** [ModelParameter]: the normal rule and the optional burn-in rule; both may read the state *)
  Record mparam : Type := { rule : pstate -> Stats -> V; rule_burn : option (pstate -> Stats -> V) }.

  (** [ModelParameter.compute_update] *)
  Definition compute_update (p : mparam) (burn : bool) (s : pstate) (suff : Stats) : V :=
    match burn, rule_burn p with
    | true, Some rb => rb s suff
    | _, _ => rule p s suff
    end.

  (** [run_trace]: [Compute i] evaluates parameter [i]'s rule on the CURRENT state and keeps the value pending,
      [Assign i] stores the pending value *)
  Fixpoint run_trace (ps : list mparam) (burn : bool) (suff : Stats) (tr : list op)
           (s : pstate) (pending : nat -> option V) : pstate :=
    match tr with
    | [] => s
    | Compute i :: r =>
        match nth_error ps i with
        | Some p => run_trace ps burn suff r s
                      (fun j => if Nat.eqb j i then Some (compute_update p burn s suff) else pending j)
        | None => run_trace ps burn suff r s pending
        end
    | Assign i :: r =>
        match pending i with
        | Some v => run_trace ps burn suff r (set i v s) pending
        | None => run_trace ps burn suff r s pending
        end
    end.

  (** the order the code uses: first loop computes, second loop assigns *)
  Definition batched_trace (n : nat) : list op := map Compute (seq 0 n) ++ map Assign (seq 0 n).
  (** the order it must not use *)
  Definition sequential_trace (n : nat) : list op := flat_map (fun i => [Compute i; Assign i]) (seq 0 n).

  Definition update_all (ps : list mparam) (burn : bool) (s_pre : pstate) (suff : Stats) : list V :=
    map (fun p => compute_update p burn s_pre suff) ps.

  Definition update_parameters (ps : list mparam) (burn : bool) (s : pstate) (suff : Stats) : pstate :=
    run_trace ps burn suff (batched_trace (length ps)) s (fun _ => None).
End Update.
Arguments set {V}.
