(** C04 (extension) — executable comparisons (T2, vm_compute, exact rationals) for the responsibilities recorded on the
    implementation: what the softmax call returned inside a real M-step.  Definitions only. *)
From Coq Require Import ZArith QArith Qabs Bool List.
From Leaspy Require Import Base.QAux Saem.MStep Saem.MStepExec Saem.Resp.
Import ListNotations.
Local Open Scope Q_scope.

(** a recorded row of responsibilities is a probability vector (RespProofs.resp_row_prob_vector), up to the rounding of the
    sum; and every entry is strictly positive when the clamped log-densities span less than what a double can represent
    (RespProofs.resp_row_floor: p >= exp(-100 - U) / K with U = 600 here) *)
Definition chk_resp_row (c : list Q * list Q * Q) : bool :=
  let '(terms, row, sl) := c in
  Nat.eqb (length terms) (length row) &&
  forallb (fun p => Qle_bool 0 p && Qle_bool p 1) row &&
  Qle_bool (Qabs (sumQ row - 1)) sl &&
  (if forallb (fun t => Qle_bool (- t) 600) terms then forallb (fun p => Qlt_bool 0 p) row else true).

(** one cluster: the mixture mean rule is the plain mean rule, probs is [1] *)
Definition chk_one_cluster (c : list Q * Q * Q * Q) : bool :=
  let '(x, post_mean, post_prob, sl) := c in
  match ind_mean_rule x with Ok v => close v post_mean sl | _ => false end && Qeq_bool post_prob 1.

(** [compute_std_from_variance] on a non-finite variance (Resp.xguard); codes: 0 finite, 1 +inf, 2 -inf, 3 nan;
    outcome: 0 returns a finite value, 1 raises, 2 returns +inf, 3 returns nan *)
Definition xq_of (code : Z) (q : Q) : Resp.xq :=
  match code with 0%Z => Resp.FinQ q | 1%Z => Resp.PInfQ | 2%Z => Resp.NInfQ | _ => Resp.NaNQ end.

Definition chk_xguard (c : Z * Q * Q * Z) : bool :=
  let '(code, q, tol, out) := c in
  match Resp.xguard tol (xq_of code q), out with
  | Resp.Returns (Resp.FinQ _), 0%Z => true
  | Resp.Raises, 1%Z => true
  | Resp.Returns Resp.PInfQ, 2%Z => true
  | Resp.Returns Resp.NaNQ, 3%Z => true
  | _, _ => false
  end.
