(** C04 — proofs about the model of the maximisation step (MStep.v). *)
From Coq Require Import ZArith QArith Qabs Qreals Reals Bool List Lia Lqa Setoid Morphisms.
From Leaspy Require Import Base.QAux Saem.MStep.
Import ListNotations.
Local Open Scope Q_scope.

(** * Sums *)

Lemma sumQ_cons x l : sumQ (x :: l) = x + sumQ l.
Proof. reflexivity. Qed.

Lemma sumQ_app l1 l2 : sumQ (l1 ++ l2) == sumQ l1 + sumQ l2.
Proof. induction l1 as [|x l IH]; simpl; [ring | rewrite IH; ring]. Qed.

Lemma sumQ_map_ext {A} (f g : A -> Q) l :
  (forall x, In x l -> f x == g x) -> sumQ (map f l) == sumQ (map g l).
Proof.
  induction l as [|x l IH]; intros H; simpl; [reflexivity|].
  rewrite (H x (or_introl eq_refl)), IH; [reflexivity|]. intros y Hy. apply H. now right.
Qed.

Lemma sumQ_map_plus {A} (f g : A -> Q) l :
  sumQ (map (fun x => f x + g x) l) == sumQ (map f l) + sumQ (map g l).
Proof. induction l as [|x l IH]; simpl; [ring | rewrite IH; ring]. Qed.

Lemma sumQ_map_scal {A} (a : Q) (f : A -> Q) l :
  sumQ (map (fun x => a * f x) l) == a * sumQ (map f l).
Proof. induction l as [|x l IH]; simpl; [ring | rewrite IH; ring]. Qed.

Lemma sumQ_map_const {A} (a : Q) (l : list A) : sumQ (map (fun _ => a) l) == lenQ l * a.
Proof.
  induction l as [|x l IH]; unfold lenQ in *; simpl length; [simpl; ring|].
  simpl sumQ. rewrite IH, Nat2Z.inj_succ. unfold Z.succ. rewrite inject_Z_plus. ring.
Qed.

Lemma sumQ_nonneg l : Forall (fun x => 0 <= x) l -> 0 <= sumQ l.
Proof.
  induction 1 as [|x l Hx _ IH]; simpl; [apply Qle_refl|].
  setoid_replace 0 with (0 + 0) by ring. now apply Qplus_le_compat.
Qed.

Lemma sumQ_map_nonneg {A} (f : A -> Q) l : (forall x, In x l -> 0 <= f x) -> 0 <= sumQ (map f l).
Proof.
  intros H. apply sumQ_nonneg. apply Forall_forall. intros y Hy.
  apply in_map_iff in Hy. destruct Hy as [x [<- Hx]]. now apply H.
Qed.

Lemma lenQ_cons {A} (x : A) l : lenQ (x :: l) == lenQ l + 1.
Proof. unfold lenQ. simpl length. rewrite Nat2Z.inj_succ. unfold Z.succ. now rewrite inject_Z_plus. Qed.

Lemma lenQ_nonneg {A} (l : list A) : 0 <= lenQ l.
Proof. unfold lenQ. change 0 with (inject_Z 0). rewrite <- Zle_Qle. lia. Qed.

Lemma lenQ_pos {A} (l : list A) : l <> [] -> 0 < lenQ l.
Proof.
  intros H. unfold lenQ. change 0 with (inject_Z 0). rewrite <- Zlt_Qlt.
  destruct l; [congruence | simpl; lia].
Qed.

Lemma lenQ_map {A B} (f : A -> B) l : lenQ (map f l) = lenQ l.
Proof. unfold lenQ. now rewrite map_length. Qed.

Lemma sqr_nonneg x : 0 <= sqr x.
Proof.
  unfold sqr. destruct (Qlt_le_dec x 0) as [H|H].
  - setoid_replace (x * x) with ((- x) * (- x)) by ring.
    apply Qmult_le_0_compat; apply (Qopp_le_compat x 0), Qlt_le_weak, H.
  - now apply Qmult_le_0_compat.
Qed.

(** * Means and dispersions *)

(** sum of squared deviations around ANY centre, expanded *)
Lemma sum_sq_dev (mu : Q) (l : list Q) :
  sumQ (map (fun x => sqr (x - mu)) l) == sumQ (map sqr l) - 2 * mu * sumQ l + lenQ l * (mu * mu).
Proof.
  induction l as [|x l IH].
  - unfold lenQ; simpl. ring.
  - rewrite lenQ_cons. simpl. rewrite IH. unfold sqr. ring.
Qed.

(** the SAEM variance rule fed with the statistics of ONE iteration is the mean squared deviation of the
    individual values around the PRE-step mean *)
Lemma ind_var_saem_dispersion (mu : Q) (xs : list Q) :
  xs <> [] ->
  ind_var_saem mu xs (map sqr xs) == mean (map (fun x => sqr (x - mu)) xs).
Proof.
  intros Hne. pose proof (lenQ_pos xs Hne) as Hn.
  unfold ind_var_saem, mean. rewrite !lenQ_map, sum_sq_dev.
  field. intros C. rewrite C in Hn. now apply Qlt_irrefl in Hn.
Qed.

Lemma mean_nonneg l : Forall (fun x => 0 <= x) l -> 0 <= mean l.
Proof.
  intros H. unfold mean. destruct l as [|x l].
  - unfold lenQ; simpl. unfold Qdiv, Qinv; simpl. apply Qle_refl.
  - apply Qle_shift_div_l; [apply lenQ_pos; discriminate|]. rewrite Qmult_0_l. now apply sumQ_nonneg.
Qed.

Lemma dispersion_nonneg (mu : Q) (xs : list Q) : 0 <= mean (map (fun x => sqr (x - mu)) xs).
Proof.
  apply mean_nonneg, Forall_forall. intros y Hy. apply in_map_iff in Hy.
  destruct Hy as [x [<- _]]. apply sqr_nonneg.
Qed.

(** the rule as a whole, guard included: when it returns a value, that value is the dispersion and it is
    at least [tol]; it raises exactly when the dispersion is below [tol] *)
Lemma ind_std_rule_spec (tol mu : Q) (xs : list Q) :
  xs <> [] ->
  let d := mean (map (fun x => sqr (x - mu)) xs) in
  (d < tol -> ind_std_rule tol mu xs (map sqr xs) = Collapse) /\
  (tol <= d -> exists v, ind_std_rule tol mu xs (map sqr xs) = Ok v /\ v == d).
Proof.
  intros Hne d. pose proof (ind_var_saem_dispersion mu xs Hne) as E. fold d in E.
  unfold ind_std_rule. destruct xs as [|x xs]; [congruence|]. cbn [map].
  change (sqr x :: map sqr xs) with (map sqr (x :: xs)). unfold guard. split.
  - intros Hd. rewrite <- E in Hd. apply Qlt_bool_iff in Hd. now rewrite Hd.
  - intros Hd. rewrite <- E in Hd.
    destruct (Qlt_bool _ tol) eqn:B.
    + apply Qlt_bool_iff in B. exfalso. apply (Qlt_not_le _ _ B Hd).
    + eexists. split; [reflexivity | exact E].
Qed.

(** the stored parameter: square root of the dispersion *)
Lemma ind_std_rule_sqrt (tol mu : Q) (xs : list Q) (v : Q) :
  xs <> [] -> ind_std_rule tol mu xs (map sqr xs) = Ok v ->
  std_of (Ok v) = Ok (sqrt (Q2R (mean (map (fun x => sqr (x - mu)) xs)))).
Proof.
  intros Hne H. unfold std_of, res_map. f_equal. f_equal. apply Qeq_eqR.
  pose proof (ind_var_saem_dispersion mu xs Hne) as E.
  unfold ind_std_rule in H. destruct xs as [|x xs]; [congruence|]. cbn [map] in H.
  unfold guard in H. destruct (Qlt_bool _ tol); [discriminate|]. injection H as <-. exact E.
Qed.

(** general statistics (any iteration, memory or not): the rule is the mean over individuals of
    [S2_i - 2 mu S1_i + mu^2] *)
Fixpoint zip_with (f : Q -> Q -> Q) (a b : list Q) : list Q :=
  match a, b with x :: a', y :: b' => f x y :: zip_with f a' b' | _, _ => [] end.

Lemma sum_zip_dev (mu : Q) (S1 S2 : list Q) :
  length S1 = length S2 ->
  sumQ (zip_with (fun s1 s2 => s2 - 2 * mu * s1 + mu * mu) S1 S2)
  == sumQ S2 - 2 * mu * sumQ S1 + lenQ S1 * (mu * mu).
Proof.
  revert S2. induction S1 as [|a S1 IH]; intros [|b S2] H; try discriminate.
  - unfold lenQ; simpl; ring.
  - rewrite lenQ_cons. simpl. rewrite IH by (simpl in H; lia). ring.
Qed.

Lemma zip_with_length f a b : length a = length b -> length (zip_with f a b) = length a.
Proof. revert b. induction a as [|x a IH]; intros [|y b] H; simpl in *; try discriminate; auto. Qed.

Lemma ind_var_saem_general (mu : Q) (S1 S2 : list Q) :
  S1 <> [] -> length S1 = length S2 ->
  ind_var_saem mu S1 S2 == mean (zip_with (fun s1 s2 => s2 - 2 * mu * s1 + mu * mu) S1 S2).
Proof.
  intros Hne Hl. pose proof (lenQ_pos S1 Hne) as Hn.
  unfold ind_var_saem, mean. rewrite sum_zip_dev by exact Hl.
  assert (E2 : lenQ S2 = lenQ S1) by (unfold lenQ; now rewrite Hl).
  assert (E3 : lenQ (zip_with (fun s1 s2 => s2 - 2 * mu * s1 + mu * mu) S1 S2) = lenQ S1)
    by (unfold lenQ; now rewrite zip_with_length).
  rewrite E2, E3. field. intros C. rewrite C in Hn. now apply Qlt_irrefl in Hn.
Qed.

(** mean rule *)
Lemma ind_mean_rule_spec (S1 : list Q) :
  S1 <> [] -> exists v, ind_mean_rule S1 = Ok v /\ v * lenQ S1 == sumQ S1.
Proof.
  intros Hne. destruct S1 as [|x l]; [congruence|]. eexists. split; [reflexivity|].
  unfold mean. field. intros C. pose proof (lenQ_pos (x :: l) Hne) as Hn. rewrite C in Hn. now apply Qlt_irrefl in Hn.
Qed.

(** the mean is the minimiser of the dispersion: around the NEW mean the dispersion is smaller by
    (new_mean - old_mean)^2 — why "around the pre-step mean" is a real choice *)
Lemma dispersion_shift (mu : Q) (xs : list Q) :
  xs <> [] ->
  mean (map (fun x => sqr (x - mu)) xs) == mean (map (fun x => sqr (x - mean xs)) xs) + sqr (mean xs - mu).
Proof.
  intros Hne. pose proof (lenQ_pos xs Hne) as Hn.
  unfold mean at 1 2. rewrite !lenQ_map, !sum_sq_dev. unfold mean, sqr. field.
  intros C. rewrite C in Hn. now apply Qlt_irrefl in Hn.
Qed.

(** burn-in rule: Bessel-corrected dispersion around the CURRENT mean *)
Lemma var_burn_in_spec (l : list Q) :
  (2 <= length l)%nat ->
  var_burn_in 1 l * (lenQ l - 1) == sumQ (map (fun x => sqr (x - mean l)) l).
Proof.
  intros H. unfold var_burn_in. change (inject_Z 1) with 1. field.
  intros C. unfold lenQ in C.
  assert (E : inject_Z (Z.of_nat (length l)) == inject_Z 1) by (change (inject_Z 1) with 1; lra).
  apply (proj1 (inject_Z_injective _ _)) in E. lia.
Qed.

Lemma ind_std_burn_rule_spec (l : list Q) :
  (2 <= length l)%nat -> ind_std_burn_rule 1 l = Ok (var_burn_in 1 l).
Proof.
  intros H. unfold ind_std_burn_rule. destruct (Z.leb_spec (Z.of_nat (length l)) 1); [lia | reflexivity].
Qed.

Lemma ind_std_burn_rule_undefined (l : list Q) :
  (length l <= 1)%nat -> ind_std_burn_rule 1 l = Undefined.
Proof.
  intros H. unfold ind_std_burn_rule. destruct (Z.leb_spec (Z.of_nat (length l)) 1); [reflexivity | lia].
Qed.
