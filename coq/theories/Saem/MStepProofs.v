(** C04 — proofs about the model of the maximisation step (MStep.v). *)
From Coq Require Import ZArith QArith Qabs Qreals Reals Bool List Lia Lqa Setoid Morphisms.
From Leaspy Require Import Base.QAux Saem.MStep.
Import ListNotations.
Local Open Scope Q_scope.

(** * Sums *)

Lemma sumQ_cons x l : sumQ (x :: l) = x + sumQ l.
Proof. reflexivity. Qed.

Lemma sumQ_app l1 l2 : sumQ (l1 ++ l2) == sumQ l1 + sumQ l2.
Proof. induction l1 as [|x l IH]; simpl; [ring | rewrite IH; ring]. Qed.

Lemma sumQ_map_ext {A} (f g : A -> Q) l :
  (forall x, In x l -> f x == g x) -> sumQ (map f l) == sumQ (map g l).
Proof.
  induction l as [|x l IH]; intros H; simpl; [reflexivity|].
  rewrite (H x (or_introl eq_refl)), IH; [reflexivity|]. intros y Hy. apply H. now right.
Qed.

Lemma sumQ_map_plus {A} (f g : A -> Q) l :
  sumQ (map (fun x => f x + g x) l) == sumQ (map f l) + sumQ (map g l).
Proof. induction l as [|x l IH]; simpl; [ring | rewrite IH; ring]. Qed.

Lemma sumQ_map_scal {A} (a : Q) (f : A -> Q) l :
  sumQ (map (fun x => a * f x) l) == a * sumQ (map f l).
Proof. induction l as [|x l IH]; simpl; [ring | rewrite IH; ring]. Qed.

Lemma sumQ_map_const {A} (a : Q) (l : list A) : sumQ (map (fun _ => a) l) == lenQ l * a.
Proof.
  induction l as [|x l IH]; unfold lenQ in *; simpl length; [simpl; ring|].
  simpl sumQ. rewrite IH, Nat2Z.inj_succ. unfold Z.succ. rewrite inject_Z_plus. ring.
Qed.

Lemma sumQ_nonneg l : Forall (fun x => 0 <= x) l -> 0 <= sumQ l.
Proof.
  induction 1 as [|x l Hx _ IH]; simpl; [apply Qle_refl|].
  setoid_replace 0 with (0 + 0) by ring. now apply Qplus_le_compat.
Qed.

Lemma sumQ_map_nonneg {A} (f : A -> Q) l : (forall x, In x l -> 0 <= f x) -> 0 <= sumQ (map f l).
Proof.
  intros H. apply sumQ_nonneg. apply Forall_forall. intros y Hy.
  apply in_map_iff in Hy. destruct Hy as [x [<- Hx]]. now apply H.
Qed.

Lemma lenQ_cons {A} (x : A) l : lenQ (x :: l) == lenQ l + 1.
Proof. unfold lenQ. simpl length. rewrite Nat2Z.inj_succ. unfold Z.succ. now rewrite inject_Z_plus. Qed.

Lemma lenQ_nonneg {A} (l : list A) : 0 <= lenQ l.
Proof. unfold lenQ. change 0 with (inject_Z 0). rewrite <- Zle_Qle. lia. Qed.

Lemma lenQ_pos {A} (l : list A) : l <> [] -> 0 < lenQ l.
Proof.
  intros H. unfold lenQ. change 0 with (inject_Z 0). rewrite <- Zlt_Qlt.
  destruct l; [congruence | simpl; lia].
Qed.

Lemma lenQ_map {A B} (f : A -> B) l : lenQ (map f l) = lenQ l.
Proof. unfold lenQ. now rewrite map_length. Qed.

Lemma sqr_nonneg x : 0 <= sqr x.
Proof.
  unfold sqr. destruct (Qlt_le_dec x 0) as [H|H].
  - setoid_replace (x * x) with ((- x) * (- x)) by ring.
    apply Qmult_le_0_compat; apply (Qopp_le_compat x 0), Qlt_le_weak, H.
  - now apply Qmult_le_0_compat.
Qed.

(** * Means and dispersions *)

(** sum of squared deviations around ANY centre, expanded *)
Lemma sum_sq_dev (mu : Q) (l : list Q) :
  sumQ (map (fun x => sqr (x - mu)) l) == sumQ (map sqr l) - 2 * mu * sumQ l + lenQ l * (mu * mu).
Proof.
  induction l as [|x l IH].
  - unfold lenQ; simpl. ring.
  - rewrite lenQ_cons. simpl. rewrite IH. unfold sqr. ring.
Qed.

(** the SAEM variance rule fed with the statistics of ONE iteration is the mean squared deviation of the
    individual values around the PRE-step mean *)
Lemma ind_var_saem_dispersion (mu : Q) (xs : list Q) :
  xs <> [] ->
  ind_var_saem mu xs (map sqr xs) == mean (map (fun x => sqr (x - mu)) xs).
Proof.
  intros Hne. pose proof (lenQ_pos xs Hne) as Hn.
  unfold ind_var_saem, mean. rewrite !lenQ_map, sum_sq_dev.
  field. intros C. rewrite C in Hn. now apply Qlt_irrefl in Hn.
Qed.

Lemma mean_nonneg l : Forall (fun x => 0 <= x) l -> 0 <= mean l.
Proof.
  intros H. unfold mean. destruct l as [|x l].
  - unfold lenQ; simpl. unfold Qdiv, Qinv; simpl. apply Qle_refl.
  - apply Qle_shift_div_l; [apply lenQ_pos; discriminate|]. rewrite Qmult_0_l. now apply sumQ_nonneg.
Qed.

Lemma dispersion_nonneg (mu : Q) (xs : list Q) : 0 <= mean (map (fun x => sqr (x - mu)) xs).
Proof.
  apply mean_nonneg, Forall_forall. intros y Hy. apply in_map_iff in Hy.
  destruct Hy as [x [<- _]]. apply sqr_nonneg.
Qed.

(** the rule as a whole, guard included: when it returns a value, that value is the dispersion and it is
    at least [tol]; it raises exactly when the dispersion is below [tol] *)
Lemma ind_std_rule_spec (tol mu : Q) (xs : list Q) :
  xs <> [] ->
  let d := mean (map (fun x => sqr (x - mu)) xs) in
  (d < tol -> ind_std_rule tol mu xs (map sqr xs) = Collapse) /\
  (tol <= d -> exists v, ind_std_rule tol mu xs (map sqr xs) = Ok v /\ v == d).
Proof.
  intros Hne d. pose proof (ind_var_saem_dispersion mu xs Hne) as E. fold d in E.
  unfold ind_std_rule. destruct xs as [|x xs]; [congruence|]. cbn [map].
  change (sqr x :: map sqr xs) with (map sqr (x :: xs)). unfold guard. split.
  - intros Hd. rewrite <- E in Hd. apply Qlt_bool_iff in Hd. now rewrite Hd.
  - intros Hd. rewrite <- E in Hd.
    destruct (Qlt_bool _ tol) eqn:B.
    + apply Qlt_bool_iff in B. exfalso. apply (Qlt_not_le _ _ B Hd).
    + eexists. split; [reflexivity | exact E].
Qed.

(** the stored parameter: square root of the dispersion *)
Lemma ind_std_rule_sqrt (tol mu : Q) (xs : list Q) (v : Q) :
  xs <> [] -> ind_std_rule tol mu xs (map sqr xs) = Ok v ->
  std_of (Ok v) = Ok (sqrt (Q2R (mean (map (fun x => sqr (x - mu)) xs)))).
Proof.
  intros Hne H. unfold std_of, res_map. f_equal. f_equal. apply Qeq_eqR.
  pose proof (ind_var_saem_dispersion mu xs Hne) as E.
  unfold ind_std_rule in H. destruct xs as [|x xs]; [congruence|]. cbn [map] in H.
  unfold guard in H. destruct (Qlt_bool _ tol); [discriminate|]. injection H as <-. exact E.
Qed.

(** general statistics (any iteration, memory or not): the rule is the mean over individuals of
    [S2_i - 2 mu S1_i + mu^2] *)
Fixpoint zip_with (f : Q -> Q -> Q) (a b : list Q) : list Q :=
  match a, b with x :: a', y :: b' => f x y :: zip_with f a' b' | _, _ => [] end.

Lemma sum_zip_dev (mu : Q) (S1 S2 : list Q) :
  length S1 = length S2 ->
  sumQ (zip_with (fun s1 s2 => s2 - 2 * mu * s1 + mu * mu) S1 S2)
  == sumQ S2 - 2 * mu * sumQ S1 + lenQ S1 * (mu * mu).
Proof.
  revert S2. induction S1 as [|a S1 IH]; intros [|b S2] H; try discriminate.
  - unfold lenQ; simpl; ring.
  - rewrite lenQ_cons. simpl. rewrite IH by (simpl in H; lia). ring.
Qed.

Lemma zip_with_length f a b : length a = length b -> length (zip_with f a b) = length a.
Proof. revert b. induction a as [|x a IH]; intros [|y b] H; simpl in *; try discriminate; auto. Qed.

Lemma ind_var_saem_general (mu : Q) (S1 S2 : list Q) :
  S1 <> [] -> length S1 = length S2 ->
  ind_var_saem mu S1 S2 == mean (zip_with (fun s1 s2 => s2 - 2 * mu * s1 + mu * mu) S1 S2).
Proof.
  intros Hne Hl. pose proof (lenQ_pos S1 Hne) as Hn.
  unfold ind_var_saem, mean. rewrite sum_zip_dev by exact Hl.
  assert (E2 : lenQ S2 = lenQ S1) by (unfold lenQ; now rewrite Hl).
  assert (E3 : lenQ (zip_with (fun s1 s2 => s2 - 2 * mu * s1 + mu * mu) S1 S2) = lenQ S1)
    by (unfold lenQ; now rewrite zip_with_length).
  rewrite E2, E3. field. intros C. rewrite C in Hn. now apply Qlt_irrefl in Hn.
Qed.

(** mean rule *)
Lemma ind_mean_rule_spec (S1 : list Q) :
  S1 <> [] -> exists v, ind_mean_rule S1 = Ok v /\ v * lenQ S1 == sumQ S1.
Proof.
  intros Hne. destruct S1 as [|x l]; [congruence|]. eexists. split; [reflexivity|].
  unfold mean. field. intros C. pose proof (lenQ_pos (x :: l) Hne) as Hn. rewrite C in Hn. now apply Qlt_irrefl in Hn.
Qed.

(** the mean is the minimiser of the dispersion: around the NEW mean the dispersion is smaller by
    (new_mean - old_mean)^2 — why "around the pre-step mean" is a real choice *)
Lemma dispersion_shift (mu : Q) (xs : list Q) :
  xs <> [] ->
  mean (map (fun x => sqr (x - mu)) xs) == mean (map (fun x => sqr (x - mean xs)) xs) + sqr (mean xs - mu).
Proof.
  intros Hne. pose proof (lenQ_pos xs Hne) as Hn.
  unfold mean at 1 2. rewrite !lenQ_map, !sum_sq_dev. unfold mean, sqr. field.
  intros C. rewrite C in Hn. now apply Qlt_irrefl in Hn.
Qed.

(** burn-in rule: Bessel-corrected dispersion around the CURRENT mean *)
Lemma var_burn_in_spec (l : list Q) :
  (2 <= length l)%nat ->
  var_burn_in 1 l * (lenQ l - 1) == sumQ (map (fun x => sqr (x - mean l)) l).
Proof.
  intros H. unfold var_burn_in. change (inject_Z 1) with 1. field.
  intros C. unfold lenQ in C.
  assert (E : inject_Z (Z.of_nat (length l)) == inject_Z 1) by (change (inject_Z 1) with 1; lra).
  apply (proj1 (inject_Z_injective _ _)) in E. lia.
Qed.

Lemma ind_std_burn_rule_spec (l : list Q) :
  (2 <= length l)%nat -> ind_std_burn_rule 1 l = Ok (var_burn_in 1 l).
Proof.
  intros H. unfold ind_std_burn_rule. destruct (Z.leb_spec (Z.of_nat (length l)) 1); [lia | reflexivity].
Qed.

Lemma ind_std_burn_rule_undefined (l : list Q) :
  (length l <= 1)%nat -> ind_std_burn_rule 1 l = Undefined.
Proof.
  intros H. unfold ind_std_burn_rule. destruct (Z.leb_spec (Z.of_nat (length l)) 1); [reflexivity | lia].
Qed.

(** * Gaussian noise *)

Lemma n_obs_cell_of l : n_obs (map cell_of l) = n_observed l.
Proof.
  unfold n_obs, n_observed, lenQ. do 2 f_equal.
  induction l as [|[[y m] j] l IH]; [reflexivity|].
  simpl. unfold observed at 1. simpl. destruct y; simpl; now rewrite IH.
Qed.

(** observed-entry residual: y^2 + masked (-2 y m + m^2), summed, is the RSS over observed entries —
    whatever the statistics hold under the mask *)
Lemma residual_diag l :
  y_L2 (map cell_of l) + sumQ (map (masked (fun c => (-2) * c_ym c + c_mm c)) (map cell_of l)) == rss l.
Proof.
  unfold y_L2, rss. induction l as [|[[y m] j] l IH]; [simpl; ring|].
  rewrite !map_cons, !sumQ_cons, <- IH.
  unfold masked, observed, y2, sqr, cell_of; cbn [cy c_ym c_mm]. destruct y; ring.
Qed.

Lemma noise_ft_var_spec l : noise_ft_var (map cell_of l) == rss l / n_observed l.
Proof. unfold noise_ft_var. now rewrite residual_diag, n_obs_cell_of. Qed.

Lemma rss_nonneg l : 0 <= rss l.
Proof.
  unfold rss. apply sumQ_map_nonneg. intros [[y m] j] _. destruct y; [apply sqr_nonneg | apply Qle_refl].
Qed.

Lemma all_ok_Forall2 {A} (g : A -> res Q) (l : list A) (vs : list Q) :
  all_ok (map g l) = Ok vs -> Forall2 (fun x v => g x = Ok v) l vs.
Proof.
  revert vs. induction l as [|x l IH]; intros vs H; simpl in H.
  - injection H as <-. constructor.
  - destruct (g x) eqn:E; try discriminate.
    + destruct (all_ok (map g l)) eqn:E2; try discriminate. injection H as <-.
      constructor; [exact E | now apply IH].
    + destruct (all_ok (map g l)); discriminate.
Qed.

(** the diagonal rule as a whole: when it returns, every feature's variance is its own observed-entry
    quantity, is at least [tol], and the feature has observations *)
Lemma noise_diag_rule_spec tol nft rows vs :
  noise_diag_rule tol nft rows = Ok vs ->
  Forall2 (fun f v => ~ n_obs (column f rows) == 0 /\ v = noise_ft_var (column f rows) /\ tol <= v) (seq 0 nft) vs.
Proof.
  intros H. apply all_ok_Forall2 in H. induction H as [|f v fs vs' Hf _ IH]; constructor; [|exact IH].
  cbv beta zeta in Hf.
  destruct (Qeq_bool (n_obs (column f rows)) 0) eqn:E; [discriminate|].
  split; [intros C; apply Qeq_bool_iff in C; congruence|].
  unfold guard in Hf. destruct (Qlt_bool _ tol) eqn:B; [discriminate|]. injection Hf as <-.
  split; [reflexivity|]. apply Qnot_lt_le. intros C. apply Qlt_bool_iff in C. congruence.
Qed.

(** scalar rule: ONE masked sum of the combined statistic over all cells — the same quantity as the per-feature rule,
    taken over the cells of every feature *)
Lemma noise_scalar_is_ft_var cells : noise_scalar_var cells = noise_ft_var cells.
Proof. reflexivity. Qed.

Lemma noise_scalar_var_spec l : noise_scalar_var (map cell_of l) == rss l / n_observed l.
Proof. unfold noise_scalar_var. now rewrite residual_diag, n_obs_cell_of. Qed.

Lemma n_observed_pos_iff l : 0 < n_observed l <-> ~ n_observed l == 0.
Proof.
  split.
  - intros H C. rewrite C in H. now apply Qlt_irrefl in H.
  - intros H. destruct (Qle_lt_or_eq _ _ (lenQ_nonneg (filter (fun t : option Q * Q * Q =>
      let '(y, _, _) := t in match y with Some _ => true | None => false end) l))) as [P|E]; [exact P|].
    exfalso. apply H. symmetry. exact E.
Qed.

(** the rule as a whole, guard and square root included, for ANY values under the mask ([junk], and the model value
    of an unobserved cell): it is undefined exactly when nothing is observed; otherwise it raises exactly when the
    observed-entry mean squared residual is below [tol], and else returns it (the stored parameter: its square root,
    the RMS residual over observed entries) *)
Lemma noise_scalar_rule_spec (tol : Q) (l : list (option Q * Q * Q)) :
  let d := rss l / n_observed l in
  (n_observed l == 0 <-> noise_scalar_rule tol (map cell_of l) = Undefined) /\
  (0 < n_observed l -> 0 <= d) /\
  (0 < n_observed l -> d < tol -> noise_scalar_rule tol (map cell_of l) = Collapse) /\
  (0 < n_observed l -> tol <= d ->
     exists v, noise_scalar_rule tol (map cell_of l) = Ok v /\ v == d /\ std_of (Ok v) = Ok (sqrt (Q2R d))).
Proof.
  intros d. pose proof (noise_scalar_var_spec l) as E. fold d in E.
  unfold noise_scalar_rule. rewrite n_obs_cell_of. unfold guard.
  split; [|split; [|split]].
  - destruct (Qeq_bool (n_observed l) 0) eqn:B.
    + apply Qeq_bool_iff in B. split; [reflexivity | intros _; exact B].
    + split.
      * intros C. apply Qeq_bool_iff in C. congruence.
      * destruct (Qlt_bool _ tol); discriminate.
  - intros Hn. unfold d. apply Qle_shift_div_l; [exact Hn|]. rewrite Qmult_0_l. apply rss_nonneg.
  - intros Hn Hd. apply n_observed_pos_iff in Hn.
    destruct (Qeq_bool (n_observed l) 0) eqn:B; [apply Qeq_bool_iff in B; contradiction|].
    rewrite <- E in Hd. apply Qlt_bool_iff in Hd. now rewrite Hd.
  - intros Hn Hd. apply n_observed_pos_iff in Hn.
    destruct (Qeq_bool (n_observed l) 0) eqn:B; [apply Qeq_bool_iff in B; contradiction|].
    rewrite <- E in Hd.
    destruct (Qlt_bool _ tol) eqn:B2.
    + apply Qlt_bool_iff in B2. exfalso. apply (Qlt_not_le _ _ B2 Hd).
    + eexists. split; [reflexivity|]. split; [exact E|].
      unfold std_of, res_map. f_equal. f_equal. apply Qeq_eqR. exact E.
Qed.

(** whatever the rule returns on arbitrary cells (any statistics in force, averaged or not) is [noise_scalar_var],
    at least [tol], and something is observed *)
Lemma noise_scalar_rule_ok tol cells v :
  noise_scalar_rule tol cells = Ok v -> ~ n_obs cells == 0 /\ v = noise_scalar_var cells /\ tol <= v.
Proof.
  unfold noise_scalar_rule, guard. intros H.
  destruct (Qeq_bool (n_obs cells) 0) eqn:E; [discriminate|].
  split; [intros C; apply Qeq_bool_iff in C; congruence|].
  destruct (Qlt_bool _ tol) eqn:B; [discriminate|]. injection H as <-.
  split; [reflexivity|]. apply Qnot_lt_le. intros C. apply Qlt_bool_iff in C. congruence.
Qed.

(** non-vacuity, and "for any values under the mask" made concrete.  2 individuals x 1 visit x 2 features, the second
    feature of the second visit missing; model = 1/2 everywhere (also at the missing entry), observations 1/2, 1/2, 3/4.
    Observed-entry RSS = 1/16 over 3 entries: the rule returns 1/48 whether the product held under the mask is 0 or 7 —
    and NOT 1/48 + (1/4)/3 = 5/48, the value obtained when model^2 of the unobserved entry is summed too (what
    [scalar_noise_std_update] computed before leaspy commit 3d244df). *)
Definition scalar_example (junk : Q) : list (option Q * Q * Q) :=
  [(Some (1#2), 1#2, 0); (Some (1#2), 1#2, 0); (Some (3#4), 1#2, 0); (None, 1#2, junk)].

Lemma noise_scalar_example :
  n_observed (scalar_example 0) == 3 /\ rss (scalar_example 0) / n_observed (scalar_example 0) == 1 # 48 /\
  noise_scalar_rule (1 # 100000) (map cell_of (scalar_example 0)) = noise_scalar_rule (1 # 100000) (map cell_of (scalar_example 7)) /\
  (exists v, noise_scalar_rule (1 # 100000) (map cell_of (scalar_example 7)) = Ok v /\ v == 1 # 48) /\
  noise_scalar_rule (1 # 10) (map cell_of (scalar_example 7)) = Collapse /\
  noise_scalar_rule (1 # 100000) (map cell_of [(None, 1#2, 7)]) = Undefined.
Proof.
  split; [reflexivity|]. split; [reflexivity|]. split; [reflexivity|].
  split; [eexists; split; [vm_compute; reflexivity | reflexivity]|]. split; reflexivity.
Qed.

(** * Mixture *)

Lemma sum_nth_seq (row : list Q) : sumQ (map (fun c => nth c row 0) (seq 0 (length row))) == sumQ row.
Proof.
  induction row as [|x row IH]; [reflexivity|].
  simpl length. rewrite <- cons_seq, <- seq_shift, map_cons, map_map, !sumQ_cons. cbn [nth]. now rewrite IH.
Qed.

Lemma sum_cols (nc : nat) (Rm : list (list Q)) :
  Forall (fun row => length row = nc) Rm ->
  sumQ (map (fun c => sumQ (col c Rm)) (seq 0 nc)) == sumQ (map sumQ Rm).
Proof.
  induction 1 as [|row Rm Hr _ IH].
  - simpl. rewrite (sumQ_map_const 0 (seq 0 nc)). ring.
  - simpl. rewrite (sumQ_map_plus (fun c => nth c row 0) (fun c => sumQ (col c Rm))), IH.
    subst nc. now rewrite sum_nth_seq.
Qed.

Lemma sumQ_map_div {A} (f : A -> Q) (k : Q) l : sumQ (map (fun x => f x / k) l) == sumQ (map f l) / k.
Proof. induction l as [|x l IH]; simpl; [unfold Qdiv; ring | rewrite IH; unfold Qdiv; ring]. Qed.

Definition stochastic_row (nc : nat) (row : list Q) : Prop :=
  length row = nc /\ Forall (fun x => 0 <= x) row /\ sumQ row == 1.

Lemma probs_update_spec (nc : nat) (Rm : list (list Q)) :
  Rm <> [] -> Forall (stochastic_row nc) Rm ->
  length (probs_update nc Rm) = nc /\ Forall (fun p => 0 <= p) (probs_update nc Rm) /\ sumQ (probs_update nc Rm) == 1.
Proof.
  intros Hne Hs. pose proof (lenQ_pos Rm Hne) as Hn. unfold probs_update. split; [now rewrite map_length, seq_length|]. split.
  - apply Forall_forall. intros p Hp. apply in_map_iff in Hp. destruct Hp as [c [<- _]].
    apply Qle_shift_div_l; [exact Hn|]. rewrite Qmult_0_l. apply sumQ_map_nonneg.
    intros row Hrow. rewrite Forall_forall in Hs. destruct (Hs row Hrow) as [_ [Hpos _]].
    destruct (nth_in_or_default c row 0) as [Hin|E0]; [|rewrite E0; apply Qle_refl].
    rewrite Forall_forall in Hpos. now apply Hpos.
  - rewrite (sumQ_map_div (fun c => sumQ (col c Rm)) (lenQ Rm)), sum_cols.
    + rewrite (sumQ_map_ext sumQ (fun _ => 1)).
      * rewrite sumQ_map_const. field. intros C. rewrite C in Hn. now apply Qlt_irrefl in Hn.
      * intros row Hrow. rewrite Forall_forall in Hs. now destruct (Hs row Hrow) as [_ [_ E]].
    + eapply Forall_impl; [|exact Hs]. now intros row [E _].
Qed.

Lemma dotQ_scal k w x : dotQ (map (fun a => a / k) w) x == dotQ w x / k.
Proof.
  revert x. induction w as [|a w IH]; intros [|b x]; simpl; try (unfold Qdiv; ring).
  rewrite IH. unfold Qdiv. ring.
Qed.

(** the mixture mean is the convex combination of the individual values with weights R_ic / sum_i R_ic *)
Lemma wmean_spec (w x : list Q) :
  Forall (fun a => 0 <= a) w -> ~ sumQ w == 0 ->
  exists v, wmean w x = Ok v /\
            v == dotQ (map (fun a => a / sumQ w) w) x /\
            Forall (fun a => 0 <= a) (map (fun a => a / sumQ w) w) /\
            sumQ (map (fun a => a / sumQ w) w) == 1.
Proof.
  intros Hpos Hs. unfold wmean. destruct (Qeq_bool (sumQ w) 0) eqn:E; [apply Qeq_bool_iff in E; contradiction|].
  eexists. split; [reflexivity|]. split; [now rewrite dotQ_scal|].
  assert (Hsp : 0 < sumQ w).
  { destruct (Qle_lt_or_eq _ _ (sumQ_nonneg w Hpos)) as [H|H]; [exact H | symmetry in H; contradiction]. }
  split.
  - apply Forall_forall. intros p Hp. apply in_map_iff in Hp. destruct Hp as [a [<- Ha]].
    apply Qle_shift_div_l; [exact Hsp|]. rewrite Qmult_0_l. rewrite Forall_forall in Hpos. now apply Hpos.
  - rewrite (sumQ_map_div (fun a => a) (sumQ w)), map_id. now field.
Qed.

Local Open Scope R_scope.

Lemma spread_sum (w : list Q) (s : R) :
  fold_right Rplus 0 (map (fun a => Q2R a * s) w) = Q2R (sumQ w) * s.
Proof.
  induction w as [|a w IH]; simpl.
  - unfold Q2R; simpl. ring.
  - rewrite IH, Q2R_plus. ring.
Qed.

(** the mixture std rules average over individuals a quantity that does not depend on the individual:
    the responsibilities cancel *)
Lemma mix_spread_collapse (w : list Q) (s : R) : ~ (sumQ w == 0)%Q -> mix_spread w s = s.
Proof.
  intros H. unfold mix_spread. rewrite spread_sum. field.
  intros C. apply H. apply eqR_Qeq. rewrite C. unfold Q2R; simpl. ring.
Qed.

Local Close Scope R_scope.

(** * The mixture std rule: the plain dispersion around the cluster's PRE-step mean, WITHOUT the guard *)

(** fed with the statistics of one iteration it always returns that dispersion (never raises, never undefined) *)
Lemma mix_var_rule_dispersion (mu : Q) (xs : list Q) :
  xs <> [] ->
  exists v, mix_var_rule mu xs (map sqr xs) = Ok v /\ v == mean (map (fun x => sqr (x - mu)) xs) /\ 0 <= v.
Proof.
  intros Hne. pose proof (ind_var_saem_dispersion mu xs Hne) as E.
  pose proof (dispersion_nonneg mu xs) as P.
  unfold mix_var_rule. destruct xs as [|x xs]; [congruence|]. cbn [map].
  change (sqr x :: map sqr xs) with (map sqr (x :: xs)). cbv zeta.
  destruct (Qlt_bool _ 0) eqn:B.
  - apply Qlt_bool_iff in B. rewrite E in B. exfalso. apply (Qlt_not_le _ _ B P).
  - eexists. split; [reflexivity|]. split; [exact E | rewrite E; exact P].
Qed.

(** wherever the guarded rule returns a value, the mixture rule returns the same one (any statistics in force) *)
Lemma mix_var_rule_partial (tol mu : Q) (S1 S2 : list Q) (v : Q) :
  0 <= tol -> ind_std_rule tol mu S1 S2 = Ok v -> mix_var_rule mu S1 S2 = Ok v /\ tol <= v.
Proof.
  intros Ht H. unfold ind_std_rule in H. unfold mix_var_rule.
  destruct S1 as [|a S1]; [discriminate|]. destruct S2 as [|b S2]; [discriminate|].
  unfold guard in H. cbv zeta.
  destruct (Qlt_bool (ind_var_saem mu (a :: S1) (b :: S2)) tol) eqn:B; [discriminate|].
  injection H as <-.
  assert (tol <= ind_var_saem mu (a :: S1) (b :: S2)) as L.
  { apply Qnot_lt_le. intros C. apply Qlt_bool_iff in C. congruence. }
  split; [|exact L].
  destruct (Qlt_bool _ 0) eqn:B0; [|reflexivity].
  apply Qlt_bool_iff in B0. exfalso. apply (Qlt_not_le _ _ B0). now apply Qle_trans with tol.
Qed.

(** ... and wherever the guarded rule raises (dispersion below the threshold) the mixture rule STORES the collapsed value *)
Lemma mix_var_rule_collapse_stored (tol mu : Q) (xs : list Q) :
  xs <> [] -> mean (map (fun x => sqr (x - mu)) xs) < tol ->
  ind_std_rule tol mu xs (map sqr xs) = Collapse /\
  exists v, mix_var_rule mu xs (map sqr xs) = Ok v /\ 0 <= v < tol.
Proof.
  intros Hne Hd. split.
  - now apply (proj1 (ind_std_rule_spec tol mu xs Hne)).
  - destruct (mix_var_rule_dispersion mu xs Hne) as [v [Hv [E P]]].
    exists v. split; [exact Hv|]. split; [exact P | now rewrite E].
Qed.

(** the witness met on the implementation (mixture fit, 7 individuals, every xi still at 0 = the cluster's old mean):
    the plain rule raises, the mixture rule stores std 0, and the next iteration standardises by 0 *)
Lemma mix_var_rule_refuted :
  exists (tol mu : Q) (xs : list Q),
    0 < tol /\ xs <> [] /\
    ind_std_rule tol mu xs (map sqr xs) = Collapse /\
    (exists v, mix_var_rule mu xs (map sqr xs) = Ok v /\ v == 0 /\ std_of (Ok v) = Ok 0%R) /\
    (forall x m, standardised x m 0 = Undefined).
Proof.
  exists (1 # 100000), 0, [0; 0; 0; 0; 0; 0; 0].
  split; [reflexivity|]. split; [discriminate|]. split; [vm_compute; reflexivity|]. split.
  - eexists. split; [vm_compute; reflexivity|]. split; [reflexivity|].
    unfold std_of, res_map. f_equal. unfold Q2R; simpl. rewrite Rmult_0_l. apply sqrt_0.
  - intros x m. reflexivity.
Qed.

(** * [update_parameters] is batched *)
Section Batched.
  Variables (V Stats : Type).
  Variable ps : list (mparam V Stats).
  Variable burn : bool.
  Variable suff : Stats.

  Notation cu p s := (compute_update V Stats p burn s suff).

  Definition pend_step (s : pstate V) (P : nat -> option V) (i : nat) : nat -> option V :=
    match nth_error ps i with
    | Some p => fun j => if Nat.eqb j i then Some (cu p s) else P j
    | None => P
    end.

  Lemma run_compute (l : list nat) (rest : list op) (s : pstate V) (P : nat -> option V) :
    run_trace V Stats ps burn suff (map Compute l ++ rest) s P
    = run_trace V Stats ps burn suff rest s (fold_left (pend_step s) l P).
  Proof.
    revert P. induction l as [|i l IH]; intros P; [reflexivity|].
    simpl. unfold pend_step at 2. destruct (nth_error ps i); apply IH.
  Qed.

  Definition assign_step (P : nat -> option V) (s : pstate V) (i : nat) : pstate V :=
    match P i with Some v => set i v s | None => s end.

  Lemma run_assign (l : list nat) (s : pstate V) (P : nat -> option V) :
    run_trace V Stats ps burn suff (map Assign l) s P = fold_left (assign_step P) l s.
  Proof.
    revert s. induction l as [|i l IH]; intros s; [reflexivity|].
    simpl. unfold assign_step at 2. destruct (P i); apply IH.
  Qed.

  Lemma pend_fold (s : pstate V) (l : list nat) (P : nat -> option V) (j : nat) :
    fold_left (pend_step s) l P j =
    if existsb (Nat.eqb j) l
    then match nth_error ps j with Some p => Some (cu p s) | None => P j end
    else P j.
  Proof.
    revert P. induction l as [|i l IH]; intros P; [reflexivity|].
    simpl. rewrite IH. unfold pend_step. destruct (Nat.eqb j i) eqn:E.
    - apply Nat.eqb_eq in E. subst i. simpl.
      destruct (nth_error ps j) eqn:Ep.
      + rewrite Nat.eqb_refl. now destruct (existsb _ l).
      + now destruct (existsb _ l).
    - simpl. destruct (nth_error ps i); [rewrite E|]; reflexivity.
  Qed.

  Lemma assign_fold (P : nat -> option V) (l : list nat) (s : pstate V) (j : nat) :
    fold_left (assign_step P) l s j =
    if existsb (Nat.eqb j) l then match P j with Some v => v | None => s j end else s j.
  Proof.
    revert s. induction l as [|i l IH]; intros s; [reflexivity|].
    simpl. rewrite IH. unfold assign_step. destruct (Nat.eqb j i) eqn:E.
    - apply Nat.eqb_eq in E. subst i. simpl.
      destruct (P j) eqn:Ep.
      + unfold set. rewrite Nat.eqb_refl. now destruct (existsb _ l).
      + now destruct (existsb _ l).
    - simpl. destruct (P i); [unfold set; rewrite E|]; reflexivity.
  Qed.

  Lemma existsb_seq (j n : nat) : existsb (Nat.eqb j) (seq 0 n) = (j <? n)%nat.
  Proof.
    destruct (Nat.ltb_spec j n) as [H|H].
    - apply existsb_exists. exists j. split; [apply in_seq; lia | apply Nat.eqb_refl].
    - destruct (existsb _ _) eqn:E; [|reflexivity]. apply existsb_exists in E.
      destruct E as [x [Hx E]]. apply Nat.eqb_eq in E. subst. apply in_seq in Hx. lia.
  Qed.

  (** after [update_parameters], parameter [j] holds its rule evaluated on the PRE-step state [s]
      (and the statistics in force), whatever the other rules returned; everything else is untouched *)
  Theorem update_parameters_batched (s : pstate V) (j : nat) :
    update_parameters V Stats ps burn s suff j =
    match nth_error ps j with
    | Some p => cu p s
    | None => s j
    end.
  Proof.
    unfold update_parameters, batched_trace. rewrite run_compute, run_assign, assign_fold, pend_fold, existsb_seq.
    destruct (Nat.ltb_spec j (length ps)) as [H|H].
    - destruct (nth_error ps j) eqn:E; [reflexivity|]. apply nth_error_None in E. lia.
    - apply nth_error_None in H. now rewrite H.
  Qed.

  Theorem update_parameters_is_update_all (s : pstate V) (j : nat) (p : mparam V Stats) :
    nth_error ps j = Some p ->
    nth_error (update_all V Stats ps burn s suff) j = Some (update_parameters V Stats ps burn s suff j).
  Proof.
    intros H. rewrite update_parameters_batched, H. unfold update_all. now rewrite nth_error_map, H.
  Qed.
End Batched.

(** non-vacuity: a rule that reads another parameter (as the std rule reads the mean) gets the OLD value in
    the batched order and the NEW one in the sequential order *)
Definition ex_params : list (mparam Q unit) :=
  [ {| rule := fun _ _ => 5; rule_burn := None |};               (* "x_mean": new mean 5 *)
    {| rule := fun s _ => s 0%nat; rule_burn := None |} ].       (* "x_std": reads x_mean from the state *)
Definition ex_state : pstate Q := fun _ => 1.

Lemma sequential_differs :
  update_parameters Q unit ex_params false ex_state tt 1%nat = 1 /\
  run_trace Q unit ex_params false tt (sequential_trace 2) ex_state (fun _ => None) 1%nat = 5.
Proof. split; reflexivity. Qed.
