(** C19 — proofs about the annealing model (Anneal.v). *)
From Coq Require Import ZArith QArith Qround Qminmax Bool List Lia Lqa.
From Leaspy Require Import Base.QAux Saem.Anneal.
Import ListNotations.
Local Arguments Z.of_nat : simpl never.

(** ** Generalities on [result] *)

Lemma bind_ok {A B} (r : result A) (f : A -> result B) b :
  bind r f = Ok b -> exists a, r = Ok a /\ f a = Ok b.
Proof. destruct r as [a|e]; simpl; [eauto | discriminate]. Qed.

(** ** The list-valued run is the iteration of [update_temperature] *)

Lemma run_from_S c st k n :
  run_from c st k (S n) =
  bind (update_temperature c k st) (fun st' => bind (run_from c st' (k + 1) n) (fun l => Ok (st' :: l))).
Proof. reflexivity. Qed.

Lemma state_at_S c m : state_at c (S m) = bind (state_at c m) (update_temperature c (Z.of_nat (S m))).
Proof. reflexivity. Qed.

Lemma run_from_length n : forall c st k l, run_from c st k n = Ok l -> length l = n.
Proof.
  induction n as [|n IH]; intros c st k l H; simpl in H.
  - now inversion H.
  - apply bind_ok in H. destruct H as [st' [_ H]]. apply bind_ok in H. destruct H as [l' [H1 H2]].
    inversion H2; subst. simpl. f_equal. eauto.
Qed.

Lemma run_from_nth n : forall c m st l,
  state_at c m = Ok st -> run_from c st (Z.of_nat (S m)) n = Ok l ->
  forall i s, nth_error l i = Some s -> state_at c (S m + i) = Ok s.
Proof.
  induction n as [|n IH]; intros c m st l Hm H i s Hi.
  - simpl in H. inversion H; subst. destruct i; discriminate.
  - rewrite run_from_S in H. apply bind_ok in H. destruct H as [st' [Hu H]]. apply bind_ok in H. destruct H as [l' [H1 H2]].
    inversion H2; subst; clear H2.
    assert (Hs : state_at c (S m) = Ok st') by (rewrite state_at_S, Hm; exact Hu).
    destruct i as [|i]; simpl in Hi.
    + inversion Hi; subst. now rewrite Nat.add_0_r.
    + replace (Z.of_nat (S m) + 1)%Z with (Z.of_nat (S (S m))) in H1 by lia.
      replace (S m + S i)%nat with (S (S m) + i)%nat by lia.
      exact (IH c (S m) st' l' Hs H1 i s Hi).
Qed.

Lemma run_states_length c n l : run_states c n = Ok l -> length l = S n.
Proof.
  unfold run_states. intros H. apply bind_ok in H. destruct H as [st [_ H]].
  apply bind_ok in H. destruct H as [l' [H1 H2]]. inversion H2; subst. simpl. f_equal.
  eapply run_from_length; eauto.
Qed.

Lemma run_states_nth c n l i s :
  run_states c n = Ok l -> nth_error l i = Some s -> state_at c i = Ok s.
Proof.
  unfold run_states. intros H Hi. apply bind_ok in H. destruct H as [st [H0 H]].
  apply bind_ok in H. destruct H as [l' [H1 H2]]. inversion H2; subst; clear H2.
  destruct i as [|i]; simpl in Hi.
  - inversion Hi; subst. exact H0.
  - change (S i) with (1 + i)%nat. eapply (run_from_nth n c 0 st l'); eauto.
Qed.

Lemma state_at_prefix c m s : state_at c (S m) = Ok s -> exists s', state_at c m = Ok s'.
Proof. rewrite state_at_S. intros H. apply bind_ok in H. destruct H as [s' [H _]]. eauto. Qed.

Lemma state_at_prefixes c n : forall s, state_at c n = Ok s ->
  forall m, (m <= n)%nat -> exists s', state_at c m = Ok s'.
Proof.
  induction n as [|n IH]; intros s H m Hm.
  - replace m with O by lia. eauto.
  - destruct (Nat.eq_dec m (S n)) as [->|Hne]; [eauto|].
    destruct (state_at_prefix _ _ _ H) as [s' Hs']. eapply IH; eauto. lia.
Qed.

Lemma run_from_total n : forall c m st,
  state_at c m = Ok st ->
  (forall j, (j <= n)%nat -> exists s, state_at c (m + j) = Ok s) ->
  exists l, run_from c st (Z.of_nat (S m)) n = Ok l.
Proof.
  induction n as [|n IH]; intros c m st Hm Hall.
  - simpl. eauto.
  - destruct (Hall 1%nat ltac:(lia)) as [s1 Hs1]. replace (m + 1)%nat with (S m) in Hs1 by lia.
    pose proof Hs1 as Hs1'. rewrite state_at_S, Hm in Hs1. simpl in Hs1. rewrite run_from_S, Hs1. cbn [bind].
    replace (Z.of_nat (S m) + 1)%Z with (Z.of_nat (S (S m))) by lia.
    destruct (IH c (S m) s1 Hs1') as [l Hl].
    + intros j Hj. destruct (Hall (S j) ltac:(lia)) as [s Hs].
      replace (m + S j)%nat with (S m + j)%nat in Hs by lia. eauto.
    + rewrite Hl. simpl. eauto.
Qed.

Lemma state_at_run_states c n s : state_at c n = Ok s -> exists l, run_states c n = Ok l.
Proof.
  intros H. destruct (state_at_prefixes c n s H 0%nat ltac:(lia)) as [s0 H0].
  unfold run_states. simpl in H0. rewrite H0. simpl.
  destruct (run_from_total n c 0 s0 H0) as [l Hl].
  - intros j Hj. simpl. eapply state_at_prefixes; eauto.
  - change (run_from c s0 1 n) with (run_from c s0 (Z.of_nat 1) n). rewrite Hl. simpl. eauto.
Qed.

Lemma run_anneal_length c n l : run_anneal c n = Ok l -> length l = S n.
Proof.
  unfold run_anneal. intros H. apply bind_ok in H. destruct H as [ls [H1 H2]].
  inversion H2; subst. rewrite map_length. eapply run_states_length; eauto.
Qed.

Lemma run_anneal_nth c n l i t :
  run_anneal c n = Ok l -> nth_error l i = Some t -> exists s, state_at c i = Ok s /\ temp s = t.
Proof.
  unfold run_anneal. intros H Hi. apply bind_ok in H. destruct H as [ls [H1 H2]].
  inversion H2; subst; clear H2. rewrite nth_error_map in Hi.
  destruct (nth_error ls i) as [s|] eqn:E; [|discriminate]. inversion Hi; subst.
  exists s. split; [eapply run_states_nth; eauto | reflexivity].
Qed.

Lemma state_at_run_anneal c n s : state_at c n = Ok s -> exists l, run_anneal c n = Ok l.
Proof.
  intros H. destruct (state_at_run_states _ _ _ H) as [l Hl]. unfold run_anneal. rewrite Hl. simpl. eauto.
Qed.

Lemma run_anneal_ok_state_at c n l : run_anneal c n = Ok l -> exists s, state_at c n = Ok s.
Proof.
  intros H. pose proof (run_anneal_length _ _ _ H) as Hlen.
  destruct (nth_error l n) as [t|] eqn:E.
  - destruct (run_anneal_nth _ _ _ _ _ H E) as [s [Hs _]]. eauto.
  - apply nth_error_None in E. lia.
Qed.

(** ** Constructor *)

Lemma resolve_explicit c frac n : resolve_n_ann (Some c) frac n = Ok c.
Proof. reflexivity. Qed.

Lemma resolve_fraction f n : resolve_n_ann None (Some f) n = Ok (Qtrunc (f * inject_Z n)).
Proof. reflexivity. Qed.

Lemma resolve_refused_iff e f n : resolve_n_ann e f n = Err InputError <-> e = None /\ f = None.
Proof. destruct e, f; simpl; split; intros H; try discriminate; try tauto; destruct H; discriminate. Qed.

Lemma resolve_fraction_floor f n : 0 <= f -> (0 <= n)%Z ->
  resolve_n_ann None (Some f) n = Ok (Qfloor (f * inject_Z n)).
Proof.
  intros Hf Hn. simpl. rewrite Qtrunc_nonneg; [reflexivity|].
  apply Qmult_le_0_compat; [exact Hf|]. change 0 with (inject_Z 0). now rewrite <- Zle_Qle.
Qed.

(** ** Arithmetic facts *)

Lemma div_succ_boundary p k : (0 < p)%Z -> (1 <= k)%Z -> (k mod p = 0)%Z -> (k / p = (k - 1) / p + 1)%Z.
Proof.
  intros Hp Hk Hm. pose proof (Z.div_mod k p ltac:(lia)) as E. rewrite Hm in E.
  symmetry. apply Z.add_move_r. symmetry.
  apply (Z.div_unique (k - 1) p (k / p - 1) (p - 1)); lia.
Qed.

Lemma div_succ_inside p k : (0 < p)%Z -> (1 <= k)%Z -> (k mod p <> 0)%Z -> (k / p = (k - 1) / p)%Z.
Proof.
  intros Hp Hk Hm. pose proof (Z.div_mod k p ltac:(lia)) as E.
  pose proof (Z.mod_pos_bound k p Hp) as B.
  apply (Z.div_unique (k - 1) p (k / p) (k mod p - 1)); lia.
Qed.

Lemma inject_Z_minus_1 z : inject_Z (z - 1) == inject_Z z - 1.
Proof. unfold Zminus. rewrite inject_Z_plus. reflexivity. Qed.

Lemma Qdiv_1_l t : 1 / t == / t.
Proof. unfold Qdiv. apply Qmult_1_l. Qed.

Lemma Qmax_ge_r a b : b <= QAux.Qmax a b.
Proof. unfold QAux.Qmax. apply Q.le_max_r. Qed.

Lemma Qmax_step a d : 1 <= a -> 0 < d -> QAux.Qmax (a - d) 1 <= a.
Proof.
  intros Ha Hd. unfold QAux.Qmax. destruct (Q.max_spec (a - d) 1) as [[_ E]|[_ E]]; rewrite E; lra.
Qed.

Lemma Qmax_step_strict a d : 1 < a -> 0 < d -> QAux.Qmax (a - d) 1 < a.
Proof.
  intros Ha Hd. unfold QAux.Qmax. destruct (Q.max_spec (a - d) 1) as [[_ E]|[_ E]]; rewrite E; lra.
Qed.

Lemma Qmax_compose x y d t :
  t == QAux.Qmax x 1 -> y == x - d -> 0 <= d -> QAux.Qmax (t - d) 1 == QAux.Qmax y 1.
Proof.
  unfold QAux.Qmax. intros Ht Hy Hd.
  destruct (Q.max_spec x 1) as [[A1 E1]|[A1 E1]]; rewrite E1 in Ht;
  destruct (Q.max_spec (t - d) 1) as [[A2 E2]|[A2 E2]]; rewrite E2;
  destruct (Q.max_spec y 1) as [[A3 E3]|[A3 E3]]; rewrite E3; lra.
Qed.

(** ** Proper configurations *)

Section Proper.
  Variable c : cfg.
  Hypothesis Hc : proper c.

  Let p : Z := (n_ann c / (n_plateau c - 1))%Z.
  Let d : Q := (T0 c - 1) / (inject_Z (n_plateau c) - 1).

  Lemma proper_np : 0 < inject_Z (n_plateau c) - 1.
  Proof.
    destruct Hc as [_ [Hnp _]]. assert (H : inject_Z 2 <= inject_Z (n_plateau c)) by now rewrite <- Zle_Qle.
    change (inject_Z 2) with 2 in H. lra.
  Qed.

  Lemma proper_d_pos : 0 < d.
  Proof.
    destruct Hc as [_ [_ [HT _]]]. unfold d, Qdiv. apply Qmult_lt_0_compat; [lra|].
    apply Qinv_lt_0_compat. apply proper_np.
  Qed.

  Lemma proper_p_pos : (1 <= p)%Z.
  Proof. destruct Hc as [_ [_ [_ H]]]. exact H. Qed.

  Lemma proper_n_ann : (n_plateau c - 1 <= n_ann c)%Z.
  Proof.
    destruct Hc as [_ [Hnp [_ Hp]]].
    pose proof (Z.mul_div_le (n_ann c) (n_plateau c - 1) ltac:(lia)). nia.
  Qed.

  Lemma proper_full_descent : inject_Z (n_plateau c - 1) * d == T0 c - 1.
  Proof. rewrite inject_Z_minus_1. unfold d. field. pose proof proper_np. lra. Qed.

  Lemma init_proper :
    init_anneal c = Ok {| temp := T0 c; temp_inv := 1 / T0 c; period := Some p; decr := Some d |}.
  Proof.
    pose proof Hc as [Hon [Hnp [HT Hp]]]. unfold init_anneal. rewrite Hon. simpl.
    destruct (Qeq_bool (T0 c) 0) eqn:E0; [apply Qeq_bool_eq in E0; lra|].
    destruct (0 <? n_plateau c)%Z eqn:E1; [|apply Z.ltb_ge in E1; lia]. simpl.
    destruct (n_plateau c =? 1)%Z eqn:E2; [apply Z.eqb_eq in E2; lia|].
    fold p. destruct (p <? 1)%Z eqn:E4; [apply Z.ltb_lt in E4; unfold p in E4; lia|].
    fold d. destruct (Qle_bool d 0) eqn:E3; [apply Qle_bool_iff in E3; pose proof proper_d_pos; lra|].
    reflexivity.
  Qed.

  (** invariant of every reachable state *)
  Definition good (st : astate) : Prop :=
    period st = Some p /\ decr st = Some d /\ 1 <= temp st /\ temp_inv st == / temp st.

  Definition boundary (k : Z) : bool := (k <=? n_ann c)%Z && (k mod p =? 0)%Z.

  Lemma update_good k st : good st ->
    exists st', update_temperature c k st = Ok st' /\ good st' /\
      (boundary k = true -> temp st' = QAux.Qmax (temp st - d) 1) /\
      (boundary k = false -> st' = st).
  Proof.
    intros [Hp [Hd [H1 Hi]]]. pose proof Hc as [Hon _]. pose proof proper_p_pos as Hpp.
    unfold update_temperature, boundary. rewrite Hon, Hp. simpl.
    destruct (k <=? n_ann c)%Z; simpl.
    - destruct (p =? 0)%Z eqn:E0; [apply Z.eqb_eq in E0; lia|].
      destruct (k mod p =? 0)%Z.
      + rewrite Hd. eexists. split; [reflexivity|]. split; [|split; [reflexivity | discriminate]].
        unfold good; simpl. repeat split; auto. apply Qmax_ge_r. apply Qdiv_1_l.
      + exists st. repeat split; auto. discriminate.
    - exists st. repeat split; auto. discriminate.
  Qed.

  Lemma state_at_good n : exists st, state_at c n = Ok st /\ good st.
  Proof.
    induction n as [|n [st [Hs Hg]]].
    - simpl. rewrite init_proper. eexists. split; [reflexivity|].
      unfold good; simpl. pose proof Hc as [_ [_ [HT _]]]. repeat split; auto. lra. apply Qdiv_1_l.
    - destruct (update_good (Z.of_nat (S n)) st Hg) as [st' [Hu [Hg' _]]].
      exists st'. split; [|exact Hg']. simpl state_at. rewrite Hs. exact Hu.
  Qed.

  Lemma state_at_step n st st' :
    state_at c n = Ok st -> state_at c (S n) = Ok st' ->
    good st /\ good st' /\
    (boundary (Z.of_nat (S n)) = true -> temp st' = QAux.Qmax (temp st - d) 1) /\
    (boundary (Z.of_nat (S n)) = false -> st' = st).
  Proof.
    intros Hs Hs'. destruct (state_at_good n) as [s [E Hg]]. rewrite Hs in E. inversion E; subst s.
    destruct (update_good (Z.of_nat (S n)) st Hg) as [s' [Hu [Hg' [Hb Hnb]]]].
    simpl state_at in Hs'. rewrite Hs in Hs'. simpl in Hs'. rewrite Hu in Hs'. inversion Hs'; subst s'.
    auto.
  Qed.

  Lemma proper_total n : exists l, run_anneal c n = Ok l /\ length l = S n.
  Proof.
    destruct (state_at_good n) as [st [Hs _]]. destruct (state_at_run_anneal _ _ _ Hs) as [l Hl].
    exists l. split; [exact Hl | eapply run_anneal_length; eauto].
  Qed.

  Lemma proper_start st : state_at c 0 = Ok st -> temp st = T0 c /\ temp_inv st == / T0 c.
  Proof. simpl. rewrite init_proper. intros H. inversion H; subst; simpl. split; [reflexivity | apply Qdiv_1_l]. Qed.

  Lemma proper_ge_one n st : state_at c n = Ok st -> 1 <= temp st.
  Proof. intros H. destruct (state_at_good n) as [s [E [_ [_ [Hg _]]]]]. rewrite H in E. now inversion E; subst. Qed.

  Lemma proper_inverse n st : state_at c n = Ok st ->
    temp_inv st == / temp st /\ 0 < temp_inv st /\ temp_inv st <= 1.
  Proof.
    intros H. destruct (state_at_good n) as [s [E [_ [_ [H1 Hi]]]]]. rewrite H in E. inversion E; subst s.
    split; [exact Hi|]. rewrite Hi. split.
    - apply Qinv_lt_0_compat. lra.
    - apply Qle_shift_inv_r; lra.
  Qed.

  Lemma proper_nonincreasing n st st' :
    state_at c n = Ok st -> state_at c (S n) = Ok st' -> temp st' <= temp st.
  Proof.
    intros H H'. destruct (state_at_step _ _ _ H H') as [[_ [_ [H1 _]]] [_ [Hb Hnb]]].
    destruct (boundary (Z.of_nat (S n))).
    - rewrite (Hb eq_refl). apply Qmax_step; [exact H1 | apply proper_d_pos].
    - rewrite (Hnb eq_refl). lra.
  Qed.

  Lemma proper_changes_only_at_boundaries n st st' :
    state_at c n = Ok st -> state_at c (S n) = Ok st' -> st' <> st ->
    (Z.of_nat (S n) <= n_ann c)%Z /\ (Z.of_nat (S n) mod p = 0)%Z.
  Proof.
    intros H H' Hne. destruct (state_at_step _ _ _ H H') as [_ [_ [_ Hnb]]].
    destruct (boundary (Z.of_nat (S n))) eqn:E.
    - unfold boundary in E. apply andb_true_iff in E. destruct E as [E1 E2].
      apply Z.leb_le in E1. apply Z.eqb_eq in E2. auto.
    - exfalso. apply Hne. now apply Hnb.
  Qed.

  Lemma proper_step_at_boundary n st st' :
    state_at c n = Ok st -> state_at c (S n) = Ok st' ->
    (Z.of_nat (S n) <= n_ann c)%Z -> (Z.of_nat (S n) mod p = 0)%Z ->
    temp st' = QAux.Qmax (temp st - d) 1 /\ (1 < temp st -> temp st' < temp st).
  Proof.
    intros H H' H1 H2. destruct (state_at_step _ _ _ H H') as [_ [_ [Hb _]]].
    assert (E : boundary (Z.of_nat (S n)) = true).
    { unfold boundary. apply andb_true_iff. split; [now apply Z.leb_le | now apply Z.eqb_eq]. }
    split; [now apply Hb|]. intros Hgt. rewrite (Hb E). apply Qmax_step_strict; [exact Hgt | apply proper_d_pos].
  Qed.

  (** closed form: after [n] iterations the temperature is T0 lowered once per boundary crossed, floored at 1 *)
  Lemma proper_closed_form n st :
    state_at c n = Ok st -> temp st == QAux.Qmax (T0 c - inject_Z (crossed c (Z.of_nat n)) * d) 1.
  Proof.
    revert st. pose proof proper_p_pos as Hpp. pose proof proper_d_pos as Hdp.
    induction n as [|n IH]; intros st H.
    - destruct (proper_start st H) as [E _]. rewrite E. unfold crossed. fold p.
      pose proof proper_n_ann. destruct Hc as [_ [Hnp _]].
      rewrite Z.min_l by lia. rewrite Z.div_0_l by lia.
      change (inject_Z 0) with 0.
      unfold QAux.Qmax. rewrite Q.max_l; [ring|]. destruct Hc as [_ [_ [HT _]]]. lra.
    - destruct (state_at_prefix _ _ _ H) as [s Hs]. specialize (IH s Hs).
      destruct (state_at_step _ _ _ Hs H) as [_ [_ [Hb Hnb]]].
      unfold crossed in IH |- *. fold p in IH |- *.
      destruct (boundary (Z.of_nat (S n))) eqn:E.
      + rewrite (Hb eq_refl). unfold boundary in E. apply andb_true_iff in E. destruct E as [E1 E2].
        apply Z.leb_le in E1. apply Z.eqb_eq in E2.
        rewrite Z.min_l by lia. rewrite Z.min_l in IH by lia.
        rewrite (div_succ_boundary p (Z.of_nat (S n))) by lia.
        replace (Z.of_nat (S n) - 1)%Z with (Z.of_nat n) by lia.
        eapply Qmax_compose; [exact IH | | lra]. rewrite inject_Z_plus. change (inject_Z 1) with 1. ring.
      + rewrite (Hnb eq_refl). rewrite IH. unfold boundary in E. apply andb_false_iff in E.
        destruct (Z_le_gt_dec (Z.of_nat (S n)) (n_ann c)) as [Hle|Hgt].
        * destruct E as [E|E]; [apply Z.leb_gt in E; lia|]. apply Z.eqb_neq in E.
          rewrite Z.min_l by lia. rewrite (Z.min_l (Z.of_nat (S n))) by lia.
          rewrite (div_succ_inside p (Z.of_nat (S n))) by lia.
          replace (Z.of_nat (S n) - 1)%Z with (Z.of_nat n) by lia. reflexivity.
        * rewrite Z.min_r by lia. rewrite (Z.min_r (Z.of_nat (S n))) by lia. reflexivity.
  Qed.

  Lemma proper_enough_boundaries : (n_plateau c - 1 <= n_ann c / p)%Z.
  Proof.
    pose proof proper_p_pos. destruct Hc as [_ [Hnp _]].
    apply Z.div_le_lower_bound; [lia|]. unfold p. rewrite Z.mul_comm. apply Z.mul_div_le. lia.
  Qed.

  Lemma proper_one_after_annealing n st :
    state_at c n = Ok st -> (n_ann c <= Z.of_nat n)%Z -> temp st == 1.
  Proof.
    intros H Hn. rewrite (proper_closed_form n st H). unfold crossed. fold p.
    rewrite Z.min_r by lia. pose proof proper_enough_boundaries as Hb. pose proof proper_d_pos as Hd.
    pose proof proper_full_descent as Hf.
    assert (Hq : inject_Z (n_plateau c - 1) * d <= inject_Z (n_ann c / p) * d).
    { apply Qmult_le_compat_r; [|lra]. now rewrite <- Zle_Qle. }
    unfold QAux.Qmax. apply Q.max_r. lra.
  Qed.
End Proper.

(** ** Annealing switched off *)

Lemma off_state_at c : a_on c = false -> forall n, state_at c n = Ok ctor_state.
Proof.
  intros Hoff. induction n as [|n IH]; simpl.
  - unfold init_anneal. now rewrite Hoff.
  - rewrite IH. simpl. unfold update_temperature. now rewrite Hoff.
Qed.

Lemma off_run c n : a_on c = false -> exists l, run_anneal c n = Ok l /\ length l = S n /\ Forall (fun t => t = 1) l.
Proof.
  intros Hoff. destruct (state_at_run_anneal c n _ (off_state_at c Hoff n)) as [l Hl].
  exists l. split; [exact Hl|]. split; [eapply run_anneal_length; eauto|].
  apply Forall_forall. intros t Ht. apply In_nth_error in Ht. destruct Ht as [i Hi].
  destruct (run_anneal_nth _ _ _ _ _ Hl Hi) as [s [Hs <-]]. rewrite off_state_at in Hs by assumption.
  now inversion Hs.
Qed.

(** ** Classification of the accepted configurations *)

Lemma div_lt_1_iff a b : (0 < b)%Z -> ((a / b < 1)%Z <-> (a < b)%Z).
Proof.
  intros Hb. split; intros H.
  - destruct (Z_lt_ge_dec a b) as [|Hge]; [assumption|]. exfalso.
    assert (1 <= a / b)%Z by (apply Z.div_le_lower_bound; lia). lia.
  - destruct (Z_lt_ge_dec a 0) as [Hn|Hn].
    + pose proof (Z.div_lt_upper_bound a b 0 Hb ltac:(lia)). lia.
    + rewrite Z.div_small; lia.
Qed.

Lemma accepted_cases c st : init_anneal c = Ok st -> a_on c = false \/ proper c \/ frozen c.
Proof.
  unfold init_anneal. destruct (a_on c) eqn:Hon; [|auto]. simpl.
  destruct (Qeq_bool (T0 c) 0); [discriminate|].
  destruct (0 <? n_plateau c)%Z eqn:E1; [|discriminate]. apply Z.ltb_lt in E1. simpl.
  destruct (n_plateau c =? 1)%Z eqn:E2.
  - apply Z.eqb_eq in E2. intros _. right. right. split; auto.
  - apply Z.eqb_neq in E2.
    destruct (n_ann c / (n_plateau c - 1) <? 1)%Z eqn:E4; [discriminate|]. apply Z.ltb_ge in E4.
    destruct (Qle_bool _ 0) eqn:E3; [discriminate|]. intros _.
    assert (Hnp : 0 < inject_Z (n_plateau c) - 1).
    { assert (H : inject_Z 2 <= inject_Z (n_plateau c)) by (rewrite <- Zle_Qle; lia).
      change (inject_Z 2) with 2 in H. lra. }
    assert (HT : 1 < T0 c).
    { destruct (Qlt_le_dec 1 (T0 c)) as [H|H]; [exact H|]. exfalso.
      assert (Hd : (T0 c - 1) / (inject_Z (n_plateau c) - 1) <= 0).
      { apply Qle_shift_div_r; [exact Hnp | lra]. }
      apply Qle_bool_iff in Hd. congruence. }
    right. left. repeat split; auto; lia.
Qed.

(** an accepted configuration with at least two plateaus is proper: every theorem about proper
    configurations is a theorem about every accepted true annealing scheme *)
Lemma accepted_proper c st : init_anneal c = Ok st -> a_on c = true -> (2 <= n_plateau c)%Z -> proper c.
Proof.
  intros Hi Hon Hnp. destruct (accepted_cases c st Hi) as [Hoff|[Hp|[_ Hf]]]; [congruence | exact Hp | lia].
Qed.

Lemma frozen_init c : frozen c -> ~ T0 c == 0 ->
  init_anneal c = Ok {| temp := T0 c; temp_inv := 1 / T0 c; period := None; decr := None |}.
Proof.
  intros [Hon Hnp] HT. unfold init_anneal. rewrite Hon, Hnp. simpl.
  destruct (Qeq_bool (T0 c) 0) eqn:E0; [apply Qeq_bool_eq in E0; contradiction | reflexivity].
Qed.

(** exactly which configurations [_initialize_annealing] accepts *)
Lemma accepted_iff c :
  (exists st, init_anneal c = Ok st) <-> a_on c = false \/ proper c \/ (frozen c /\ ~ T0 c == 0).
Proof.
  split.
  - intros [st Hi]. destruct (accepted_cases c st Hi) as [H|[H|H]]; auto.
    right. right. split; [exact H|]. intros E. apply Qeq_bool_iff in E.
    revert Hi. unfold init_anneal. destruct H as [-> _]. simpl. rewrite E. discriminate.
  - intros [Hoff|[Hp|[Hf HT]]].
    + exists ctor_state. unfold init_anneal. now rewrite Hoff.
    + eexists. apply init_proper. exact Hp.
    + eexists. apply frozen_init; assumption.
Qed.

(** the repaired guard: fewer annealing iterations than temperature steps is an input error
    (a crash only for the initial temperature 0, whose inverse is taken first), never accepted *)
Lemma short_refused c : short c ->
  (~ T0 c == 0 -> init_anneal c = Err InputError) /\ (forall st, init_anneal c <> Ok st).
Proof.
  intros [Hon [Hnp Hna]].
  assert (E4 : (n_ann c / (n_plateau c - 1) <? 1)%Z = true).
  { apply Z.ltb_lt. apply div_lt_1_iff; lia. }
  unfold init_anneal. rewrite Hon. simpl.
  destruct (Qeq_bool (T0 c) 0) eqn:E0.
  - split; [|discriminate]. intros H. exfalso. apply H. now apply Qeq_bool_eq.
  - destruct (0 <? n_plateau c)%Z eqn:E1; [|apply Z.ltb_ge in E1; lia]. simpl.
    destruct (n_plateau c =? 1)%Z eqn:E2; [apply Z.eqb_eq in E2; lia|].
    rewrite E4. split; [reflexivity | discriminate].
Qed.

(** an accepted initialisation never leaves a plateau length below 1 behind: the modulo of
    [_update_temperature] cannot divide by zero *)
Lemma init_period_pos c st p : init_anneal c = Ok st -> period st = Some p -> (1 <= p)%Z.
Proof.
  unfold init_anneal. destruct (a_on c); simpl; [|intros H; inversion H; subst; discriminate].
  destruct (Qeq_bool (T0 c) 0); [discriminate|].
  destruct (0 <? n_plateau c)%Z; [|discriminate]. simpl.
  destruct (n_plateau c =? 1)%Z; [intros H; inversion H; subst; discriminate|].
  destruct (n_ann c / (n_plateau c - 1) <? 1)%Z eqn:E4; [discriminate|]. apply Z.ltb_ge in E4.
  destruct (Qle_bool _ 0); [discriminate|]. intros H. inversion H; subst; simpl. intros Hp. inversion Hp; subst. exact E4.
Qed.

Lemma frozen_state_at c st : init_anneal c = Ok st -> frozen c ->
  temp st = T0 c /\ forall n, state_at c n = Ok st.
Proof.
  intros Hi [Hon Hf].
  assert (Ht : temp st = T0 c /\ period st = None).
  { revert Hi. unfold init_anneal. rewrite Hon, Hf. simpl.
    destruct (Qeq_bool (T0 c) 0); [discriminate|]. intros H. inversion H; subst; simpl. auto. }
  destruct Ht as [Ht Hp]. split; [exact Ht|].
  induction n as [|n IH]; [exact Hi|]. simpl. rewrite IH. simpl.
  unfold update_temperature. rewrite Hp. now destruct (a_on c).
Qed.

Lemma frozen_run c st n : init_anneal c = Ok st -> frozen c ->
  exists l, run_anneal c n = Ok l /\ length l = S n /\ Forall (fun t => t = T0 c) l.
Proof.
  intros Hi Hf. destruct (frozen_state_at c st Hi Hf) as [Ht Hs].
  destruct (state_at_run_anneal c n _ (Hs n)) as [l Hl].
  exists l. split; [exact Hl|]. split; [eapply run_anneal_length; eauto|].
  apply Forall_forall. intros t Hin. apply In_nth_error in Hin. destruct Hin as [i Hi'].
  destruct (run_anneal_nth _ _ _ _ _ Hl Hi') as [s [Hs' <-]]. rewrite Hs in Hs'. now inversion Hs'; subst.
Qed.

(** every accepted configuration runs to completion, for any number of iterations *)
Lemma accepted_total c st : init_anneal c = Ok st ->
  forall n, exists l, run_anneal c n = Ok l /\ length l = S n.
Proof.
  intros Hi n. destruct (accepted_cases c st Hi) as [Hoff|[Hp|Hf]].
  - destruct (off_run c n Hoff) as [l [Hl [Hlen _]]]. eauto.
  - apply proper_total. exact Hp.
  - destruct (frozen_run c st n Hi Hf) as [l [Hl [Hlen _]]]. eauto.
Qed.

(** ** The same facts stated on the list of temperatures returned by [run_anneal] *)

Section OnRuns.
  Variable c : cfg.
  Hypothesis Hc : proper c.
  Variables (n : nat) (l : list Q).
  Hypothesis Hrun : run_anneal c n = Ok l.

  Lemma ra_start : nth_error l 0 = Some (T0 c).
  Proof.
    pose proof (run_anneal_length _ _ _ Hrun) as Hlen.
    destruct (nth_error l 0) as [t|] eqn:E; [|apply nth_error_None in E; lia].
    destruct (run_anneal_nth _ _ _ _ _ Hrun E) as [s [Hs <-]].
    destruct (proper_start c Hc s Hs) as [-> _]. reflexivity.
  Qed.

  Lemma ra_ge_one k t : nth_error l k = Some t -> 1 <= t.
  Proof. intros E. destruct (run_anneal_nth _ _ _ _ _ Hrun E) as [s [Hs <-]]. eapply proper_ge_one; eauto. Qed.

  Lemma ra_nonincreasing k t t' : nth_error l k = Some t -> nth_error l (S k) = Some t' -> t' <= t.
  Proof.
    intros E E'. destruct (run_anneal_nth _ _ _ _ _ Hrun E) as [s [Hs <-]].
    destruct (run_anneal_nth _ _ _ _ _ Hrun E') as [s' [Hs' <-]]. eapply proper_nonincreasing; eauto.
  Qed.

  Lemma ra_changes_only_at_boundaries k t t' :
    nth_error l k = Some t -> nth_error l (S k) = Some t' -> ~ t' == t ->
    (Z.of_nat (S k) <= n_ann c)%Z /\ (Z.of_nat (S k) mod (n_ann c / (n_plateau c - 1)) = 0)%Z.
  Proof.
    intros E E' Hne. destruct (run_anneal_nth _ _ _ _ _ Hrun E) as [s [Hs <-]].
    destruct (run_anneal_nth _ _ _ _ _ Hrun E') as [s' [Hs' <-]].
    eapply proper_changes_only_at_boundaries; eauto. intros ->. apply Hne. reflexivity.
  Qed.

  Lemma ra_step_at_boundary k t t' :
    nth_error l k = Some t -> nth_error l (S k) = Some t' ->
    (Z.of_nat (S k) <= n_ann c)%Z -> (Z.of_nat (S k) mod (n_ann c / (n_plateau c - 1)) = 0)%Z ->
    t' = QAux.Qmax (t - (T0 c - 1) / (inject_Z (n_plateau c) - 1)) 1 /\ (1 < t -> t' < t).
  Proof.
    intros E E' H1 H2. destruct (run_anneal_nth _ _ _ _ _ Hrun E) as [s [Hs <-]].
    destruct (run_anneal_nth _ _ _ _ _ Hrun E') as [s' [Hs' <-]].
    eapply proper_step_at_boundary; eauto.
  Qed.

  Lemma ra_closed_form k t : nth_error l k = Some t ->
    t == QAux.Qmax (T0 c - inject_Z (crossed c (Z.of_nat k)) * ((T0 c - 1) / (inject_Z (n_plateau c) - 1))) 1.
  Proof. intros E. destruct (run_anneal_nth _ _ _ _ _ Hrun E) as [s [Hs <-]]. now apply proper_closed_form. Qed.

  Lemma ra_one_after_annealing k t : nth_error l k = Some t -> (n_ann c <= Z.of_nat k)%Z -> t == 1.
  Proof. intros E Hk. destruct (run_anneal_nth _ _ _ _ _ Hrun E) as [s [Hs <-]]. eapply proper_one_after_annealing; eauto. Qed.
End OnRuns.

Lemma rs_inverse c n ls k st : proper c -> run_states c n = Ok ls -> nth_error ls k = Some st ->
  temp_inv st == / temp st /\ 0 < temp_inv st /\ temp_inv st <= 1.
Proof. intros Hc Hr E. eapply proper_inverse; eauto. eapply run_states_nth; eauto. Qed.

(** ** Witnesses (non-vacuity of [proper], [short], [frozen]; the remaining defects of the scheme) *)

Ltac solve_num := first [reflexivity | lia | (vm_compute; intro; discriminate) | (vm_compute; reflexivity)].

Example proper_example : proper {| a_on := true; n_ann := 30; T0 := 5; n_plateau := 4 |}.
Proof. unfold proper; simpl. repeat split; solve_num. Qed.

Example proper_example_run :
  bind (run_anneal {| a_on := true; n_ann := 6; T0 := 4; n_plateau := 4 |} 8) (fun l => Ok (map Qred l))
  = Ok [4; 4; 3; 3; 2; 2; 1; 1; 1].
Proof. vm_compute. reflexivity. Qed.

Example proper_default_20 : exists c, default_cfg 20 = Ok c /\ proper c.
Proof. eexists. split; [reflexivity|]. unfold proper; simpl. repeat split; solve_num. Qed.

Example accepted_example :
  exists st, init_anneal {| a_on := true; n_ann := 30; T0 := 5; n_plateau := 4 |} = Ok st /\ period st = Some 10%Z.
Proof. eexists. split; vm_compute; reflexivity. Qed.

(** the smallest accepted number of annealing iterations: one iteration per temperature step *)
Example proper_minimal : proper {| a_on := true; n_ann := 9; T0 := 10; n_plateau := 10 |}.
Proof. unfold proper; simpl. repeat split; solve_num. Qed.

Example short_example : short {| a_on := true; n_ann := 8; T0 := 10; n_plateau := 10 |}.
Proof. unfold short; simpl. repeat split; solve_num. Qed.

Example frozen_accepted_example :
  frozen {| a_on := true; n_ann := 5; T0 := 10; n_plateau := 1 |} /\ ~ (10 : Q) == 0.
Proof. split; [split; reflexivity | solve_num]. Qed.

(** F11a repaired: the shipped annealing defaults with n_iter = 10 (5 annealing iterations for 9 temperature
    steps) and with n_iter = 1 (no annealing iteration) are refused at initialisation; n_iter = 17 is the
    largest refused number of iterations, 18 the smallest accepted one *)
Lemma defaults_short_refused :
  (exists c, default_cfg 10 = Ok c /\ short c /\ init_anneal c = Err InputError) /\
  (exists c, default_cfg 1 = Ok c /\ short c /\ n_ann c = 0%Z /\ init_anneal c = Err InputError) /\
  (exists c, default_cfg 17 = Ok c /\ short c /\ init_anneal c = Err InputError) /\
  (exists c, default_cfg 18 = Ok c /\ proper c).
Proof.
  repeat split; eexists; (split; [reflexivity|]).
  - split; [unfold short; simpl; repeat split; solve_num | vm_compute; reflexivity].
  - split; [unfold short; simpl; repeat split; solve_num |]. split; vm_compute; reflexivity.
  - split; [unfold short; simpl; repeat split; solve_num | vm_compute; reflexivity].
  - unfold proper; simpl. repeat split; solve_num.
Qed.

(** F11b: an accepted configuration whose temperature never moves from T0 > 1 (single plateau) *)
Lemma frozen_witness :
  exists c st, init_anneal c = Ok st /\ frozen c /\ 1 < T0 c.
Proof.
  exists {| a_on := true; n_ann := 5; T0 := 10; n_plateau := 1 |}. eexists.
  split; [vm_compute; reflexivity|]. split; [split; reflexivity|]. simpl. solve_num.
Qed.

(** with a single plateau the guard [initial_temperature > 1] is never evaluated *)
Lemma below_one_witness :
  exists c st, init_anneal c = Ok st /\ frozen c /\ T0 c < 1 /\ 0 < T0 c.
Proof.
  exists {| a_on := true; n_ann := 5; T0 := 1 # 2; n_plateau := 1 |}. eexists.
  split; [vm_compute; reflexivity|]. split; [split; reflexivity|].
  simpl. split; solve_num.
Qed.

(** *** the temperature in force after iteration k is a function of the configuration and k alone: it does not
    depend on how long the run goes on (any accepted or refused configuration, any two run lengths) *)
Lemma run_anneal_length_irrelevant c n n' l l' :
  run_anneal c n = Ok l -> run_anneal c n' = Ok l' ->
  forall k, (k <= n)%nat -> (k <= n')%nat -> nth_error l k = nth_error l' k.
Proof.
  intros H H' k Hk Hk'.
  pose proof (run_anneal_length _ _ _ H) as Hl. pose proof (run_anneal_length _ _ _ H') as Hl'.
  destruct (nth_error l k) as [t|] eqn:E; [|apply nth_error_None in E; lia].
  destruct (nth_error l' k) as [t'|] eqn:E'; [|apply nth_error_None in E'; lia].
  destruct (run_anneal_nth _ _ _ _ _ H E) as [s [Hs Ht]].
  destruct (run_anneal_nth _ _ _ _ _ H' E') as [s' [Hs' Ht']].
  rewrite Hs in Hs'. inversion Hs'; subst. reflexivity.
Qed.
