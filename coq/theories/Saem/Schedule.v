(** C05 — model of the stochastic-approximation schedule of MCMC-SAEM
    (leaspy/algo/fit/mcmc_saem.py::_maximization_step, algo_with_samplers.py).
    Definitions only; proofs are in ScheduleProofs.v, the tie to the regenerated
    definitions (gen/GenC05.v) in ScheduleTie.v. *)
From Coq Require Import ZArith Reals QArith Qreals Qround Bool List.
From Leaspy Require Import Base.QAux.
Import ListNotations.

(** [k] = current iteration (1-based), [nb] = n_burn_in_iter *)
Definition is_burn_in (k nb : Z) : bool := (k <=? nb)%Z.

(** statistics are taken as they are during burn-in and at the first iteration after it *)
Definition memoryless (k nb : Z) : bool := is_burn_in k nb || (k =? 1 + nb)%Z.

(** the [burn_in] flag handed to [update_parameters] *)
Definition burn_flag (k nb : Z) : bool := is_burn_in k nb.

(** constructor guard on [burn_in_step_power] *)
Definition power_ok (p : Q) : bool := Qlt_bool (1 # 2) p && Qle_bool p 1.

(** memory-less phase length *)
Definition n_burn (explicit : option Z) (frac : Q) (n_iter : Z) : Z :=
  match explicit with
  | Some c => c
  | None => Qtrunc (frac * inject_Z n_iter)
  end.

Definition eps (k nb : Z) (p : R) : R := Rpower (IZR (k - nb)) (- p).

Definition convex (Sprev s e : R) : R := (Sprev * (1 - e) + e * s)%R.
Definition convexQ (Sprev s e : Q) : Q := (Sprev * (1 - e) + e * s)%Q.

Section Run.
  Variable nb : Z.
  Variable p : R.
  Variable s : nat -> R.      (** [s k]: statistic computed at iteration [k] (k >= 1) *)

  (** statistics in force after the maximisation step of iteration [k] *)
  Fixpoint stat (k : nat) : R :=
    match k with
    | O => 0%R
    | Datatypes.S j =>
        if memoryless (Z.of_nat k) nb then s k
        else convex (stat j) (s k) (eps (Z.of_nat k) nb p)
    end.

  (** explicit weights of the unrolled recursion, [m] = first iteration kept (nb+1),
      [weights d] are the weights of s m .. s (m+d) in stat (m+d) *)
  Variable m : nat.
  Fixpoint weights (d : nat) : list R :=
    match d with
    | O => [1%R]
    | Datatypes.S d' =>
        let e := eps (Z.of_nat (m + d)) nb p in
        map (fun w => (w * (1 - e))%R) (weights d') ++ [e]
    end.

  Fixpoint dot (ws xs : list R) : R :=
    match ws, xs with
    | w :: ws', x :: xs' => (w * x + dot ws' xs')%R
    | _, _ => 0%R
    end.

  Fixpoint sumR (l : list R) : R := match l with [] => 0%R | x :: r => (x + sumR r)%R end.
End Run.
