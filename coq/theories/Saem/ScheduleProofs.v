From Coq Require Import ZArith Reals Lra Lia QArith Qreals Qround Bool List Psatz.
From Leaspy Require Import Base.QAux Saem.Schedule.
Import ListNotations.

Lemma is_burn_in_iff k nb : is_burn_in k nb = true <-> (k <= nb)%Z.
Proof. unfold is_burn_in. apply Z.leb_le. Qed.

Lemma memoryless_iff k nb : memoryless k nb = true <-> (k <= nb + 1)%Z.
Proof.
  unfold memoryless, is_burn_in. rewrite orb_true_iff, Z.leb_le, Z.eqb_eq. lia.
Qed.

Lemma memoryless_false_iff k nb : memoryless k nb = false <-> (nb + 2 <= k)%Z.
Proof.
  destruct (memoryless k nb) eqn:E.
  - apply memoryless_iff in E. split; [discriminate | lia].
  - split; [intros _ | reflexivity].
    destruct (Z_le_gt_dec k (nb + 1)) as [H|H]; [apply memoryless_iff in H; congruence | lia].
Qed.

(** the first iteration after burn-in still takes the statistics as they are but is already
    maximised with the post-burn-in rules *)
Lemma first_memory_iteration nb : memoryless (nb + 1) nb = true /\ burn_flag (nb + 1) nb = false.
Proof.
  split; [apply memoryless_iff; lia|].
  unfold burn_flag, is_burn_in. apply Z.leb_gt. lia.
Qed.

Lemma power_ok_iff p : power_ok p = true <-> (1 # 2 < p /\ p <= 1)%Q.
Proof. unfold power_ok. rewrite andb_true_iff, Qlt_bool_iff, Qle_bool_iff. tauto. Qed.

Lemma n_burn_explicit c frac n : n_burn (Some c) frac n = c.
Proof. reflexivity. Qed.

Lemma n_burn_fraction frac n : (0 <= frac)%Q -> (0 <= n)%Z ->
  n_burn None frac n = Qfloor (frac * inject_Z n) /\
  (inject_Z (n_burn None frac n) <= frac * inject_Z n)%Q /\
  (frac * inject_Z n < inject_Z (n_burn None frac n + 1))%Q.
Proof.
  intros Hf Hn. unfold n_burn.
  assert (H0 : (0 <= frac * inject_Z n)%Q).
  { apply Qmult_le_0_compat; [exact Hf|]. change 0%Q with (inject_Z 0). rewrite <- Zle_Qle. exact Hn. }
  rewrite (Qtrunc_nonneg _ H0). split; [reflexivity|]. split.
  - apply Qfloor_le.
  - apply Qlt_floor.
Qed.

Lemma n_burn_le_n frac n : (0 <= frac)%Q -> (frac <= 1)%Q -> (0 <= n)%Z ->
  (0 <= n_burn None frac n <= n)%Z.
Proof.
  intros Hf H1 Hn. destruct (n_burn_fraction frac n Hf Hn) as [E [Hle Hlt]].
  assert (H0 : (0 <= frac * inject_Z n)%Q).
  { apply Qmult_le_0_compat; [exact Hf|]. change 0%Q with (inject_Z 0). rewrite <- Zle_Qle. exact Hn. }
  split.
  - rewrite E. change 0%Z with (Qfloor 0). apply Qfloor_resp_le. exact H0.
  - assert (Hq : (inject_Z (n_burn None frac n) <= inject_Z n)%Q).
    { eapply Qle_trans; [exact Hle|].
      rewrite <- (Qmult_1_l (inject_Z n)) at 2.
      apply Qmult_le_compat_r; [exact H1|]. change 0%Q with (inject_Z 0). rewrite <- Zle_Qle. exact Hn. }
    rewrite <- Zle_Qle in Hq. exact Hq.
Qed.

(** *** the step size *)

Lemma eps_pos k nb p : (0 < eps k nb p)%R.
Proof. unfold eps, Rpower. apply exp_pos. Qed.

Lemma eps_first nb p : eps (nb + 1) nb p = 1%R.
Proof.
  unfold eps. replace (nb + 1 - nb)%Z with 1%Z by lia.
  unfold Rpower. rewrite ln_1, Rmult_0_r. apply exp_0.
Qed.

Lemma eps_lt_1 k nb p : (0 < p)%R -> (nb + 2 <= k)%Z -> (eps k nb p < 1)%R.
Proof.
  intros Hp Hk. unfold eps, Rpower. rewrite <- exp_0. apply exp_increasing.
  assert (H2 : (2 <= IZR (k - nb))%R) by (apply IZR_le; lia).
  assert (Hln : (0 < ln (IZR (k - nb)))%R).
  { rewrite <- ln_1. apply ln_increasing; lra. }
  nra.
Qed.

Section Run.
  Variable nb : Z.
  Variable p : R.
  Variable s : nat -> R.
  Notation stat := (stat nb p s).

  Lemma stat_memoryless k : (1 <= k)%nat -> (Z.of_nat k <= nb + 1)%Z -> stat k = s k.
  Proof.
    intros H1 Hk. destruct k as [|j]; [lia|]. cbn [Schedule.stat].
    apply memoryless_iff in Hk. now rewrite Hk.
  Qed.

  Lemma stat_convex k : (nb + 2 <= Z.of_nat (S k))%Z ->
    stat (S k) = ((1 - eps (Z.of_nat (S k)) nb p) * stat k + eps (Z.of_nat (S k)) nb p * s (S k))%R.
  Proof.
    intros Hk. cbn [Schedule.stat]. apply memoryless_false_iff in Hk. rewrite Hk.
    unfold convex. ring.
  Qed.

  (** the memory-less step of iteration nb+1 is the convex formula with step 1 *)
  Lemma stat_first_is_formula k : Z.of_nat (S k) = (nb + 1)%Z ->
    stat (S k) = convex (stat k) (s (S k)) (eps (Z.of_nat (S k)) nb p).
  Proof.
    intros Hk. rewrite stat_memoryless by lia. rewrite Hk, eps_first. unfold convex. ring.
  Qed.

  (** *** unrolled form *)
  Variable m : nat.
  Hypothesis Hm : Z.of_nat m = (nb + 1)%Z.
  Hypothesis Hm1 : (1 <= m)%nat.
  Hypothesis Hp : (0 < p)%R.
  Notation weights := (weights nb p m).

  Lemma dot_app ws1 ws2 xs1 xs2 : length ws1 = length xs1 ->
    dot (ws1 ++ ws2) (xs1 ++ xs2) = (dot ws1 xs1 + dot ws2 xs2)%R.
  Proof.
    revert xs1. induction ws1 as [|w ws IH]; intros [|x xs] Hl; simpl in *; try discriminate; [ring|].
    rewrite IH by lia. ring.
  Qed.

  Lemma dot_map_scale c ws xs : dot (map (fun w => (w * c)%R) ws) xs = (c * dot ws xs)%R.
  Proof.
    revert xs. induction ws as [|w ws IH]; intros [|x xs]; simpl; try ring.
    rewrite IH. ring.
  Qed.

  Lemma weights_length d : length (weights d) = S d.
  Proof. induction d as [|d IH]; simpl; [reflexivity|]. rewrite app_length, map_length, IH. simpl. lia. Qed.

  Lemma sumR_app l1 l2 : sumR (l1 ++ l2) = (sumR l1 + sumR l2)%R.
  Proof. induction l1 as [|x l IH]; simpl; [ring|]. rewrite IH. ring. Qed.

  Lemma sumR_map_scale c l : sumR (map (fun w => (w * c)%R) l) = (c * sumR l)%R.
  Proof. induction l as [|x l IH]; simpl; [ring|]. rewrite IH. ring. Qed.

  Lemma stat_unrolled d :
    stat (m + d) = dot (weights d) (map s (seq m (S d))).
  Proof.
    induction d as [|d IH].
    - rewrite Nat.add_0_r. rewrite stat_memoryless by lia. simpl. ring.
    - replace (m + S d)%nat with (S (m + d)) by lia.
      rewrite stat_convex by lia. rewrite IH.
      change (weights (S d)) with
        (map (fun w => (w * (1 - eps (Z.of_nat (m + S d)) nb p))%R) (weights d) ++ [eps (Z.of_nat (m + S d)) nb p]).
      rewrite (seq_S (S d) m), map_app. simpl (map s [_]).
      rewrite dot_app by (rewrite map_length, weights_length, map_length, seq_length; reflexivity).
      rewrite dot_map_scale. simpl (dot [_] [_]).
      replace (m + S d)%nat with (S (m + d)) by lia. ring.
  Qed.

  Lemma weights_sum d : sumR (weights d) = 1%R.
  Proof.
    induction d as [|d IH]; simpl; [ring|].
    rewrite sumR_app, sumR_map_scale, IH. simpl. ring.
  Qed.

  Lemma weights_nonneg d : Forall (fun w => (0 <= w)%R) (weights d).
  Proof.
    induction d as [|d IH]; simpl.
    - constructor; [lra | constructor].
    - apply Forall_app. split.
      + apply Forall_map. eapply Forall_impl; [|exact IH]. intros w Hw. cbn beta.
        assert (He : (eps (Z.of_nat (m + S d)) nb p < 1)%R) by (apply eps_lt_1; [exact Hp | lia]).
        nra.
      + constructor; [|constructor]. left. apply eps_pos.
  Qed.
End Run.

(** *** consequences for whole runs (added with the eighth round of seeded changes) *)
Section RunConsequences.
  Variable nb : Z.
  Variable p : R.
  Hypothesis Hnb : (0 <= nb)%Z.

  (** the statistics in force never leave the interval spanned by the per-iteration statistics *)
  Lemma stat_in_hull (s : nat -> R) (a b : R) : (0 < p)%R ->
    (forall j, (1 <= j)%nat -> (a <= s j <= b)%R) ->
    forall k, (1 <= k)%nat -> (a <= stat nb p s k <= b)%R.
  Proof.
    intros Hp Hs k. induction k as [|k IH]; intros Hk; [lia|].
    destruct (Z_le_gt_dec (Z.of_nat (S k)) (nb + 1)) as [Hm|Hm].
    - rewrite stat_memoryless by lia. apply Hs; lia.
    - rewrite stat_convex by lia.
      assert (He0 := eps_pos (Z.of_nat (S k)) nb p).
      assert (He1 : (eps (Z.of_nat (S k)) nb p < 1)%R) by (apply eps_lt_1; [exact Hp | lia]).
      assert (Hk1 : (1 <= k)%nat) by lia.
      destruct (Hs (S k)) as [Ha Hb]; [lia|]. destruct (IH Hk1) as [Ia Ib].
      set (e := eps (Z.of_nat (S k)) nb p) in *. split; nra.
  Qed.

  (** constant per-iteration statistics are reproduced exactly, whatever the power *)
  Lemma stat_constant (s : nat -> R) (c : R) :
    (forall j, (1 <= j)%nat -> s j = c) -> forall k, (1 <= k)%nat -> stat nb p s k = c.
  Proof.
    intros Hs k. induction k as [|k IH]; intros Hk; [lia|].
    destruct (Z_le_gt_dec (Z.of_nat (S k)) (nb + 1)) as [Hm|Hm].
    - rewrite stat_memoryless by lia. apply Hs; lia.
    - rewrite stat_convex by lia. rewrite IH by lia. rewrite Hs by lia. ring.
  Qed.

  (** the memory-less phase leaves no trace: two runs whose per-iteration statistics agree from
      iteration nb+1 on have the same statistics in force from iteration nb+1 on, whatever
      happened during the memory-less phase *)
  Lemma stat_forgets_burn_in (s s' : nat -> R) :
    (forall j, (nb + 1 <= Z.of_nat j)%Z -> s j = s' j) ->
    forall k, (nb + 1 <= Z.of_nat k)%Z -> stat nb p s k = stat nb p s' k.
  Proof.
    intros Hs k. induction k as [|k IH]; intros Hk; [lia|].
    destruct (Z_le_gt_dec (Z.of_nat (S k)) (nb + 1)) as [Hm|Hm].
    - rewrite !stat_memoryless by lia. apply Hs; lia.
    - rewrite !stat_convex by lia. rewrite IH by lia. rewrite Hs by lia. reflexivity.
  Qed.

  (** and during the memory-less phase itself nothing earlier matters at all *)
  Lemma stat_memoryless_local (s s' : nat -> R) k :
    (1 <= k)%nat -> (Z.of_nat k <= nb + 1)%Z -> s k = s' k -> stat nb p s k = stat nb p s' k.
  Proof. intros H1 Hk E. now rewrite !stat_memoryless. Qed.
End RunConsequences.

Lemma no_trace_example :
  let s  := fun j : nat => match j with 1%nat => 7%R | 2%nat => 9%R | 3%nat => 3%R | _ => 4%R end in
  let s' := fun j : nat => match j with 1%nat => 0%R | 2%nat => 0%R | 3%nat => 3%R | _ => 4%R end in
  (forall j, (2 + 1 <= Z.of_nat j)%Z -> s j = s' j) /\ s 1%nat <> s' 1%nat /\ stat 2 1 s 1 <> stat 2 1 s' 1
  /\ forall k, (2 + 1 <= Z.of_nat k)%Z -> stat 2 1 s k = stat 2 1 s' k.
Proof.
  intros s s'.
  assert (H : forall j, (2 + 1 <= Z.of_nat j)%Z -> s j = s' j).
  { intros j Hj. destruct j as [|[|[|j]]]; try lia; reflexivity. }
  split; [exact H|]. split; [unfold s, s'; lra|]. split.
  - rewrite !stat_memoryless by lia. unfold s, s'; lra.
  - apply stat_forgets_burn_in; [lia | exact H].
Qed.
