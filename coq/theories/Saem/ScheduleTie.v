(** C05 — the rules regenerated from the source (gen/GenC05.v) are the model's rules. *)
From Coq Require Import ZArith Reals QArith Qreals Qround Bool Lra.
From Leaspy Require Import Base.QAux Saem.Schedule.
From LeaspyGen Require Import GenC05.

Lemma tie_is_burn_in k nb : gen_is_burn_in k nb = is_burn_in k nb.
Proof. reflexivity. Qed.

Lemma tie_memoryless k nb : gen_memoryless k nb = memoryless k nb.
Proof. reflexivity. Qed.

Lemma tie_burn_flag k nb : gen_burn_flag k nb = burn_flag k nb.
Proof. reflexivity. Qed.

Lemma tie_step k nb p : gen_step k nb p = eps k nb (Q2R p).
Proof. unfold gen_step, eps. now rewrite minus_IZR. Qed.

Lemma tie_convex S s e : gen_convex_R S s e = convex S s e.
Proof. unfold gen_convex_R, convex. ring. Qed.

Lemma tie_convexQ S s e : (gen_convex_Q S s e == convexQ S s e)%Q.
Proof. unfold gen_convex_Q, convexQ. ring. Qed.

Lemma tie_power_guard p : gen_power_refused p = negb (power_ok p).
Proof. unfold gen_power_refused, power_ok. now destruct (_ && _). Qed.

Lemma tie_n_burn frac n c :
  gen_n_burn_from_frac frac n = n_burn None frac n /\ gen_n_burn_explicit c = n_burn (Some c) frac n.
Proof. split; reflexivity. Qed.
