(** C04 — executable comparison of the model's rules (MStep.v, instantiated with the constants and flags
    regenerated from the code in gen/GenC04.v) with values observed on the implementation (T2, vm_compute).
    Definitions only.  A case carries the exact rationals of the floats the implementation held. *)
From Coq Require Import ZArith QArith Qabs Bool List.
From Leaspy Require Import Base.QAux Saem.MStep.
From LeaspyGen Require Import GenC04.
Import ListNotations.
Local Open Scope Q_scope.

(** |impl - model| <= 2e-4 |model| + slack  (slack = 1e-6 + conditioning term computed by the harness) *)
Definition close (model impl slack : Q) : bool :=
  Qle_bool (Qabs (impl - model)) ((2 # 10000) * Qabs model + slack).

Fixpoint forallb2 {A B} (f : A -> B -> bool) (a : list A) (b : list B) : bool :=
  match a, b with
  | [], [] => true
  | x :: a', y :: b' => f x y && forallb2 f a' b'
  | _, _ => false
  end.

(** outcome codes of the implementation: 0 = value, 1 = LeaspyConvergenceError, 2 = non-finite value *)
Definition agree (tol : Q) (raw : Q) (r : res Q) (out : Z) (impl_var slack : Q) : bool :=
  match r, out with
  | Ok v, 0%Z => close v impl_var slack
  | Collapse, 1%Z => true
  | Undefined, 2%Z => true
  (* float rounding may put a variance that is within tolerance of the threshold on the other side of it *)
  | Collapse, 0%Z => close raw impl_var slack && close raw tol slack
  | Ok v, 1%Z => close v tol slack
  | _, _ => false
  end.

Definition chk_pop (c : list Q * list Q) : bool :=
  let '(stat, post) := c in forallb2 Qeq_bool (pop_rule stat) post.

Definition chk_ind_mean (c : list Q * Q * Q) : bool :=
  let '(S1, post, sl) := c in
  match ind_mean_rule S1 with Ok v => close v post sl | _ => false end.

Definition chk_ind_std (c : bool * Q * list Q * list Q * Z * Q * Q) : bool :=
  let '(burn, old, S1, S2, out, post, sl) := c in
  if gen_uses_burn_rule burn true
  then agree 0 0 (ind_std_burn_rule gen_burn_in_correction S1) out (post * post) sl
  else agree gen_ind_std_tol (ind_var_saem old S1 S2) (ind_std_rule gen_ind_std_tol old S1 S2) out (post * post) sl.

(** the mixture std rule of one cluster.  Which rule the running code applies after burn-in (guarded like the plain rule,
    or the bare square root) is read from the regenerated flag, so the comparison follows the code; the flag itself is
    pinned by MStepTie.tie_mix_std_unguarded. *)
Definition agree_unguarded (raw : Q) (r : res Q) (out : Z) (impl_var slack : Q) : bool :=
  match r, out with
  | Ok v, 0%Z => close v impl_var slack
  | Undefined, 2%Z => true
  (* float rounding may put a variance that is within the slack of 0 on the other side of it *)
  | Undefined, 0%Z => close raw impl_var slack
  | Ok v, 2%Z => Qle_bool v slack
  | _, _ => false
  end.

Definition chk_mix_std (c : bool * Q * list Q * list Q * Z * Q * Q) : bool :=
  let '(burn, old, S1, S2, out, post, sl) := c in
  if gen_uses_burn_rule burn true
  then agree 0 0 (ind_std_burn_rule gen_burn_in_correction S1) out (post * post) sl
  else if gen_mix_std_guarded
       then agree gen_ind_std_tol (ind_var_saem old S1 S2) (ind_std_rule gen_ind_std_tol old S1 S2) out (post * post) sl
       else agree_unguarded (ind_var_saem old S1 S2) (mix_var_rule old S1 S2) out (post * post) sl.

Definition mk_cell (t : option Q * Q * Q) : cell :=
  let '(y, ym, mm) := t in {| cy := y; c_ym := ym; c_mm := mm |}.

Definition chk_noise_scalar (c : list (option Q * Q * Q) * Z * Q * Q) : bool :=
  let '(cells, out, post, sl) := c in
  let cs := map mk_cell cells in
  agree gen_noise_tol (noise_scalar_var cs) (noise_scalar_rule gen_noise_tol cs) out (post * post) sl.

Definition chk_noise_diag (c : nat * list (list (option Q * Q * Q)) * Z * list Q * Q) : bool :=
  let '(nft, rows, out, post, sl) := c in
  let rs := map (map mk_cell) rows in
  match noise_diag_rule gen_noise_tol nft rs, out with
  | Ok vs, 0%Z => forallb2 (fun v p => close v (p * p) sl) vs post
  | Collapse, 1%Z => true
  | Undefined, 2%Z => true
  | _, _ => false
  end.

Definition chk_probs (c : nat * list (list Q) * list Q * Q) : bool :=
  let '(nc, Rm, post, sl) := c in
  forallb2 (fun m p => Qle_bool (Qabs (p - m)) sl) (probs_update nc Rm) post.

Definition chk_mix_mean (c : list Q * list Q * Z * Q * Q) : bool :=
  let '(w, x, out, post, sl) := c in
  match wmean w x, out with
  | Ok v, 0%Z => close v post sl
  | Undefined, 2%Z => true
  | _, _ => false
  end.
