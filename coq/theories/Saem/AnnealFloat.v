(** C19 — bit-exact binary64 twin of the annealing scheme (Anneal.v), over Coq's primitive floats.
    Used only by the correspondence (evaluated with vm_compute and compared bit-for-bit with
    [float.hex()] of the implementation); no theorem rests on it.
    Same structure as [init_anneal] / [update_temperature]; the integer parts (period, modulo,
    comparisons of the iteration number) are over Z exactly as in Python. *)
From Coq Require Import ZArith Bool List PrimFloat Uint63 FloatOps SpecFloat.
From Leaspy Require Import Saem.Anneal.
Import ListNotations.

(** int -> float conversion of Python (exact below 2^53) *)
Definition Z2F (z : Z) : float :=
  if (0 <=? z)%Z then of_uint63 (Uint63.of_Z z) else (- of_uint63 (Uint63.of_Z (- z)))%float.

(** Python's [int(x)] for a finite float: truncation toward zero *)
Definition F2Z_trunc (x : float) : option Z :=
  match Prim2SF x with
  | S754_zero _ => Some 0%Z
  | S754_finite s m e =>
      let mag := if (0 <=? e)%Z then (Z.pos m * 2 ^ e)%Z else (Z.pos m / 2 ^ (- e))%Z in
      Some (if s then (- mag)%Z else mag)
  | _ => None
  end.

(** bit-for-bit equality (NaNs identified) *)
Definition fbits_eq (a b : float) : bool :=
  match Prim2SF a, Prim2SF b with
  | S754_zero s, S754_zero s' => Bool.eqb s s'
  | S754_infinity s, S754_infinity s' => Bool.eqb s s'
  | S754_nan, S754_nan => true
  | S754_finite s m e, S754_finite s' m' e' => Bool.eqb s s' && Pos.eqb m m' && Z.eqb e e'
  | _, _ => false
  end.

(** constructor: annealing.n_iter from the fraction, [int(frac * n_iter)] in binary64 *)
Definition f_resolve_n_ann (explicit : option Z) (frac : option float) (n_iter : Z) : result Z :=
  match explicit, frac with
  | Some c, _ => Ok c
  | None, Some f => match F2Z_trunc (f * Z2F n_iter) with Some z => Ok z | None => Err Crash end
  | None, None => Err InputError
  end.

Record fcfg : Type := { f_on : bool; f_n_ann : Z; f_T0 : float; f_n_plateau : Z }.

Record fstate : Type := { f_temp : float; f_temp_inv : float; f_period : option Z; f_decr : option float }.

Definition f_ctor_state : fstate := {| f_temp := 1; f_temp_inv := 1; f_period := None; f_decr := None |}.

Definition f_init (c : fcfg) : result fstate :=
  if negb (f_on c) then Ok f_ctor_state
  else if (f_T0 c =? 0)%float then Err Crash
  else if negb (0 <? f_n_plateau c)%Z then Err InputError
  else if (f_n_plateau c =? 1)%Z then
    Ok {| f_temp := f_T0 c; f_temp_inv := 1 / f_T0 c; f_period := None; f_decr := None |}
  else
    let p := (f_n_ann c / (f_n_plateau c - 1))%Z in
    if (p <? 1)%Z then Err InputError else
    let d := ((f_T0 c - 1) / Z2F (f_n_plateau c - 1))%float in
    if (d <=? 0)%float then Err InputError
    else Ok {| f_temp := f_T0 c; f_temp_inv := 1 / f_T0 c; f_period := Some p; f_decr := Some d |}.

Definition f_update (c : fcfg) (k : Z) (st : fstate) : result fstate :=
  if negb (f_on c) then Ok st else
  match f_period st with
  | None => Ok st
  | Some p =>
      if (k <=? f_n_ann c)%Z then
        if (p =? 0)%Z then Err Crash
        else if (k mod p =? 0)%Z then
          match f_decr st with
          | None => Err Crash
          | Some d =>
              let t0 := (f_temp st - d)%float in
              let t := if (t0 <? 1)%float then 1%float else t0 in      (* max(t0, 1): 1 only when 1 > t0 *)
              Ok {| f_temp := t; f_temp_inv := 1 / t; f_period := Some p; f_decr := Some d |}
          end
        else Ok st
      else Ok st
  end.

Fixpoint f_run_from (c : fcfg) (st : fstate) (k : Z) (n : nat) : result (list fstate) :=
  match n with
  | O => Ok []
  | S n' =>
      bind (f_update c k st) (fun st' =>
      bind (f_run_from c st' (k + 1) n') (fun l => Ok (st' :: l)))
  end.

Definition f_run_states (c : fcfg) (n : nat) : result (list fstate) :=
  bind (f_init c) (fun st => bind (f_run_from c st 1 n) (fun l => Ok (st :: l))).

(** ** Outcome of a run, in the form the harness records it on the implementation:
    the (temperature, inverse) pairs reached before the first exception, and the exception class *)
Inductive outcome (A : Type) : Type := Outcome (reached : list A) (failure : option err).
Arguments Outcome {A} reached failure.

Fixpoint f_trace_from (c : fcfg) (st : fstate) (k : Z) (n : nat) : outcome fstate :=
  match n with
  | O => Outcome [] None
  | S n' =>
      match f_update c k st with
      | Err e => Outcome [] (Some e)
      | Ok st' => match f_trace_from c st' (k + 1) n' with Outcome l f => Outcome (st' :: l) f end
      end
  end.

Definition f_trace (c : fcfg) (n : nat) : outcome fstate :=
  match f_init c with
  | Err e => Outcome [] (Some e)
  | Ok st => match f_trace_from c st 1 n with Outcome l f => Outcome (st :: l) f end
  end.

(** same for the exact model *)
Fixpoint trace_from (c : cfg) (st : astate) (k : Z) (n : nat) : outcome astate :=
  match n with
  | O => Outcome [] None
  | S n' =>
      match update_temperature c k st with
      | Err e => Outcome [] (Some e)
      | Ok st' => match trace_from c st' (k + 1) n' with Outcome l f => Outcome (st' :: l) f end
      end
  end.

Definition trace (c : cfg) (n : nat) : outcome astate :=
  match init_anneal c with
  | Err e => Outcome [] (Some e)
  | Ok st => match trace_from c st 1 n with Outcome l f => Outcome (st :: l) f end
  end.

(** ** Checkers evaluated by the correspondence (vm_compute) *)
From Coq Require Import QArith Qabs.

(** exact rational value of a finite float *)
Definition F2Q (x : float) : option Q :=
  match Prim2SF x with
  | S754_zero _ => Some 0%Q
  | S754_finite s m e =>
      let q := if (0 <=? e)%Z then inject_Z (Z.pos m * 2 ^ e) else (Z.pos m # Z.to_pos (2 ^ (- e)))%Q in
      Some (if s then Qopp q else q)
  | _ => None
  end.

Fixpoint forall2b {A B} (f : A -> B -> bool) (l : list A) (m : list B) : bool :=
  match l, m with
  | [], [] => true
  | a :: l', b :: m' => f a b && forall2b f l' m'
  | _, _ => false
  end.

Definition err_eqb (a b : option err) : bool :=
  match a, b with
  | None, None => true
  | Some InputError, Some InputError => true
  | Some Crash, Some Crash => true
  | _, _ => false
  end.

(** run-length decoding of an observed trace *)
Fixpoint unrle {A} (l : list (A * nat)) : list A :=
  match l with [] => [] | (a, n) :: r => repeat a n ++ unrle r end.

Definition close_to (tol : Q) (q : Q) (x : float) : bool :=
  match F2Q x with Some v => Qle_bool (Qabs (q - v)) tol | None => false end.

(** observed: (temperature, inverse) after initialisation and after each iteration reached, run-length
    encoded, and the class of the exception that stopped the run (if any) *)
Definition obs_t : Type := (list ((float * float) * nat) * option err)%type.

(** the binary64 twin reproduces the observation bit for bit *)
Definition check_bits (c : fcfg) (n : nat) (o : obs_t) : bool :=
  match f_trace c n with
  | Outcome l f =>
      err_eqb f (snd o) &&
      forall2b (fun s x => fbits_eq (f_temp s) (fst x) && fbits_eq (f_temp_inv s) (snd x)) l (unrle (fst o))
  end.

(** the exact model agrees with the observation: same failure at the same iteration, values within [tol] *)
Definition check_exact (tol : Q) (c : cfg) (n : nat) (o : obs_t) : bool :=
  match trace c n with
  | Outcome l f =>
      err_eqb f (snd o) &&
      forall2b (fun s x => close_to tol (temp s) (fst x) && close_to tol (temp_inv s) (snd x)) l (unrle (fst o))
  end.

Definition mk_cfg (on : bool) (na : Z) (t0 : float) (np : Z) : option cfg :=
  match F2Q t0 with Some q => Some {| a_on := on; n_ann := na; T0 := q; n_plateau := np |} | None => None end.

Definition check_case (x : (bool * Z * float * Z) * nat * obs_t) : bool :=
  match x with
  | ((on, na, t0, np), n, o) =>
      check_bits {| f_on := on; f_n_ann := na; f_T0 := t0; f_n_plateau := np |} n o &&
      match mk_cfg on na t0 np with Some c => check_exact (1 # 1000000000000) c n o | None => false end
  end.

Definition check_case_bits (x : (bool * Z * float * Z) * nat * obs_t) : bool :=
  match x with ((on, na, t0, np), n, o) => check_bits {| f_on := on; f_n_ann := na; f_T0 := t0; f_n_plateau := np |} n o end.

(** constructor: int(frac * n_iter) in binary64, and over Q up to the rounding of the product *)
Definition check_n_ann (x : float * Z * Z) : bool :=
  match x with
  | (fr, n_iter, observed) =>
      match f_resolve_n_ann None (Some fr) n_iter, F2Q fr with
      | Ok z, Some q =>
          (z =? observed)%Z &&
          match resolve_n_ann None (Some q) n_iter with
          | Ok zq => (zq =? observed)%Z ||
                     ((zq + 1 =? observed)%Z && Qle_bool (inject_Z observed - q * inject_Z n_iter) (1 # 1000000000))
          | Err _ => false
          end
      | _, _ => false
      end
  end.
