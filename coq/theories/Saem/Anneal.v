(** C19 — model of the plateau annealing scheme of MCMC-SAEM, default (non-oscillating) scheme
    (leaspy/algo/algo_with_annealing.py: [__init__] l.36-73, [_initialize_annealing] l.82-120,
    [_update_temperature] l.122-147; called from algo/fit/mcmc_saem.py::_initialize_algo l.132 and
    ::_iteration l.160, i.e. once before the first iteration and once after every iteration).
    Exact arithmetic over [Q]; the bit-exact binary64 twin is in AnnealFloat.v.
    Definitions only; proofs are in AnnealProofs.v, the tie to the regenerated rules
    (gen/GenC19.v) in AnnealTie.v.

    Nothing is totalised: Python's [/], [//] and [%] raise ZeroDivisionError on a zero divisor and
    the model returns [Err Crash] at exactly those places. *)
From Coq Require Import ZArith QArith Qround Bool List.
From Leaspy Require Import Base.QAux.
Import ListNotations.

Inductive err : Type :=
| InputError   (** LeaspyAlgoInputError / LeaspyInputError: the configuration is refused *)
| Crash.       (** any other exception (ZeroDivisionError, TypeError, RuntimeError) *)

Inductive result (A : Type) : Type :=
| Ok (a : A)
| Err (e : err).
Arguments Ok {A} a.
Arguments Err {A} e.

Definition bind {A B} (r : result A) (f : A -> result B) : result B :=
  match r with Ok a => f a | Err e => Err e end.

Definition is_ok {A} (r : result A) : bool := match r with Ok _ => true | Err _ => false end.

(** ** Constructor (l.36-73): number of iterations with annealing.
    [explicit] = annealing.n_iter, [frac] = annealing.n_iter_frac, [n_iter] = number of iterations
    of the algorithm.  An explicit count has priority; otherwise [int(frac * n_iter)]. *)
Definition resolve_n_ann (explicit : option Z) (frac : option Q) (n_iter : Z) : result Z :=
  match explicit, frac with
  | Some c, _ => Ok c
  | None, Some f => Ok (Qtrunc (f * inject_Z n_iter))
  | None, None => Err InputError
  end.

(** ** Configuration after the constructor *)
Record cfg : Type := {
  a_on : bool;          (** annealing.do_annealing *)
  n_ann : Z;            (** annealing.n_iter (resolved) *)
  T0 : Q;               (** annealing.initial_temperature *)
  n_plateau : Z         (** annealing.n_plateau (an [int]; anything else is refused by [isinstance]) *)
}.

(** attributes of the mixin that the scheme reads and writes *)
Record astate : Type := {
  temp : Q;                 (** self.temperature *)
  temp_inv : Q;             (** self.temperature_inv *)
  period : option Z;        (** self._annealing_period (None until initialised) *)
  decr : option Q           (** self._annealing_temperature_decrement *)
}.

(** state set by the constructor (l.38-45) *)
Definition ctor_state : astate := {| temp := 1; temp_inv := 1; period := None; decr := None |}.

(** ** [_initialize_annealing] (l.82-120).  A plateau length [n_ann / (n_plateau - 1)] below 1 (fewer
    annealing iterations than temperature steps, no annealing iteration included) is refused (l.110-114). *)
Definition init_anneal (c : cfg) : result astate :=
  if negb (a_on c) then Ok ctor_state                                   (* l.86 *)
  else if Qeq_bool (T0 c) 0 then Err Crash                              (* l.90: 1 / self.temperature *)
  else if negb (0 <? n_plateau c)%Z then Err InputError                 (* l.92-98 *)
  else if (n_plateau c =? 1)%Z then                                     (* l.100-105: warning, return *)
    Ok {| temp := T0 c; temp_inv := 1 / T0 c; period := None; decr := None |}
  else
    (* here n_plateau - 1 <> 0: l.107 [//] and l.118 [/] cannot fail *)
    let p := (n_ann c / (n_plateau c - 1))%Z in
    if (p <? 1)%Z then Err InputError                                   (* l.110-114 *)
    else
    let d := (T0 c - 1) / (inject_Z (n_plateau c) - 1) in
    if Qle_bool d 0 then Err InputError                                 (* l.119 *)
    else Ok {| temp := T0 c; temp_inv := 1 / T0 c; period := Some p; decr := Some d |}.

(** ** [_update_temperature] (l.122-147), called with [k = current_iteration], oscillations off *)
Definition update_temperature (c : cfg) (k : Z) (st : astate) : result astate :=
  if negb (a_on c) then Ok st else                                      (* l.131 *)
  match period st with
  | None => Ok st                                                       (* l.131 *)
  | Some p =>
      if (k <=? n_ann c)%Z then                                         (* l.129 *)
        if (p =? 0)%Z then Err Crash                                    (* l.131: k % 0 — unreachable after an accepted initialisation, see [init_period_pos] *)
        else if (k mod p =? 0)%Z then                                   (* l.131 *)
          match decr st with
          | None => Err Crash                                           (* float - None *)
          | Some d =>
              let t := Qmax (temp st - d) 1 in                          (* l.144-145 *)
              (* l.147: 1.0 / t with t >= 1, cannot fail *)
              Ok {| temp := t; temp_inv := 1 / t; period := Some p; decr := Some d |}
          end
        else Ok st
      else Ok st
  end.

(** ** A run: initialisation, then one update after each of the iterations 1..n *)
Fixpoint run_from (c : cfg) (st : astate) (k : Z) (n : nat) : result (list astate) :=
  match n with
  | O => Ok []
  | S n' =>
      bind (update_temperature c k st) (fun st' =>
      bind (run_from c st' (k + 1) n') (fun l => Ok (st' :: l)))
  end.

(** states before iteration 1 and after each of the iterations 1..n (length n+1) *)
Definition run_states (c : cfg) (n : nat) : result (list astate) :=
  bind (init_anneal c) (fun st => bind (run_from c st 1 n) (fun l => Ok (st :: l))).

(** the temperatures: element 0 is the temperature used by iteration 1, element k the one in
    force after iteration k (used by iteration k+1) *)
Definition run_anneal (c : cfg) (n : nat) : result (list Q) :=
  bind (run_states c n) (fun l => Ok (map temp l)).

(** state after [n] iterations (the specification the list-valued run is proved equal to) *)
Fixpoint state_at (c : cfg) (n : nat) : result astate :=
  match n with
  | O => init_anneal c
  | S m => bind (state_at c m) (update_temperature c (Z.of_nat (S m)))
  end.

(** ** Shipped defaults (algo/data/default_mcmc_saem.json, "annealing") with annealing switched on *)
Definition default_T0 : Q := 10.
Definition default_n_plateau : Z := 10.
Definition default_frac : Q := 1 # 2.

Definition default_cfg (n_iter : Z) : result cfg :=
  bind (resolve_n_ann None (Some default_frac) n_iter) (fun na =>
  Ok {| a_on := true; n_ann := na; T0 := default_T0; n_plateau := default_n_plateau |}).

(** configurations the theorems of the property are about: a true annealing scheme whose
    plateaus have at least one iteration *)
Definition proper (c : cfg) : Prop :=
  a_on c = true /\ (2 <= n_plateau c)%Z /\ 1 < T0 c /\ (1 <= n_ann c / (n_plateau c - 1))%Z.

(** a single plateau: accepted with a warning, the update never does anything *)
Definition frozen (c : cfg) : Prop := a_on c = true /\ (n_plateau c = 1)%Z.

(** fewer annealing iterations than temperature steps (plateau length 0 or negative; no annealing
    iteration included): refused by [_initialize_annealing] *)
Definition short (c : cfg) : Prop :=
  a_on c = true /\ (2 <= n_plateau c)%Z /\ (n_ann c < n_plateau c - 1)%Z.

(** number of plateau boundaries crossed after [k] iterations *)
Definition crossed (c : cfg) (k : Z) : Z := (Z.min k (n_ann c) / (n_ann c / (n_plateau c - 1)))%Z.
