#!/venv/bin/python
"""Copy validated seeded changes from /tmp/seed/out/<id>/ into seeded/<id>/ (patch.diff, demo.py, meta.json, validation.json, detection.json)."""
import json, os, shutil, sys
SRC = sys.argv[1] if len(sys.argv) > 1 else "/tmp/seed/out"
OFFSET = int(sys.argv[2]) if len(sys.argv) > 2 else 0   # round 2 seeds Cxx-1, Cxx-2 are kept as Cxx-3, Cxx-4
ROOT = os.path.dirname(os.path.dirname(os.path.abspath(__file__)))
kept = 0
for d in sorted(os.listdir(SRC)):
    s = os.path.join(SRC, d)
    vp = os.path.join(s, "validation.json")
    if not os.path.exists(vp):
        continue
    v = json.load(open(vp))
    if not v.get("ok"):
        print("skip (not validated):", d)
        continue
    prop, n = d.rsplit("-", 1)
    t = os.path.join(ROOT, "seeded", f"{prop}-{int(n) + OFFSET}")
    os.makedirs(t, exist_ok=True)
    for f in ("patch.diff", "demo.py", "meta.json", "validation.json", "detection.json", "patch.orig-tree.diff"):
        if os.path.exists(os.path.join(s, f)):
            shutil.copy(os.path.join(s, f), os.path.join(t, f))
    meta = json.load(open(os.path.join(t, "meta.json")))
    meta["breaks_property"] = meta.get("property")
    meta["what_i_ran"] = ("tools/seedtool.py validate <dir> --suite  (patch applied to a scratch worktree of /repo HEAD; demo.py exit 0 on the unchanged "
                          "source and 1 on the changed source; the whole pinned suite on the changed source: see validation.json) and "
                          "tools/seedtool.py try <dir> <checks>  (the registered quick checks with VERIF_REPO=<scratch worktree>: see detection.json)")
    json.dump(meta, open(os.path.join(t, "meta.json"), "w"), indent=1)
    kept += 1
print("kept", kept)
