#!/venv/bin/python
"""Validate and try seeded changes (never touches /repo's working tree: everything happens in scratch worktrees).

  seedtool.py validate <dir> [--suite]   dir holds patch.diff, demo.py, meta.json (a seeding agent's output or seeded/<id>)
        -> applies the patch in a scratch worktree, runs demo.py on the unchanged source (expect exit 0) and on the
           changed source (expect exit 1), optionally the full pinned test-suite on the changed source (compared with
           BASELINE.json's stable_pass list); prints a JSON verdict and stores it as <dir>/validation.json
  seedtool.py try <dir> [Cxx ...]       run the checks of the given properties (default: meta.json's property) against the
           changed source (VERIF_REPO=<scratch worktree>) and report whether each raised a VIOLATION; stored as <dir>/detection.json
"""
import json
import os
import re
import shutil
import subprocess
import sys
import time
import xml.etree.ElementTree as ET

VERIF = os.path.dirname(os.path.dirname(os.path.abspath(__file__)))
SCRATCH = "/tmp/scratch/seedtool"


def sh(cmd, **kw):
    return subprocess.run(cmd, shell=isinstance(cmd, str), capture_output=True, text=True, **kw)


def worktree(name, patch):
    wt = os.path.join(SCRATCH, name)
    os.makedirs(SCRATCH, exist_ok=True)
    if os.path.exists(wt):
        sh(["git", "-C", "/repo", "worktree", "remove", "--force", wt])
        shutil.rmtree(wt, ignore_errors=True)
    r = sh(["git", "-C", "/repo", "worktree", "add", "--detach", wt])
    if r.returncode:
        raise SystemExit("worktree add failed: " + r.stderr)
    r = sh(["git", "-C", wt, "apply", os.path.abspath(patch)])
    if r.returncode:
        # the tree moved since the patch was written (fix: commits): fall back to a 3-way application
        r = sh(["git", "-C", wt, "apply", "--3way", os.path.abspath(patch)])
        if r.returncode:
            raise SystemExit("patch does not apply: " + r.stderr)
        sh(["git", "-C", wt, "reset", "-q"])
    return wt


def drop(wt):
    sh(["git", "-C", "/repo", "worktree", "remove", "--force", wt])
    shutil.rmtree(wt, ignore_errors=True)


def env(src):
    e = dict(os.environ, PYTHONPATH=src, LEASPY_SRC=src, PYTHONHASHSEED="0", OMP_NUM_THREADS="2", MKL_NUM_THREADS="2", MPLBACKEND="Agg")
    e.pop("VERIF_REPO", None)
    return e


def validate(d, suite):
    name = os.path.basename(os.path.abspath(d))
    wt = worktree(name, os.path.join(d, "patch.diff"))
    out = {"id": name}
    try:
        equiv = os.path.abspath(os.path.join(d, "equiv.py"))
        if os.path.exists(equiv) and not os.path.exists(os.path.join(d, "demo.py")):
            # a behaviour-preserving change: equiv.py must print the same digest on both sources
            r0 = sh(["timeout", "600", "/venv/bin/python", equiv], env=env("/repo/src"), cwd="/tmp")
            r1 = sh(["timeout", "600", "/venv/bin/python", equiv], env=env(wt + "/src"), cwd="/tmp")
            out.update(benign=True, equiv_unchanged_exit=r0.returncode, equiv_changed_exit=r1.returncode,
                       equiv_same_output=(r0.stdout == r1.stdout), equiv_tail=r0.stdout[-300:], equiv_changed_tail=(r1.stdout + r1.stderr)[-300:])
            out["demo_unchanged_exit"], out["demo_mutated_exit"] = 0, 1   # not applicable (keeps the verdict expression below)
            if not (r0.returncode == 0 and r1.returncode == 0 and r0.stdout == r1.stdout):
                out["demo_mutated_exit"] = -1
        demo = os.path.abspath(os.path.join(d, "demo.py"))
        if not out.get("benign"):
            r0 = sh(["timeout", "600", "/venv/bin/python", demo], env=env("/repo/src"), cwd="/tmp")
            r1 = sh(["timeout", "600", "/venv/bin/python", demo], env=env(wt + "/src"), cwd="/tmp")
            out.update(demo_unchanged_exit=r0.returncode, demo_mutated_exit=r1.returncode,
                       demo_unchanged_tail=(r0.stdout + r0.stderr)[-600:], demo_mutated_tail=(r1.stdout + r1.stderr)[-600:])
        out["changed_lines"] = len([l for l in open(os.path.join(d, "patch.diff")) if re.match(r"^[+-][^+-]", l)])
        if suite:
            t0 = time.time()
            junit = os.path.join(SCRATCH, name + ".junit.xml")
            cmd = (f"cd {wt} && timeout 3000 /venv/bin/python -m pytest -ra -q -p no:cacheprovider --timeout=900 "
                   f"--continue-on-collection-errors --junitxml={junit}")
            r = sh(cmd, env=env(wt + "/src"))
            passed = set()
            failed = []
            try:
                for tc in ET.parse(junit).getroot().iter("testcase"):
                    tid = f"{tc.get('classname')}::{tc.get('name')}"
                    if any(c.tag in ("failure", "error") for c in tc):
                        failed.append(tid)
                    elif not any(c.tag == "skipped" for c in tc):
                        passed.add(tid)
            except Exception as e:  # noqa
                out["suite_error"] = str(e) + (r.stdout + r.stderr)[-500:]
            base = set(json.load(open("/root/.vp/BASELINE.json"))["stable_pass"])
            out.update(suite_passed=len(passed & base), suite_baseline=len(base), suite_missing=sorted(base - passed)[:20],
                       suite_failed=failed[:20], suite_wall_s=round(time.time() - t0))
            if os.path.exists(junit):
                os.remove(junit)
        out["ok"] = (out["demo_unchanged_exit"] == 0 and out["demo_mutated_exit"] == 1
                     and (not suite or (out.get("suite_passed") == out.get("suite_baseline"))))
    finally:
        drop(wt)
    json.dump(out, open(os.path.join(d, "validation.json"), "w"), indent=1)
    print(json.dumps(out, indent=1))
    return 0 if out["ok"] else 1


def try_checks(d, props):
    """Runs the checks in a private COPY of /verif (so several trials can run at once and /verif's generated
    files / evidence are never disturbed) against a scratch worktree of /repo with the patch applied."""
    name = os.path.basename(os.path.abspath(d))
    meta = json.load(open(os.path.join(d, "meta.json")))
    props = props or [meta["property"]]
    wt = worktree(name + "-try", os.path.join(d, "patch.diff"))
    vcopy = os.path.join(SCRATCH, "verif-" + name)
    shutil.rmtree(vcopy, ignore_errors=True)
    shutil.copytree(VERIF, vcopy, symlinks=True, ignore=shutil.ignore_patterns(".git", "replays", "__pycache__", "seeded", "tmp", "cases_*", "lem_*"))
    res = {}
    try:
        for p in props:
            t0 = time.time()
            r = sh(["./check", p, "--tier", "quick"], cwd=vcopy, env=dict(os.environ, VERIF_REPO=wt))
            lines = [l for l in r.stdout.splitlines() if l.startswith(("VIOLATION", "KNOWN-FINDING", "FAIL ", "BROKEN "))]
            res[p] = dict(exit=r.returncode, detected=any(l.startswith("VIOLATION") for l in lines),
                          no_failing_input=any("no-failing-input-found" in l for l in lines),
                          concrete=[l[:200] for l in lines if l.startswith("VIOLATION") and "no-failing-input-found" not in l], lines=[l[:400] for l in lines[:12]], wall_s=round(time.time() - t0))
            replay = None
            for l in lines:
                m = re.match(r"VIOLATION property=\S+ replay=(\S+)", l)
                if m and os.path.exists(m.group(1)):
                    replay = json.load(open(m.group(1)))
                    break
            if replay is not None:
                res[p]["replay_excerpt"] = json.dumps(replay, default=str)[:1500]
    finally:
        drop(wt)
        shutil.rmtree(vcopy, ignore_errors=True)
    prev = {}
    f = os.path.join(d, "detection.json")
    if os.path.exists(f):
        prev = json.load(open(f))
    prev.update(res)
    json.dump(prev, open(f, "w"), indent=1)
    print(json.dumps(res, indent=1))
    return 0


if __name__ == "__main__":
    if len(sys.argv) < 3:
        raise SystemExit(__doc__)
    if sys.argv[1] == "validate":
        sys.exit(validate(sys.argv[2], "--suite" in sys.argv))
    if sys.argv[1] == "try":
        sys.exit(try_checks(sys.argv[2], [a for a in sys.argv[3:] if not a.startswith("-")]))
    raise SystemExit(__doc__)
