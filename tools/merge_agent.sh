#!/bin/sh
# tools/merge_agent.sh cXX [Cyy ...] : merge branch agent-cXX into main, regenerate MANIFEST, rebuild, run the checks
set -e
cd "$(dirname "$0")/.."
a="$1"; shift
git merge --no-edit "agent-$a" || { echo "MERGE CONFLICT — resolve, then rerun the remaining steps by hand"; exit 2; }
/venv/bin/python tools/gen_manifest.py
./setup.sh 2>&1 | tail -3
for p in "$@"; do
  ( time ./check "$p" --tier quick ) 2>&1 | grep -E "^(VIOLATION|KNOWN-FINDING|BROKEN|FAIL|real|\[C)" | tail -12
done
python3-vt - <<'PY'
import json, jsonschema, glob
jsonschema.validate(json.load(open('MANIFEST.json')), json.load(open('/root/.vp/MANIFEST.schema.json')))
for f in glob.glob('evidence/*.json'):
    jsonschema.validate(json.load(open(f)), json.load(open('/root/.vp/EVIDENCE.schema.json')))
print('manifest + evidence valid')
PY
