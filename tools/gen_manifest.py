#!/venv/bin/python
"""Regenerate /verif/MANIFEST.json from the META blocks of harness/props/cXX.py (one per claimed property)
and tools/not_applicable.json.  Run after adding / changing a check."""
import importlib
import json
import os
import pkgutil
import sys

ROOT = os.path.dirname(os.path.dirname(os.path.abspath(__file__)))
sys.path.insert(0, ROOT)
from harness import props  # noqa: E402

BASELINE = json.load(open("/root/.vp/BASELINE.json"))["cmd"].replace("--junitxml=<file>", "").strip()


def main():
    ids = [json.loads(l)["id"] for l in open(os.path.join(ROOT, "properties.jsonl"))]
    checks, claimed = [], set()
    for m in sorted(pkgutil.iter_modules(props.__path__), key=lambda m: m.name):
        mod = importlib.import_module(f"harness.props.{m.name}")
        meta = getattr(mod, "META", None)
        if not meta or not hasattr(mod, "main"):
            continue
        pid = m.name.upper()
        claimed.add(pid)
        c = dict(
            property_id=pid,
            quick_cmd=f"./check {pid} --tier quick",
            thorough_cmd=f"./check {pid} --tier thorough",
            evidence_file=f"/verif/evidence/{pid}.json",
            replay_cmd_template=f"./check {pid} --replay {{path}}",
            engine="coq-proof+correspondence",
            level_claimed=dict(category="proof", text=meta["level_text"], design_ref=meta.get("design_ref", f"DESIGN.md section 4, {pid}")),
            level_note=meta["level_note"],
            technique=meta["technique"],
        )
        checks.append(c)
    na_path = os.path.join(ROOT, "tools", "not_applicable.json")
    na = json.load(open(na_path)) if os.path.exists(na_path) else {}
    not_applicable = []
    for pid in ids:
        if pid not in claimed:
            not_applicable.append(dict(property_id=pid, reason=na.get(pid, "no check built yet for this property (work in progress, see DESIGN.md section 8)")))
    man = dict(
        version=1,
        setup_cmd="./setup.sh",
        hooks=dict(
            guard="LEASPY_VERIF",
            enable="no source hook is needed: harnesses wrap functions of the imported package in their own process (recording, never replacing results)",
            baseline_off_cmd=BASELINE,
            source_commits=[],
            add_only=True,
        ),
        engines=[dict(name="coq-proof+correspondence", path="/verif/check",
                      serves_properties=sorted(claimed),
                      kind_free_text="Coq 8.16.1 theorems on models under coq/theories; model files regenerated from /repo by translators "
                                     "(harness/translate) and/or executed inside Coq (vm_compute, interval) against the implementation on every run")],
        checks=checks,
        notes="See DESIGN.md. Every check: translate -> prove (make + Print Assumptions) -> correspond (model run inside Coq vs implementation) -> "
              "oracle/search on the implementation -> report. VERIF_REPO overrides /repo for trying seeded changes in scratch worktrees only. "
              "No guarded hook commit exists (harnesses wrap functions in their own process). Genuine defects repaired in /repo by unguarded "
              "`fix:` commits (27ac519 3c452cf 6d6bb6f 0ec38a3 3d244df 559c452 9eb5088 b73cab6 fe0cadd c602e93): each is recorded in "
              "known_findings.jsonl with status fixed (`record`: 'fixed: property=<id> <commit> <what failed>'); recorded, unrepaired "
              "defects have status known and are printed as KNOWN-FINDING (docs/FINDINGS.md).",
        not_applicable=not_applicable,
    )
    json.dump(man, open(os.path.join(ROOT, "MANIFEST.json"), "w"), indent=1)
    print(f"MANIFEST.json: {len(checks)} checks, {len(not_applicable)} not claimed")


if __name__ == "__main__":
    main()
