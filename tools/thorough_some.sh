#!/bin/sh
# tools/thorough_some.sh Cxx ... : setup + the given checks at the thorough tier, one after the other
cd "$(dirname "$0")/.."
./setup.sh | tail -1
for p in "$@"; do s=$(date +%s); ./check $p --tier thorough > thorough_$p.log 2>&1; rc=$?; e=$(date +%s); echo "$p rc=$rc wall=$((e-s))s viol=$(grep -c '^VIOLATION' thorough_$p.log) known=$(grep -c '^KNOWN-FINDING' thorough_$p.log)"; grep -h "^VIOLATION\|^BROKEN\|^FAIL" thorough_$p.log | cut -c1-300; done
