#!/bin/sh
# tools/coqchk_all.sh : re-check every compiled Props/Cxx.vo (and everything it depends on) with the independent checker coqchk,
# and store its context summary (axioms, type-in-type, unsafe fixpoints, assumed positivity) in docs/coqchk/Cxx.txt.  4 at a time.
cd "$(dirname "$0")/../coq"
mkdir -p ../docs/coqchk
ls theories/Props/C*.vo | sed 's|theories/Props/||; s|\.vo||' | xargs -P 4 -I{} sh -c \
  'timeout 3000 coqchk -silent -o -Q theories Leaspy -Q gen LeaspyGen Leaspy.Props.{} > ../docs/coqchk/{}.txt 2>&1; echo "{} exit=$?"'
grep -L "Axioms: <none>" ../docs/coqchk/*.txt | sed 's|.*/||' | tr '\n' ' '; echo "<- files listing library axioms"
