#!/bin/sh
# tools/thorough_pass.sh : run setup + every claimed check at the thorough tier (3 lanes); summary on stdout.
cd "$(dirname "$0")/.."
./setup.sh | tail -1
lane() { for p in "$@"; do s=$(date +%s); ./check $p --tier thorough > thorough_$p.log 2>&1; rc=$?; e=$(date +%s); echo "$p rc=$rc wall=$((e-s))s viol=$(grep -c '^VIOLATION' thorough_$p.log) known=$(grep -c '^KNOWN-FINDING' thorough_$p.log)"; done; }
lane C01 C04 C07 C10 C13 C15 C18 &
lane C02 C03 C05 C08 C12 C16 C19 &
lane C06 C09 C11 C14 C17 C20 &
wait
grep -h "^VIOLATION\|^BROKEN\|^FAIL" thorough_*.log | cut -c1-300
