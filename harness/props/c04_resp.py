"""C04 (extension) — the cluster responsibilities of the mixture rules: recording on the implementation, oracle, T2 cases.

Recorded (wrap, never replace): every `softmax` call made while `update_parameters` runs (a `TorchFunctionMode` that lets the call
through and keeps a copy of its input, `dim` and output).  A mixture M-step makes one per mixture rule (probs, each prior mean,
each prior std); the input must be `clamp(-nll_regul_ind_sum_ind, -100)` of the PRE-step state, the output its softmax over clusters.
"""
from __future__ import annotations

import math
import warnings
from fractions import Fraction

from harness.common import Run, coq_Q, coq_R, coq_Z, frac

REL = 1e-9                       # float64 softmax vs the real-valued model (relative, per entry)
ROW_SLACK = Fraction(1, 10 ** 12)
SPAN = 600.0                     # largest log-density for which exp(-100 - U)/K is a normal double
MAX_INTERVAL_QUICK = 40


def softmax_recorder(calls: list):
    import torch
    from torch.overrides import TorchFunctionMode

    class Rec(TorchFunctionMode):
        def __torch_function__(self, func, types, args=(), kwargs=None):
            kwargs = kwargs or {}
            out = func(*args, **kwargs)
            name = getattr(func, "__name__", "")
            if name in ("softmax", "_softmax") and args and isinstance(args[0], torch.Tensor) and isinstance(out, torch.Tensor):
                dim = kwargs.get("dim", args[1] if len(args) > 1 else None)
                calls.append(dict(dim=dim, inp=args[0].detach().clone().double(), out=out.detach().clone().double()))
            return out
    return Rec()


def qlist(xs) -> str:
    return "[" + "; ".join(coq_Q(x) for x in xs) + "]"


def doc_resp(nll):
    """documented responsibilities, numpy float64: softmax over clusters of the negated terms clamped at -100"""
    import numpy as np
    z = np.maximum(-np.asarray(nll, dtype=np.float64), -100.0)
    z = z - z.max(axis=1, keepdims=True)
    e = np.exp(z)
    return e / e.sum(axis=1, keepdims=True)


class RespTables:
    def __init__(self):
        self.rows, self.rows_meta = [], []          # chk_resp_row
        self.one, self.one_meta = [], []            # chk_one_cluster
        self.xg, self.xg_meta = [], []              # chk_xguard
        self.iv, self.iv_meta = [], []              # interval lemmas (candidates)
        self.seen_rows = set()


def check_softmax_calls(run: Run, T: RespTables, nll, calls: list, sites: list[str], meta: dict):
    """oracle + T2 cases for the softmax calls of one (recorded or direct) step.  Returns the responsibilities the
    implementation used for each site (None when the recorded calls cannot be attributed)."""
    import numpy as np
    import torch
    nll = nll.double()
    n, K = nll.shape
    want_in = torch.clamp(-nll, -100.0)
    doc = doc_resp(nll.numpy())
    if len(calls) != len(sites):
        run.broken("record:softmax-calls", f"{len(calls)} softmax call(s) recorded in an M-step with {len(sites)} mixture rule(s) {sites}: "
                   "the responsibilities the implementation used cannot be attributed to the rules", kind="broken-correspondence")
        return None
    by_site = {}
    for j, (c, site) in enumerate(zip(calls, sites)):
        m = dict(meta, softmax_call=j, site=site)
        run.count("softmax-site", site.split(":")[0])
        inp, out = c["inp"], c["out"]
        if tuple(inp.shape) != (n, K) or tuple(out.shape) != (n, K):
            run.fail("responsibilities:softmax-of-another-tensor", f"the softmax of rule {site} is applied to a tensor of shape {tuple(inp.shape)}, "
                     f"not to the {n} x {K} matrix of per-cluster terms", m, expected=[n, K], observed=list(inp.shape))
            continue
        by_site[site] = out.numpy()
        d = c["dim"]
        if d not in (1, -1):
            i = int(np.argmax(np.abs(out.numpy().sum(axis=1) - 1)))
            run.fail("responsibilities:softmax-not-over-clusters", f"rule {site}: the softmax normalises over dim={d}, not over the cluster axis "
                     f"(row {i} of the responsibilities sums to {float(out[i].sum()):.6g})", dict(m, terms=nll[i].tolist()),
                     expected=doc[i].tolist(), observed=out[i].tolist())
        if not torch.equal(inp, want_in):
            i = int((inp != want_in).any(dim=1).nonzero()[0])
            run.fail("responsibilities:softmax-input-not-clamped-negated-terms", f"rule {site}: the softmax is not fed clamp(-nll_regul_ind_sum_ind, -100) "
                     "of the pre-step state", dict(m, terms=nll[i].tolist()), expected=want_in[i].tolist(), observed=inp[i].tolist())
        o = out.numpy()
        bad = np.abs(o - doc) > REL * doc
        if bad.any():
            i = int(np.argwhere(bad)[0][0])
            run.fail("responsibilities:not-softmax-of-clamped-negated-terms", f"rule {site}: the responsibilities of an individual are not the softmax over "
                     "clusters of its negated per-cluster terms clamped at -100", dict(m, terms=nll[i].tolist()),
                     expected=doc[i].tolist(), observed=o[i].tolist())
        for i in range(n):
            key = (tuple(nll[i].tolist()), tuple(o[i].tolist()))
            if key in T.seen_rows:
                continue
            T.seen_rows.add(key)
            T.rows.append(f"({qlist(nll[i].tolist())}, {qlist(o[i].tolist())}, {coq_Q(ROW_SLACK)})")
            T.rows_meta.append(dict(m, individual=i, terms=nll[i].tolist(), responsibilities=o[i].tolist()))
            run.case(("resp-row", key), nontrivial=True)
            run.count("resp-row-clusters", str(K))
            for cidx in range(K):
                T.iv.append((nll[i].tolist(), cidx, float(o[i, cidx])))
                T.iv_meta.append(dict(m, individual=i, cluster=cidx, terms=nll[i].tolist(), responsibility=float(o[i, cidx])))
    return by_site


def interval_statement(terms, c, obs) -> str:
    """|model - observed| <= REL * model, model = exp(logit t_c) / sum_c' exp(logit t_c')   (Resp.resp_row, entry c)"""
    ex = [f"exp (logit {coq_R(t)})" for t in terms]
    return f"let E := {ex[c]} / ({' + '.join(ex)}) in Rabs (E - {coq_R(obs)}) <= 1 / 1000000000 * E"


IV_HEADER = ("From Coq Require Import Reals List Lra.\nFrom Interval Require Import Tactic.\nFrom Leaspy Require Import Saem.Resp.\n"
             "Import ListNotations.\nOpen Scope R_scope.\n"
             "Ltac resp_iv := cbv zeta; unfold logit, clamp_min;\n"
             "  repeat match goal with |- context [Rmax ?a ?b] => first [rewrite (Rmax_left a b) by lra | rewrite (Rmax_right a b) by lra] end;\n"
             "  interval with (i_prec 90).\n")

T2_HEADER = ("From Coq Require Import ZArith QArith Qabs Bool List.\nFrom Leaspy Require Import Base.QAux Saem.MStep Saem.MStepExec Saem.Resp Saem.RespExec.\n"
             "Import ListNotations.\nOpen Scope Q_scope.\n")


def run_t2(run: Run, T: RespTables):
    if T.rows:
        bad = run.vm_bad_indices("resprow", T2_HEADER, "list Q * list Q * Q", T.rows, "chk_resp_row", shard=300)
        run.extra.setdefault("t2_cases", {})["resp_row"] = len(T.rows)
        for i in bad or []:
            run.fail("model-vs-impl:resp_row", "a row of responsibilities returned by the implementation's softmax is not a probability vector with "
                     "positive entries (RespExec.chk_resp_row, evaluated inside Coq on the exact values)", T.rows_meta[i])
    if T.one:
        bad = run.vm_bad_indices("onecluster", T2_HEADER, "list Q * Q * Q * Q", T.one, "chk_one_cluster")
        run.extra.setdefault("t2_cases", {})["one_cluster"] = len(T.one)
        for i in bad or []:
            run.fail("model-vs-impl:one_cluster", "with ONE cluster the mixture mean rule is not the plain mean rule / probs is not [1] "
                     "(RespExec.chk_one_cluster inside Coq)", T.one_meta[i])
    if T.xg:
        bad = run.vm_bad_indices("xguard", T2_HEADER, "Z * Q * Q * Z", T.xg, "chk_xguard")
        run.extra.setdefault("t2_cases", {})["xguard"] = len(T.xg)
        for i in bad or []:
            run.fail("model-vs-impl:xguard", "compute_std_from_variance on a non-finite variance does not do what Resp.xguard says", T.xg_meta[i])
    if T.iv:
        # quick: at most MAX_INTERVAL_QUICK lemmas, spread over the recorded steps, every cluster count represented
        cap = MAX_INTERVAL_QUICK if run.tier != "thorough" else 400
        idx = list(range(len(T.iv)))
        if len(idx) > cap:
            g = run.rng("resp-interval")
            byK: dict = {}
            for i in idx:
                byK.setdefault(len(T.iv[i][0]), []).append(i)
            pick = []
            for K, l in sorted(byK.items()):
                g.shuffle(l)
                # smallest responsibilities first (they are the ones a wrong clamp / axis shows in), then random ones
                l2 = sorted(l, key=lambda i: T.iv[i][2])[: cap // (4 * len(byK))] + l
                seen = set()
                for i in l2:
                    if i not in seen and len(seen) < cap // len(byK):
                        seen.add(i)
                pick += sorted(seen)
            idx = pick
        lemmas = [interval_statement(*T.iv[i]) for i in idx]
        bad = run.interval_lemmas("resp", IV_HEADER, lemmas, "resp_iv.", shard=max(5, (len(lemmas) + 7) // 8))
        run.extra.setdefault("t2_cases", {})["resp_interval_lemmas"] = len(lemmas)
        for j in bad or []:
            run.fail("model-vs-impl:responsibility", "a responsibility returned by the implementation's softmax is not within 1e-9 (relative) of "
                     "exp(logit t_c) / sum_c' exp(logit t_c') — Resp.resp_row, enclosure lemma not provable inside Coq", T.iv_meta[idx[j]])


# ----------------------------------------------------------------------------- directed direct calls


def directed(run: Run, T: RespTables, tables: dict):
    """Direct calls of the four mixture rules (through the real ModelParameter constructors) on designed term matrices:
       * ONE cluster (K = 1): responsibilities 1, probs = [1], mean rule = plain mean rule, std rule = the unguarded dispersion;
       * a cluster every individual finds 800 nats less likely (terms [0, 800]): the clamp keeps its responsibilities at
         exp(-100)/(1+exp(-100)) > 0, so its mean is the plain mean of the values — NOT 0/0;
       * 2 and 3 clusters with random terms, one hard-assignment-looking matrix, unequal responsibilities;
       * non-finite terms: +inf is absorbed by the clamp (finite update), nan / -inf make the whole update nan, nothing raises;
       * compute_std_from_variance on nan / +inf / -inf."""
    import numpy as np
    import torch
    from leaspy.exceptions import LeaspyConvergenceError
    from leaspy.models.utilities import compute_std_from_variance
    from leaspy.utils.weighted_tensor import WeightedTensor
    from leaspy.variables.specs import ModelParameter
    from harness.props.c04 import OUT_NONFINITE, OUT_OK, slack32
    g = run.rng("resp-directed")
    inf, nan = float("inf"), float("nan")

    def rules(K):
        return [("probs", ModelParameter.for_probs((K,))), ("x_mean", ModelParameter.for_ind_mean_mixture("x", (K,))),
                ("x_std", ModelParameter.for_ind_std_mixture("x", (K,)))]

    def call(nll, x, old, burn=False):
        K = nll.shape[1]
        outs, calls_all = {}, []
        for name, mp in rules(K):
            calls: list = []
            st = {"nll_regul_ind_sum_ind": WeightedTensor(nll), "x": x, "x_mean": old}
            ss = {"x": x, "x_sqr": x ** 2}
            try:
                with warnings.catch_warnings():
                    warnings.simplefilter("ignore")
                    with softmax_recorder(calls):
                        outs[name] = mp.compute_update(state=st, suff_stats=ss, burn_in=burn).detach().double().reshape(-1)
            except Exception as e:
                outs[name] = e
            calls_all += calls
        return outs, calls_all

    mats = []
    for n in (1, 2, 5):
        mats.append(("one-cluster", torch.tensor([[g.uniform(0, 30)] for _ in range(n)], dtype=torch.float64)))
    for n in (2, 4, 7):
        mats.append(("far-cluster", torch.tensor([[0.0, 800.0]] * n, dtype=torch.float64)))
        mats.append(("far-cluster-3", torch.tensor([[g.uniform(0, 5), 800.0 + 50 * i, g.uniform(200, 400)] for i in range(n)], dtype=torch.float64)))
    for n, K in ((3, 2), (6, 2), (4, 3), (8, 3), (5, 4)):
        mats.append(("random", torch.tensor([[g.uniform(0, 40) for _ in range(K)] for _ in range(n)], dtype=torch.float64)))
        mats.append(("near-hard", torch.tensor([[0.0 if c == (i % K) else g.uniform(15, 60) for c in range(K)] for i in range(n)], dtype=torch.float64)))
        mats.append(("soft", torch.tensor([[g.uniform(1, 2) for _ in range(K)] for _ in range(n)], dtype=torch.float64)))
    for label, nll in mats:
        n, K = nll.shape
        x = torch.tensor([[g.gauss(0, 1) + (3.0 if i % 2 else 0.0)] for i in range(n)], dtype=torch.float64)
        old = torch.tensor([g.gauss(0, 1) for _ in range(K)], dtype=torch.float64)
        meta = dict(direct_resp=True, label=label, terms=nll.tolist(), x=x.reshape(-1).tolist(), old_mean=old.tolist())
        outs, calls = call(nll, x, old)
        run.case(("resp-direct", label, n, K), nontrivial=True)
        run.count("resp-direct", label)
        bad_exc = [(k, v) for k, v in outs.items() if isinstance(v, Exception)]
        for k, v in bad_exc:
            run.fail(f"mixture-rule-raises:{type(v).__name__}", f"the mixture rule of {k} raised {type(v).__name__}: {v} on finite per-cluster terms", dict(meta, parameter=k))
        if bad_exc:
            continue
        by = check_softmax_calls(run, T, nll, calls, ["probs", "mix_mean:x_mean", "mix_std:x_std"], meta)
        doc = doc_resp(nll.numpy())
        xs = x.reshape(-1).numpy()
        probs, mean = outs["probs"].numpy(), outs["x_mean"].numpy()
        if np.abs(probs - doc.mean(axis=0)).max() > 1e-9 or abs(probs.sum() - 1) > 1e-9:
            run.fail("probs:not-mean-responsibility", "probs is not the mean responsibility of each cluster (>= 0, summing to one)", dict(meta, parameter="probs"),
                     expected=doc.mean(axis=0).tolist(), observed=probs.tolist())
        wantm = (doc * xs[:, None]).sum(axis=0) / doc.sum(axis=0)
        if not np.all(np.isfinite(mean)) or np.abs(mean - wantm).max() > 1e-9 * (1 + np.abs(wantm).max()):
            run.fail("mixture-mean:not-responsibility-weighted-mean", "the mixture mean is not the responsibility-weighted mean of the latent values "
                     "(every cluster has positive responsibilities: the clamp at -100 is applied BEFORE the softmax)", dict(meta, parameter="x_mean"),
                     expected=wantm.tolist(), observed=mean.tolist())
        # T2: probs and mean through the rational rules on the responsibilities the implementation used
        if by is not None and "probs" in by and np.all(np.isfinite(probs)):
            tables["probs"].add(f"({K}%nat, [{'; '.join(qlist(r) for r in by['probs'].tolist())}], {qlist(probs.tolist())}, {coq_Q(Fraction(1, 10 ** 9))})",
                                dict(meta, parameter="probs", rule="probs"))
        if by is not None and "mix_mean:x_mean" in by:
            for c in range(K):
                fin = math.isfinite(float(mean[c]))
                tables["mix_mean"].add(f"({qlist(by['mix_mean:x_mean'][:, c].tolist())}, {qlist(xs.tolist())}, {coq_Z(OUT_OK if fin else OUT_NONFINITE)}, "
                                       f"{coq_Q(float(mean[c]) if fin else 0.0)}, {coq_Q(slack32(float(np.abs(xs).max())))})",
                                       dict(meta, parameter="x_mean", rule="mix_mean", cluster=c))
        if K == 1:
            T.one.append(f"({qlist(xs.tolist())}, {coq_Q(float(mean[0]) if math.isfinite(float(mean[0])) else 0.0)}, {coq_Q(float(probs[0]))}, "
                         f"{coq_Q(slack32(float(np.abs(xs).max())))})")
            T.one_meta.append(dict(meta, parameter="x_mean/probs"))
            plain = ModelParameter.for_ind_mean("x", (1,)).compute_update(state={}, suff_stats={"x": x}, burn_in=False)
            if abs(float(plain) - float(mean[0])) > 1e-12 * (1 + abs(float(plain))) or float(probs[0]) != 1.0:
                run.fail("mixture:one-cluster-not-the-plain-rules", "with ONE cluster the mixture rules do not reduce to the plain rules", meta,
                         expected=dict(mean=float(plain), probs=[1.0]), observed=dict(mean=float(mean[0]), probs=probs.tolist()))

    # ---- non-finite terms: what propagates, what raises (Resp.xresp_row / xmix_probs / xmix_mean)
    base = torch.tensor([[1.0, 2.0], [0.5, 3.0], [2.0, 0.25]], dtype=torch.float64)
    x = torch.tensor([[0.3], [1.1], [-0.7]], dtype=torch.float64)
    old = torch.zeros(2, dtype=torch.float64)
    for label, v, expect_finite in (("+inf", inf, True), ("-inf", -inf, False), ("nan", nan, False)):
        nll = base.clone()
        nll[1, 1] = v
        outs, calls = call(nll, x, old)
        meta = dict(direct_resp=True, label=f"non-finite-term:{label}", terms=[[None if not math.isfinite(t) else t for t in r] for r in nll.tolist()],
                    non_finite=label, at=[1, 1])
        run.case(("resp-nonfinite", label), nontrivial=True)
        for name, r in outs.items():
            if isinstance(r, Exception):
                run.fail("mixture-rule-raises-on-non-finite-term", f"the mixture rule of {name} raised {type(r).__name__} on a {label} per-cluster term "
                         "(the model: no mixture rule raises; nan propagates)", dict(meta, parameter=name))
                continue
            fin = bool(torch.isfinite(r).all())
            allnan = bool(torch.isnan(r).all())
            run.count("non-finite-term", f"{label}:{name}:{'finite' if fin else 'all-nan' if allnan else 'partly-non-finite'}")
            if expect_finite != fin or (not expect_finite and not allnan):
                run.fail("mixture-rule:non-finite-term-behaviour", f"{name} on a {label} per-cluster term of one individual: the model says "
                         f"{'a finite update (the clamp absorbs +inf)' if expect_finite else 'every entry nan (the row of responsibilities is nan, every reduction over individuals meets it)'}",
                         dict(meta, parameter=name), expected="finite" if expect_finite else "all nan", observed=r.tolist())
        if expect_finite:
            # the row with the +inf term: responsibilities (1 - e, e), e = exp(-100 - logit)/... : still a probability vector
            rows = [c["out"][1].tolist() for c in calls]
            for rr in rows:
                if not (abs(sum(rr) - 1) < 1e-12 and all(0 < p <= 1 for p in rr)):
                    run.fail("responsibilities:+inf-term-not-absorbed", "a +inf per-cluster term must be absorbed by the clamp (row still a probability vector)",
                             meta, observed=rr)
    # ---- compute_std_from_variance on non-finite variances
    for code, v in ((1, inf), (2, -inf), (3, nan), (0, 0.5), (0, 1e-7)):
        try:
            with warnings.catch_warnings():
                warnings.simplefilter("ignore")
                r = float(compute_std_from_variance(torch.tensor([v], dtype=torch.float64), varname="x", tol=1e-5))
            out = 3 if math.isnan(r) else 2 if r == inf else 0
        except LeaspyConvergenceError:
            out = 1
        except Exception as e:
            run.fail(f"guard-raises:{type(e).__name__}", f"compute_std_from_variance({v}) raised {type(e).__name__}", dict(direct_guard=True, variance=str(v)))
            continue
        run.case(("xguard", code, v), nontrivial=True)
        run.count("guard-on-non-finite", f"{v}:{ {0: 'value', 1: 'raises', 2: 'returns-inf', 3: 'returns-nan'}[out] }")
        T.xg.append(f"({coq_Z(code)}, {coq_Q(v if math.isfinite(v) else 0.0)}, {coq_Q(1e-5)}, {coq_Z(out)})")
        T.xg_meta.append(dict(direct_guard=True, variance=str(v), outcome=out))
