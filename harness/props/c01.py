"""C01 — values read from the lazily cached variable graph are never stale."""
from __future__ import annotations

import itertools
import json
import re

from harness.common import Run
from harness.props import state_toy as T

META = dict(
    technique="Coq theorems (invariant of the cache + undo log, preserved by every State operation; induction over the history) "
              "on a line-by-line model of state.py; the model's executable step function is run inside Coq (vm_compute) on the "
              "same operation histories as the real State and compared result by result; from-scratch oracle on the implementation; "
              "the fork rule of State.__setitem__ and the combination rule of State.revert(subset) are recognised on every run (source "
              "shape + probes on a real State, fail closed) and select the executable instance of the tie; scoped fork-mode switches "
              "(`with state.auto_fork(m)`, also left by an exception) are a derived form of the model (State/StateScoped.v: set mode, body up to "
              "the first error, previous mode always put back) to which the theorems are lifted, executed through the real context manager and "
              "compared event by event (results + auto_fork_type + _last_fork inside and after every block), plus an implementation-side oracle "
              "against the documented scoping written out; WeightedTensor values whose WEIGHT is computed by a node function are a second executable "
              "value domain (State/StateWExec.v: value + boolean weight per entry, mix = what `_select` does = row-wise selection of value AND weight) for "
              "which F_mix is proved and on which the same exact comparison runs (weights compared entry by entry; directed weight-flipping partial "
              "reverts for every mask)",
    level_text="For every value type, every well-formed graph, every history of get/set/put/revert/partial revert/clone/mode "
               "switch/precompute/clear on any number of states: a successful read is the from-scratch evaluation of the current "
               "independent values, a read fails (input error) iff that evaluation needs an unset independent value, reads are "
               "transparent, states do not interfere. Proved in full for the code as it is (since 27ac519 an assignment made with "
               "auto-fork off drops the pending fork): the only hypothesis on a history is the documented precondition of "
               "per-individual reverts, and none at all for histories of full reverts. The same for histories with scoped mode switches "
               "`with state.auto_fork(m): ...` nested in any way and left by exceptions caught by the caller: every read executed anywhere "
               "(inside a block, after a failed block) is the from-scratch value, the block always puts the previous mode back, such a history "
               "reaches the store of a plain history (its flattening) and C02's later-history simulation holds for it.",
    level_note="Trusted: Coq kernel (no axioms: all theorems closed under the global context); the hand-written model's tie is the "
               "executed correspondence (toy graphs built as real LinkedVariables), not a translation; graph well-formedness is a "
               "hypothesis of the generic theorems, PROVED from C15's theorems for every graph built by the modelled DAG constructor "
               "(C01_built_graph_wf; the C01_*_built theorems have no graph hypothesis, and C01_read_by_name_built characterises reads by "
               "NAME, independently of the order) and recomputed by vm_compute on every graph used incl. all shipped graph literals; "
               "F_mix (row-wise node functions) is only needed for partial reverts (C01_never_stale_full_reverts_nomix), proved for "
               "the op-kind node functions of C07 with any number of parents (C02_F_mix_opkinds) and for one-parent entry-wise toy nodes "
               "(C02_F_mix_entrywise) and — on values of ANY trailing shape, both alignments of revert(subset, right_broadcasting) — for the whole entry-wise "
               "toy vocabulary: affine maps of any number of parents, the weighted one-parent maps, a two-parent map of weighted parents (C01_F_mix_nd, "
               "C01_never_stale_nd; State/StateNdExec.v, tied by toy histories on n-d graphs run inside Coq); a hypothesis for other functions, false for what "
               "torch does outside the documented contract (0-d per-individual values, shape-changing masks); since the repair of `_select` (a side without weights is fully "
               "weighted) two sides of different kinds are inside the contract and covered; exercised incl. +-inf/NaN by the tie and the oracle; torch kernels, deepcopy, REF-mode aliasing under in-place mutation are outside the model. "
               "Former finding F1 (fork-mode-switch-stale-revert) is fixed by 27ac519 and the blend of partial reverts (F2 of C02) by "
               "fe0cadd; a tree whose __setitem__ keeps the fork on an un-forked assignment, or whose revert(subset) blends, is reported "
               "as a violation with the stale-read history as replay.",
    design_ref="DESIGN.md section 4 C01, section 6 F1",
)

OBLIGATIONS = [
    "C01_never_stale", "C01_never_stale_full_reverts", "C01_unset_is_error", "C01_read_is_scratch", "C01_unforked_set_drops_fork",
    "C01_get_transparent", "C01_clone_isolated", "C01_clone_copies", "C01_examples",
    # composition with C15 (graph hypothesis WF discharged for every graph the modelled DAG constructor builds; reads characterised
    # by name, independently of the order) and with C07 (F_mix from the op-kind semantics): coq/theories/Compose, docs/Compose.md
    "C01_built_graph_wf", "C01_accepted_defs_have_wf_graph", "C01_never_stale_built", "C01_never_stale_full_reverts_built",
    "C01_never_stale_full_reverts_nomix", "C01_scratch_is_by_name", "C01_read_by_name_built",
    "C01_read_by_name_full_reverts_built", "C01_never_stale_opkinds_built", "C01_compose_examples",
    "C01_reads_are_C07_eval", "C01_reads_row_local", "C01_reads_eval_example",
    # composition with C15 extension 4 (Compose/FromDictState.v): the graph from the definitions WITH THEIR FUNCTION SIGNATURES; the only
    # graph-side hypothesis is `from_dict ds = FOk r`
    "C01_graph_from_definitions_wf", "C01_accepted_definitions_have_wf_graph", "C01_never_stale_from_definitions",
    "C01_never_stale_full_reverts_from_definitions", "C01_read_by_name_from_definitions", "C01_from_definitions_examples",
    # histories with scoped fork-mode switches, `with state.auto_fork(m): ...` (State/StateScoped.v)
    "C01_never_stale_scoped", "C01_scoped_reads_are_scratch", "C01_scoped_is_history", "C01_scoped_restores_mode",
    "C01_scoped_later_history", "C01_scoped_examples",
    # weighted values (State/StateWExec.v): node functions that compute the WEIGHT of a WeightedTensor from their inputs; mix = _select
    # = row-wise selection of value AND weight
    "C01_weighted_select_rows", "C01_F_mix_weighted", "C01_never_stale_weighted", "C01_weighted_examples",
    # n-d values (State/StateNdExec.v): trailing shapes, both alignments of revert(subset), F_mix PROVED for multi-parent entry-wise
    # functions of plain and of weighted parents
    "C01_F_mix_nd", "C01_never_stale_nd", "C01_nd_examples", "C01_never_stale_scoped_nd", "C01_nd_scoped_example",
]

# The model variant the theorems of Props/C01.v are about (State/StateNow.v): True = State.__setitem__ as it is since 27ac519
# (an assignment made while auto_fork_type is None forgets _last_fork).
CLAIMED_FX = True
# The variant the tree under test really has; set by `settle_variant` from T.detect_setitem_variant() on every run.  The tie and
# the discipline flags are computed for THIS variant, so that a tree that has lost the repair is reported through the stale
# read it produces (signature F1_SIG, a violation) and not as a flood of model-vs-code mismatches.
FX = CLAIMED_FX
# Same for the rule of the per-individual revert: "where" = torch.where(mask, old, cur) (since fe0cadd; Coq instance xsem_where),
# "blend" = old*mask + cur*~mask (before; xsem).  The theorems are generic in the rule (hypothesis F_mix); the executable instance
# of the tie is the one the tree under test has, and a tree that blends is reported through the stale NaN it produces.
CLAIMED_MIX = "where"
MIX = CLAIMED_MIX
SEM = {"where": "xsem_where", "blend": "xsem"}
F2_SIG = "partial-revert-nonfinite-stale"


def checker():
    return f"(check_case_with {SEM[MIX]} {'true' if FX else 'false'})"

HEADER = ("From Coq Require Import ZArith List Bool.\nFrom Leaspy Require Import State.StateModel State.StateExec.\n"
          "Import ListNotations.\nOpen Scope Z_scope.\nOpen Scope nat_scope.\n")
CASE_TYPE = "list nspec * list (xop * out xval * bool)"
# histories with scoped blocks / looks: the trace of State/StateScoped.v compared entry by entry (StateScopedExec.check_scase_with)
SHEADER = ("From Coq Require Import ZArith List Bool.\nFrom Leaspy Require Import State.StateModel State.StateExec State.StateScoped "
           "State.StateScopedExec.\nImport ListNotations.\nOpen Scope Z_scope.\nOpen Scope nat_scope.\n")
SCASE_TYPE = "list nspec * list xsop * list (xobs * bool)"
SCOPE_SIG = "auto-fork-scope:mode-not-restored"
SCOPE_DIFF_SIG = "auto-fork-scope:differs-from-documented-scoping"
ALIAS_SIG = "clone:shares-storage-with-source"


# graphs using the weighted vocabulary (WeightedTensor values whose weight is computed by a node function): State/StateWExec.v
WHEADER = ("From Coq Require Import ZArith List Bool.\nFrom Leaspy Require Import State.StateModel State.StateExec State.StateWExec.\n"
           "Import ListNotations.\nOpen Scope Z_scope.\nOpen Scope nat_scope.\n")
WCASE_TYPE = "list wspec * list (wop * out wval * bool)"
WEIGHT_SIG = "partial-revert-weight-stale"


def wchecker():
    """weighted graphs: `_select` = row-wise selection of value AND weight (wsem_where).  There is no weighted instance of the blend of
    the code before fe0cadd: a tree that blends is reported by the plain histories."""
    return f"(check_wcase_with wsem_where {'true' if FX else 'false'})"


def schecker():
    return f"(check_scase_with {SEM[MIX]} {'true' if FX else 'false'})"


def is_scoped(s):
    return any(op[0] in ("scoped", "look") for op, _, _ in s.records)

F1_SIG = "fork-mode-switch-stale-revert"
# an operation changed an independent variable it does not assign (two variables sharing tensor storage + an in-place update)
ALIAS_EFFECT_SIG = "put:changes-a-variable-it-does-not-assign"


def settle_variant(run: Run):
    """Recognise the fork rule of the tree under test (fail closed) and set FX."""
    global FX
    fx, detail = T.detect_setitem_variant()
    run.extra["setitem_variant"] = detail
    if fx is None:
        FX = CLAIMED_FX
        run.broken("translate:State.__setitem__", "the fork rule of State.__setitem__ was not recognised (source shape and probes on a real "
                   f"State must agree): {json.dumps(detail, default=str)}", kind="broken-translation")
    else:
        FX = fx
        if fx != CLAIMED_FX:
            run.broken("tie:State.__setitem__", "State.__setitem__ of the tree under test keeps _last_fork when a value is assigned with "
                       "auto_fork_type=None (the rule before 27ac519): the theorems of Props/C01.v are about the rule that drops it and "
                       "do not speak about this code.  The tie of this run is made against the model variant fx=false so that the "
                       "search reports the stale read itself.", kind="broken-correspondence")
    global MIX
    mix, mdetail = T.detect_revert_mix_variant()
    run.extra["revert_mix_variant"] = mdetail
    if mix is None:
        MIX = CLAIMED_MIX
        run.broken("translate:State.revert", "the rule combining forked and current values in State.revert(subset) was not recognised "
                   f"(source shape and probes on a real State must agree): {json.dumps(mdetail, default=str)}", kind="broken-translation")
    else:
        MIX = mix
        if mix != CLAIMED_MIX:
            run.broken("tie:State.revert", "State.revert(subset) of the tree under test blends (old*mask + cur*~mask, the rule before fe0cadd): "
                       "a non-finite value on the discarded side leaks into the kept one, F_mix does not hold for non-finite values and the "
                       "examples of Props/C01.v (xsem_where) do not describe this code.  The tie of this run is made against xsem so that the "
                       "search reports the stale read itself.", kind="broken-correspondence")
    # the n-d instance (nsem) is about `_select` treating a side without weights as fully weighted; the toy histories never hold values of
    # different kinds on the two sides, so both rules give the same results there: recorded, and broken only if not recognised (C02 reports
    # the old rule through the changed row itself)
    T.settle_select_variant(run, report_tie=False)
    run.count("revert_mix_variant", {"where": "selects: torch.where(mask, old, cur) (since fe0cadd)",
                                     "blend": "blends: old*mask + cur*~mask (before fe0cadd)", None: "not recognised"}[mix])
    run.count("setitem_variant", {True: "drops the fork on an un-forked assignment (since 27ac519)",
                                  False: "keeps the fork on an un-forked assignment (before 27ac519)", None: "not recognised"}[fx])
    return fx, mix


def sig_of(taint):
    """the finding a stale read belongs to, from what happened to the state before it"""
    if "alias-effect" in taint:
        return ALIAS_EFFECT_SIG
    if "unforked" in taint:
        return F1_SIG
    if "nonfinite-mask" in taint and MIX != CLAIMED_MIX:
        return F2_SIG
    if "weighted-mask" in taint:
        return WEIGHT_SIG
    return "stale-read"


def classify(run: Run, G, sess, what_prefix=""):
    """Turn the oracle mismatches of one session into failures (or known findings / misuse counts)."""
    ops = [r[0] for r in sess.records]
    for mm in sess.mismatches[:1]:
        taint = set(mm["taint"])
        if "mask" in taint:
            run.count("oracle", "stale-after-misused-partial-revert (precondition violated, not a failure)")
            continue
        sig = sig_of(taint)
        prefix = ops[: mm["step"] + 1]

        def still(cand, _sig=sig):
            s2 = T.run_ops(G, cand, fx=FX)
            return any(sig_of(set(m["taint"])) == _sig and "mask" not in m["taint"] for m in s2.mismatches)
        small = T.shrink(G, prefix, still) if len(prefix) <= 60 else prefix
        s3 = T.run_ops(G, small, fx=FX)
        m3 = next((m for m in s3.mismatches if "mask" not in m["taint"]), mm)
        # end the replay with the stale read itself (the oracle found it by reading every node after the last operation)
        if sig == ALIAS_EFFECT_SIG:
            m3 = next((m for m in s3.mismatches if "alias-effect" in m["taint"]), m3)
            kids = [c for c in G.dag.sorted_children.get(m3["node"], ())]
            small = small + [["get", m3["state"], m3["node"]]] + [["get", m3["state"], c] for c in kids[:2]]
        elif small[-1] != ["get", m3["state"], m3["node"]]:
            s4 = T.run_ops(G, small + [["get", m3["state"], m3["node"]]], fx=FX)
            if any(m["step"] == len(small) and m["node"] == m3["node"] for m in s4.mismatches):
                small = small + [["get", m3["state"], m3["node"]]]
        run.count("oracle", sig)
        run.fail(sig, what_prefix + (
            "a revert after an assignment made with auto_fork_type=None restores a stale _last_fork: a cached derived value no longer "
            "matches the independent values" if sig == F1_SIG else
            "an operation on one variable changed the value of ANOTHER independent variable of the state (or of another state) that nobody "
            "assigned: the two hold the same tensor object / views of one storage (as every population latent variable put at its prior mode and "
            "its `*_mean` parameter do) and the update was made in place.  The model's variables are values (a put on `a` never changes `b`); "
            "the changed variable's cached descendants are stale and the reads no longer are the from-scratch evaluation of the values the "
            "history assigned" if sig == ALIAS_EFFECT_SIG else
            "a per-individual revert applied while a cached value of the discarded side is inf/NaN leaves NaN in the kept rows of a cached "
            "derived value (old*mask + cur*~mask is not a selection): the read differs from the from-scratch evaluation" if sig == F2_SIG else
            "after a per-individual revert applied while a WeightedTensor node of the forked sub-graph was cached on both sides, a read (value or "
            "WEIGHT of that node, or a variable derived from it) differs from the from-scratch evaluation on the current independent values: "
            "the weight of a row has to come from the same side as its value" if sig == WEIGHT_SIG else
            "a read returns a value different from the from-scratch evaluation on the current independent values"),
            dict(graph=G.to_json(), ops=small, node=m3["node"], state=m3["state"]),
            expected=m3["expected"], observed=m3["observed"])


# every Coq instance of the tie: (value domain, with / without scoped blocks) -> header, case type, checker, literal
GHEADER = ("From Coq Require Import ZArith List Bool.\nFrom Leaspy Require Import State.StateModel State.StateExec State.StateScoped "
           "State.StateScopedExec State.StateWExec State.StateNdExec State.StateScopedGExec.\nImport ListNotations.\nOpen Scope Z_scope.\n"
           "Open Scope nat_scope.\n")
NCASE_TYPE = "list dspec * list (nop * out nval * bool)"
NSCASE_TYPE = "list dspec * list nsop * list (gobs nval * bool)"
WSCASE_TYPE = "list wspec * list wsop * list (gobs wval * bool)"


def group_of(s):
    """which instance compares the history of session `s`: x = plain 1-d values (StateExec.v), w = weighted 1-d values (StateWExec.v),
    n = n-d values (StateNdExec.v); + "s" when the history has scoped blocks / looks (trace compared entry by entry)"""
    inst = s.G.inst
    return ("n" if inst == "n" else "w" if inst else "x") + ("s" if is_scoped(s) else "")


def group_spec(g):
    fx = "true" if FX else "false"
    return {
        "x": (HEADER, CASE_TYPE, checker(), "", "check_case_with"),
        "xs": (SHEADER, SCASE_TYPE, schecker(), "_scoped", "check_scase_with"),
        "w": (WHEADER, WCASE_TYPE, wchecker(), "_weighted", "check_wcase_with"),
        "ws": (GHEADER, WSCASE_TYPE, f"(check_wscase_with wsem_where {fx})", "_weighted_scoped", "check_wscase_with"),
        "n": (GHEADER, NCASE_TYPE, f"(check_ncase_with nsem {fx})", "_nd", "check_ncase_with"),
        "ns": (GHEADER, NSCASE_TYPE, f"(check_nscase_with nsem {fx})", "_nd_scoped", "check_nscase_with"),
    }[g]


def case_literal(s):
    return s.coq_scase() if is_scoped(s) else s.coq_case()


def correspond(run: Run, name, sessions, metas):
    """every history through the checker of its instance (`group_of`): plain / weighted / n-d values, with or without scoped blocks"""
    bad = []
    for g in ("x", "w", "xs", "ws", "n", "ns"):
        ix = [i for i, s in enumerate(sessions) if group_of(s) == g]
        if ix:
            run.count("tie_instance", group_spec(g)[4], len(ix))
            b = _correspond(run, name + group_spec(g)[3], [sessions[i] for i in ix], [metas[i] for i in ix], g)
            bad += [ix[j] for j in (b or [])]
    return sorted(bad)


def _correspond(run: Run, name, sessions, metas, g):
    header, ctype, chk, _, _ = group_spec(g)
    cases = [case_literal(s) for s in sessions]
    bad = run.vm_bad_indices(name, header, ctype, cases, chk, shard=150)
    # localise the first disagreeing operation on the shortest disagreeing histories only (each bisection step is a coqc call)
    todo = sorted(bad or [], key=lambda i: len(sessions[i].records))
    if len(todo) > 6:
        run.count("tie", f"{name}: disagreeing histories beyond the 6 shortest (not localised)", len(todo) - 6)
    for i in todo[:6]:
        s = sessions[i]
        ops = [r[0] for r in s.records]
        # locate the first disagreeing operation by bisection on prefixes
        lo, hi = 1, len(ops)
        G = s.G

        def prefix_bad(n):
            s2 = T.run_ops(G, ops[:n], fx=FX, oracle=False)
            g2 = group_of(s2)
            h2, t2, c2, _, _ = group_spec(g2)
            r = run.vm_bad_indices(name + "_loc", h2, t2, [case_literal(s2)], c2)
            return bool(r)
        while lo < hi:
            mid = (lo + hi) // 2
            if prefix_bad(mid):
                hi = mid
            else:
                lo = mid + 1
        op, out, ok = s.records[lo - 1]
        run.fail(f"model-vs-code:{op[0]}", "the State implementation and the Coq model of state.py disagree on the result of an operation "
                 "(or on the cache contents / the discipline flag" + (" / auto_fork_type and _last_fork observed inside and after a "
                 "`with state.auto_fork(..)` block" if g.endswith("s") else "") + (" / the WEIGHTS of a WeightedTensor value" if g[0] == "w" else
                 " / the rows of a value with a trailing shape, the weights of a WeightedTensor value" if g[0] == "n" else "") + "): the theorems no longer speak about this code",
                 dict(graph=G.to_json(), ops=ops[:lo], **metas[i]), expected="result computed by the model (see coq/tmp)",
                 observed=dict(op=op, out=out, disciplined=ok), kind="broken-correspondence")
    return bad


def count_f1_shape(run: Run, s, acc):
    """Histories of the shape of the former finding F1, measured on the real states: an assignment made with auto-fork off
    while a fork is pending, then a revert on that state, then reads."""
    kinds = {e["kind"] for e in s.f1_events}
    if "unforked-set-over-pending-fork" in kinds:
        acc["histories_with_unforked_assignment_over_pending_fork"] += 1
    if "revert-after" in kinds:
        acc["histories_with_revert_after_it"] += 1
    if "read-after-revert" in kinds:
        acc["histories_with_read_after_that_revert"] += 1
    for e in s.f1_events:
        if e["kind"] == "revert-after":
            op = e["op"]
            out = e["out"]
            key = f"{op} -> " + (out[0] if out[0] != "err" else "err:" + out[1])
            acc["revert_outcomes"][key] = acc["revert_outcomes"].get(key, 0) + 1
            run.count("revert_after_unforked_assignment_over_pending_fork", key)
        elif e["kind"] == "read-after-revert":
            acc["reads_after_that_revert"] += 1


def new_sc():
    return dict(histories_with_blocks=0, blocks=0, blocks_left_by_an_exception=0, nested_blocks=0,
                blocks_entered_with_a_fork_pending=0, reverts_after_a_block_left_by_an_exception=0, reads_after_those_reverts=0,
                blocks_whose_previous_mode_is_not_REF=0)


def directed_scoped(run: Run):
    """The shape of the seeded defect "auto_fork without try/finally", on c = a + b, for every previous mode, every mode of the block
    and every way the body can raise: a fork is pending; `with auto_fork(m)`: read, <raises>, (skipped assignment); look; b = 20;
    read c; revert(); read c, a, b.  Plus the two histories proved in Coq (State/StateScopedExecProofs.v: sc_ops, nested_ops)."""
    G = T.F1_GRAPH
    G.build()
    raisers = {"unknown name": [["get", 0, T.UNKNOWN]], "non-settable assignment": [["set", 0, "c", 5]],
               "read needing an unset variable": [["set", 0, "a", None], ["get", 0, "c"]],
               "revert without fork": [["mode", 0, None], ["set", 0, "b", 3], ["revert", 0]],
               "index error (crash class)": [["put", 0, "a", 5, 1, True]], "no exception": []}
    sessions, metas = [], []
    sc = new_sc()
    for prev in ("REF", "COPY", None):
        for bm in (None, "REF", "COPY"):
            for rname, rops in raisers.items():
                ops = [["mode", 0, prev], ["set", 0, "a", 1], ["set", 0, "b", 10], ["get", 0, "c"], ["set", 0, "a", 2],
                       ["scoped", 0, bm, [["get", 0, "c"]] + rops + [["set", 0, "b", 99]]], ["look", 0],
                       ["set", 0, "b", 20], ["get", 0, "c"], ["revert", 0], ["get", 0, "c"], ["get", 0, "a"], ["get", 0, "b"]]
                s = T.run_ops(G, ops, fx=FX)
                run.case(("directed-scoped", prev, bm, rname), nontrivial=True)
                run.count("directed_scoped_block", rname)
                classify(run, G, s)
                scoped_oracle(run, G, s, sc)
                sessions.append(s)
                metas.append(dict(stream="directed-scoped", case=len(sessions), previous_mode=prev, block_mode=bm, raises=rname))
    nested = [["mode", 0, "REF"], ["set", 0, "a", 1], ["set", 0, "b", 10], ["clone", 0, False, True],
              ["scoped", 0, "COPY", [["scoped", 1, None, [["set", 1, "a", 7], ["get", 1, T.UNKNOWN], ["set", 1, "a", 8]]], ["set", 0, "a", 3]]],
              ["look", 0], ["look", 1], ["get", 1, "c"], ["get", 0, "c"], ["revert", 1]]
    s = T.run_ops(G, nested, fx=FX)
    run.case(("directed-scoped", "nested"), nontrivial=True)
    classify(run, G, s)
    scoped_oracle(run, G, s, sc)
    sessions.append(s)
    metas.append(dict(stream="directed-scoped-nested", case=len(sessions)))
    run.extra["directed_scoped_histories"] = sc
    correspond(run, "dscoped", sessions, metas)
    s0 = sessions[0]
    run.sample(dict(kind="exception leaving `with state.auto_fork(None)` while a fork is pending (real State)", ops=[r[0] for r in s0.records],
                    trace=s0.events_json()))


def scoped_oracle(run: Run, G, s, sc):
    """Implementation-side oracles for `with state.auto_fork(m)` blocks (no Coq involved):
    (1) after a block — left normally or by an exception — `auto_fork_type` is what it was before the block (white box);
    (2) the whole history gives, event by event (results, reads, reverts accepted or refused, auto_fork_type, _last_fork), what it
        gives when every block is executed by the documented contract written out (set the mode; finally: put the previous one back);
    (3) a clone shares no dictionary and no tensor object with its source."""
    ops = [r[0] for r in s.records]
    if s.alias_violations:
        a = s.alias_violations[0]
        prefix = ops[: a["step"] + 1]
        small = T.shrink(G, prefix, lambda c: bool(T.run_ops(G, c, fx=FX, oracle=False).alias_violations))
        a2 = T.run_ops(G, small, fx=FX, oracle=False).alias_violations[0]
        run.count("oracle", ALIAS_SIG)
        run.fail(ALIAS_SIG, "State.clone returns a state that shares mutable storage with its source (the model's states are values: "
                 "C01_clone_isolated does not transfer to states that alias each other)",
                 dict(graph=G.to_json(), ops=small), expected="no shared dictionary / tensor object", observed=a2["shared"],
                 kind="broken-correspondence")
    if not s.has_scoped:
        return
    sc["histories_with_blocks"] += 1
    pending_exc, reverted = set(), set()

    def walk(records, depth):
        for op, out, ok in records:
            if op[0] == "scoped":
                sc["blocks"] += 1
                sc["nested_blocks"] += depth > 0
                if out[1]:
                    sc["blocks_left_by_an_exception"] += 1
                    if depth == 0 and op[1] < len(s.states):
                        pending_exc.add(op[1])
                walk(out[2], depth + 1)
            elif depth == 0 and op[0] in ("revert", "revmask") and op[1] in pending_exc:
                sc["reverts_after_a_block_left_by_an_exception"] += 1
                pending_exc.discard(op[1])
                reverted.add(op[1])
            elif depth == 0 and op[0] == "get" and op[1] in reverted:
                sc["reads_after_those_reverts"] += 1
    walk(s.records, 0)
    # on entry of each block: was a fork pending, and what was the mode before the block
    for b in s.block_entries:
        sc["blocks_entered_with_a_fork_pending"] += b["fork_pending"]
        sc["blocks_whose_previous_mode_is_not_REF"] += b["previous"] != "REF"
    if s.scope_violations:
        v = s.scope_violations[0]
        prefix = ops[: v["step"] + 1]
        small = T.shrink(G, prefix, lambda c: bool(T.run_ops(G, c, fx=FX, oracle=False).scope_violations))
        v2 = T.run_ops(G, small, fx=FX, oracle=False).scope_violations[0]
        run.count("oracle", SCOPE_SIG)
        run.fail(SCOPE_SIG, "after `with state.auto_fork(m)` the state does not have its previous auto_fork_type again"
                 + (" (the block was left by an exception that the caller caught)" if v2["raised"] else ""),
                 dict(graph=G.to_json(), ops=small, state=v2["state"]), expected=dict(auto_fork_type=v2["expected"]),
                 observed=dict(auto_fork_type=v2["observed"]))
    ref = T.run_ops(G, ops, fx=FX, oracle=False, scope="reference")
    if ref.events != s.events:
        def differs(c):
            a = T.run_ops(G, c, fx=FX, oracle=False)
            b = T.run_ops(G, c, fx=FX, oracle=False, scope="reference")
            return first_result_difference(a, b) is not None
        d = first_result_difference(s, ref)
        if d is None:       # only the bookkeeping differs (reported above when it is the mode after a block)
            run.count("oracle", "scoped: bookkeeping differs from the documented scoping, no result does")
            if not s.scope_violations:
                run.fail(SCOPE_DIFF_SIG, "a history with `with state.auto_fork(m)` blocks leaves auto_fork_type / _last_fork different from "
                         "what the documented scoping (mode set for the body, previous mode put back afterwards) leaves",
                         dict(graph=G.to_json(), ops=ops), expected="same bookkeeping", observed="see replay")
            return
        small = T.shrink(G, ops[: d["step"] + 1], differs) if len(ops) <= 60 else ops[: d["step"] + 1]
        a = T.run_ops(G, small, fx=FX, oracle=False)
        b = T.run_ops(G, small, fx=FX, oracle=False, scope="reference")
        d2 = first_result_difference(a, b) or d
        sig = SCOPE_DIFF_SIG
        o_exp, o_obs = d2["expected"], d2["observed"]
        if isinstance(o_exp, dict) and o_exp.get("op", [""])[0] in ("revert", "revmask"):
            k = o_exp["op"][1]
            if o_exp["out"][0] == "done" and o_obs["out"][0] == "err":
                sig += ":revert-refused"
            elif o_exp["out"][0] == "err" and o_obs["out"][0] == "done":
                sig += ":revert-accepted"
            # end the replay with a read whose value differs: the proposal that should have been reverted is still there (or vice versa)
            for n in reversed(G.order):
                a2 = T.run_ops(G, small + [["get", k, n]], fx=FX, oracle=False)
                b2 = T.run_ops(G, small + [["get", k, n]], fx=FX, oracle=False, scope="reference")
                if a2.events[-1][0] != b2.events[-1][0]:
                    small = small + [["get", k, n]]
                    d2 = dict(expected=dict(revert=o_exp["out"], then_read=dict(node=n, out=list(b2.events[-1][0][2]))),
                              observed=dict(revert=o_obs["out"], then_read=dict(node=n, out=list(a2.events[-1][0][2]))))
                    break
        run.count("oracle", sig)
        run.fail(sig, "after an exception left a `with state.auto_fork(m)` block (and was caught), the history no longer "
                 "returns what it returns under the documented scoping of the mode switch: a later revert is refused / accepted "
                 "differently and the values read afterwards are those of other independent values (the fork bookkeeping of the "
                 "samplers' proposals is silently switched)",
                 dict(graph=G.to_json(), ops=small), expected=d2["expected"], observed=d2["observed"])


def first_result_difference(a, b):
    """first event whose RESULT (not the bookkeeping) differs between two executions of the same history"""
    for i, ((oa, _), (ob, _)) in enumerate(zip(a.events, b.events)):
        if oa[0] == "out" and ob[0] == "out" and oa != ob:
            return dict(event=i, step=a.event_steps[i], expected=dict(op=ob[1], out=list(ob[2])), observed=dict(op=oa[1], out=list(oa[2])))
        if oa[0] != ob[0] or (oa[0] == "out" and oa[1] != ob[1]):
            return dict(event=i, step=a.event_steps[i], expected=list(ob), observed=list(oa))
    if len(a.events) != len(b.events):
        i = min(len(a.events), len(b.events))
        return dict(event=i, step=len(a.records) - 1, expected=f"{len(b.events)} events", observed=f"{len(a.events)} events")
    return None


def toy_histories(run: Run, n_hist, n_weighted=0, n_nd=0):
    """`n_hist` histories on plain toy graphs + `n_weighted` on graphs using the weighted vocabulary + `n_nd` on graphs whose per-individual
    values have a trailing shape (half of them with weighted nodes, incl. the two-parent `wadd`), compared through the n-d Coq instance;
    scoped blocks everywhere"""
    ndst = dict(histories=0, with_scoped_blocks=0, partial_reverts=0, of_which_right_broadcasting_false=0, over_a_doubly_cached_weighted_node=0,
                of_which_the_weights_differ_between_the_sides=0, by_trailing_shape={}, graphs_with_wadd=0,
                graphs_in_the_class_F_mix_is_proved_for=0)
    wsc = dict(weighted_histories_with_scoped_blocks=0, blocks=0, blocks_left_by_an_exception=0, forks_made_inside_a_block_on_a_weighted_graph=0,
               partial_reverts_after_a_block=0)
    sessions, metas = [], []
    wstats = dict(histories=0, partial_reverts_over_a_doubly_cached_weighted_node=0, of_which_the_weights_differ_between_the_sides=0,
                  histories_with_such_a_revert=0, reads_of_weighted_nodes=0)
    f1 = dict(histories_with_unforked_assignment_over_pending_fork=0, histories_with_revert_after_it=0,
              histories_with_read_after_that_revert=0, reads_after_that_revert=0, revert_outcomes={})
    sc = new_sc()
    al = dict(histories_with_an_aliasing_assignment=0, aliasing_assignments=0, puts_on_a_variable_sharing_storage={})
    for h in range(n_hist + n_weighted + n_nd):
        rng = run.rng("toy", h)
        malformed = rng.random() < 0.3
        weighted = n_hist <= h < n_hist + n_weighted
        nd = h >= n_hist + n_weighted
        G = T.gen_graph_nd(rng, weighted=(h % 2 == 0)) if nd else T.gen_graph(rng, weighted=weighted)
        G.nonfinite = G.dtype == "float64" and rng.random() < 0.5   # +-inf among the assigned values (NaN follows from inf - inf)
        try:
            G.build()
        except Exception as e:  # a generated graph leaspy refuses: not a case
            run.count("graph", f"refused:{type(e).__name__}")
            continue
        if weighted and not G.weighted:
            run.count("graph", "weighted stream: no node carries the individual axis (plain graph)")
        s = T.gen_history(rng, G, malformed=malformed, fx=FX, scoped=True, **(dict(alias=0) if nd else {}))
        ops = [r[0] for r in s.records]
        if G.weighted and is_scoped(s):
            wsc["weighted_histories_with_scoped_blocks"] += 1
            for op, out, _ in T.flat_records(s.records):
                if op[0] == "scoped":
                    wsc["blocks"] += 1
                    wsc["blocks_left_by_an_exception"] += bool(out[1])
                    wsc["forks_made_inside_a_block_on_a_weighted_graph"] += sum(
                        1 for o2, r2, _ in out[2] if o2[0] in ("set", "put") and r2 == ("done",) and op[2] is not None)
            seen_block = False
            for op, out, _ in s.records:
                seen_block = seen_block or op[0] == "scoped"
                wsc["partial_reverts_after_a_block"] += bool(seen_block and op[0] == "revmask" and out == ("done",))
        if nd:
            ndst["histories"] += 1
            ndst["with_scoped_blocks"] += is_scoped(s)
            tr = str(tuple(G.trail))
            ndst["by_trailing_shape"][tr] = ndst["by_trailing_shape"].get(tr, 0) + 1
            ndst["graphs_with_wadd"] += any(x["kind"] == "linked" and x["fun"][0] == "wadd" for x in G.nodes)
            for op, out, _ in T.flat_records(s.records):
                if op[0] == "revmask" and out == ("done",):
                    ndst["partial_reverts"] += 1
                    ndst["of_which_right_broadcasting_false"] += not T.op_rb(op)
            ndst["over_a_doubly_cached_weighted_node"] += s.weighted_masks
            ndst["of_which_the_weights_differ_between_the_sides"] += s.weight_flipping_masks
        if G.weighted:
            wstats["histories"] += 1
            wstats["partial_reverts_over_a_doubly_cached_weighted_node"] += s.weighted_masks
            wstats["of_which_the_weights_differ_between_the_sides"] += s.weight_flipping_masks
            wstats["histories_with_such_a_revert"] += bool(s.weight_flipping_masks)
            wstats["reads_of_weighted_nodes"] += sum(1 for op, out, _ in s.records if op[0] == "get" and out[0] == "ok" and T.is_weighted_json(out[1]))
        count_f1_shape(run, s, f1)
        al["histories_with_an_aliasing_assignment"] += bool(s.alias_sets)
        al["aliasing_assignments"] += s.alias_sets
        for key, n in s.alias_puts.items():
            al["puts_on_a_variable_sharing_storage"][key] = al["puts_on_a_variable_sharing_storage"].get(key, 0) + n
        run.count("values", "float64 with +-inf/NaN" if G.nonfinite else G.dtype + " finite")
        if s.nonfinite_masks:
            run.count("partial_reverts_over_nonfinite_cached_values", "histories")
            run.count("partial_reverts_over_nonfinite_cached_values", "reverts", s.nonfinite_masks)
        sessions.append(s)
        metas.append(dict(stream=("nd-" if nd else "") + ("weighted-" if G.weighted else "") + ("malformed" if malformed else "valid"), case=h))
        run.case(("toy", json.dumps(G.to_json(), sort_keys=True), json.dumps(ops)), nontrivial=T.nontrivial(ops))
        run.count("stream", ("nd-" if nd else "") + ("weighted-" if G.weighted else "") + ("malformed" if malformed else "valid"))
        run.count("graph_nodes", len(G.order))
        run.count("n_states", len(s.states))
        run.count("history_len", (len(ops) // 10) * 10)
        for op, out, ok in T.flat_records(s.records):
            run.count("op", op[0])
            run.count("result", out[0] if out[0] != "err" else "err:" + out[1])
            if not ok:
                run.count("undisciplined_op", op[0])
        scoped_oracle(run, G, s, sc)
        for nd in G.nodes:
            run.count("node_kind", nd["kind"] if nd["kind"] != "linked" else "linked:" + nd["fun"][0])
        classify(run, G, s)
        if h in (3, 11):
            run.sample(dict(kind="toy", graph=G.to_json(), history=[dict(op=r[0], out=r[1], disciplined=r[2]) for r in s.records[:25]]))
    f1["note"] = ("legal since 27ac519: the revert must be refused with the input error 'no fork to revert from' (err:input) and every "
                  "later read must be fresh; before 27ac519 the revert succeeded (done) and restored a stale undo log")
    run.extra["f1_shaped_toy_histories"] = f1
    sc["note"] = ("every block is executed through the real context manager `with state.auto_fork(m)`; the exception of the first failing "
                  "operation of the body leaves the block(s) and is caught by the harness; auto_fork_type and _last_fork are recorded "
                  "just inside and just after every block and compared with the model inside Coq")
    run.extra["scoped_toy_histories"] = sc
    wstats["note"] = ("graphs with WeightedTensor nodes whose weight is computed from a per-individual parent (x >= thr); a partial revert over a "
                      "doubly cached weighted node whose weights differ between the forked and the current side is where a `_select` that "
                      "keeps one side's weight goes wrong; values AND weights of every read are compared with the model inside Coq and with a "
                      "fresh State bit for bit")
    run.extra["weighted_toy_histories"] = wstats
    wsc["note"] = ("`with state.auto_fork(m)` blocks on graphs with WeightedTensor nodes, through the real context manager; trace compared entry by entry "
                   "inside Coq (StateScopedGExec.check_wscase_with / check_nscase_with)")
    run.extra["weighted_scoped_toy_histories"] = wsc
    ndst["note"] = ("per-individual variables of shape (n,) + trailing shape; every toy function on such values; revert(mask) with right-broadcasting "
                    "(mask over the individuals) and with right_broadcasting=False (mask over the LAST axis); compared with the n-d Coq instance "
                    "(StateNdExec.check_ncase_with / StateScopedGExec.check_nscase_with at nsem) and with a fresh State bit for bit")
    run.extra["nd_toy_histories"] = ndst
    if n_nd and (ndst["of_which_right_broadcasting_false"] < max(3, n_nd // 60) or ndst["with_scoped_blocks"] < n_nd // 5
                 or ndst["of_which_the_weights_differ_between_the_sides"] < max(3, n_nd // 60)):
        run.broken("generator:nd-shape", f"the toy-history generator produced too few n-d histories with scoped blocks / partial reverts aligned on the "
                   f"last axis / partial reverts over weighted nodes whose weights differ: {ndst}", kind="broken-correspondence")
    if n_weighted and wsc["weighted_histories_with_scoped_blocks"] < n_weighted // 5:
        run.broken("generator:weighted-scoped-shape", f"too few scoped blocks on weighted graphs: {wsc}", kind="broken-correspondence")
    al["note"] = ("an independent variable is assigned the tensor object another one holds (same state or another state), a view of it "
                  "(`t[...]`, `torch.broadcast_tensors(t, scalar)[0]`) or a population scalar expanded along the individual axis; the model is given "
                  "the VALUE; before every operation the harness clones every independent value of every state, afterwards every variable the "
                  "operation does not assign must be bit-identical to its clone and every read must be the from-scratch value")
    run.extra["aliasing_toy_histories"] = al
    if al["puts_on_a_variable_sharing_storage"].get("indexed put, auto-fork off", 0) < max(5, n_hist // 50):
        run.broken("generator:alias-shape", f"the toy-history generator produced too few indexed puts with auto-fork off on a variable that shares "
                   f"storage with another one: {al}", kind="broken-correspondence")
    if n_weighted and wstats["histories_with_such_a_revert"] < max(5, n_weighted // 40):
        run.broken("generator:weighted-shape", f"the toy-history generator produced too few partial reverts over doubly cached weighted nodes "
                   f"whose weights differ between the two sides: {wstats}", kind="broken-correspondence")
    if sc["reads_after_those_reverts"] < max(5, n_hist // 100) or sc["blocks_whose_previous_mode_is_not_REF"] < max(5, n_hist // 100):
        run.broken("generator:scoped-shape", f"the toy-history generator produced too few scoped blocks left by an exception and followed by "
                   f"a revert and reads: {sc}", kind="broken-correspondence")
    if FX == CLAIMED_FX and f1["histories_with_read_after_that_revert"] < max(5, n_hist // 100):
        run.broken("generator:f1-shape", f"the toy-history generator produced too few histories of the F1 shape: {f1}", kind="broken-correspondence")
    correspond(run, "toy", sessions, metas)
    # the theorems C01_F_mix_nd / C01_never_stale_nd speak about the graphs accepted by `entrywise_axis_b`: decided inside Coq on every
    # generated n-d graph literal (the generator is meant to stay inside that class: aggregates never carry the individual axis)
    nd_graphs = [s.G.coq() for s in sessions if s.G.nd]
    if nd_graphs:
        out = run.vm_bad_indices("toy_nd_class", GHEADER, "list dspec", nd_graphs, "(fun l => gwf_b (mk_ngraph l) && entrywise_axis_b l)", shard=150)
        if out is not None:
            ndst["graphs_in_the_class_F_mix_is_proved_for"] = len(nd_graphs) - len(out)
            if out:
                run.broken("tie:nd-class", f"{len(out)} generated n-d graphs are outside the class for which F_mix is proved (entrywise_axis_b): "
                           "C01_never_stale_nd does not speak about them", kind="broken-correspondence")


def directed(run: Run):
    """The history of the former finding F1 on the real State: c = a + b; fork REF; a=1, b=10; read c; a=2; auto_fork_type=None;
    b=20; revert(); read c.  Since 27ac519: the revert is refused and the read is 22.  Before: the revert restores a=1 and the
    cached c=11 although b=20 (fresh: 21) — reported by the oracle under F1_SIG (a violation: the finding is listed as fixed)."""
    G = T.F1_GRAPH
    G.build()
    s = T.run_ops(G, T.F1_OPS, fx=FX)
    run.case(("directed", "F1"), nontrivial=True)
    revert_out, last = s.records[-2][1], s.records[-1][1]
    run.extra["F1_history_on_this_tree"] = dict(ops=T.F1_OPS, revert=revert_out, last_read=last,
                                                since_27ac519=dict(revert=["err", "input"], last_read=["ok", 22]),
                                                before_27ac519=dict(revert=["done"], last_read=["ok", 11], fresh=21))
    n0 = len(run._fails)
    classify(run, G, s)
    if FX != CLAIMED_FX and len(run._fails) == n0:
        # fail closed: the tree was recognised as un-repaired but the history of F1 did not produce the stale read
        run.broken("oracle:F1-history", f"un-repaired __setitem__ recognised but the F1 history read {last} after revert -> {revert_out}", kind="broken-correspondence")
    correspond(run, "f1", [s], [dict(stream="directed-F1", case=0)])
    run.sample(dict(kind="history of the former finding F1 on the real State", ops=T.F1_OPS, revert=revert_out, last_read=last))


def directed_nonfinite(run: Run):
    """y = log2 x per individual; x = [1,2]; read y; x += [-2,2]; read y = [NaN,2]; reject individual 0; read y.  Since fe0cadd the
    selection leaves y = [0,2] (fresh for x = [1,4]); before, the blend left y = [NaN,2] (finding F2 of C02, here a stale read).
    Then every mask on that history and on an affine one with inf."""
    G = T.F2_GRAPH
    G.build()
    s = T.run_ops(G, T.F2_OPS, fx=FX)
    run.case(("directed", "F2"), nontrivial=True)
    last = s.records[-1][1]
    run.extra["F2_history_on_this_tree"] = dict(ops=T.F2_OPS, last_read=last, since_fe0cadd=["ok", [0, 2]], before_fe0cadd=["ok", ["nan", 2]])
    n0 = len(run._fails)
    classify(run, G, s)
    if MIX != CLAIMED_MIX and len(run._fails) == n0:
        run.broken("oracle:F2-history", f"blending State.revert recognised but the F2 history read {last}", kind="broken-correspondence")
    sessions, metas = [s], [dict(stream="directed-F2", case=0)]
    G2 = T.ToyGraph([dict(name="x", kind="ind", parents=[]), dict(name="p", kind="pop", parents=[]),
                     dict(name="c", kind="linked", parents=["x", "p"], fun=["affine", 1, [2, -3]]),
                     dict(name="t", kind="linked", parents=["c"], fun=["sum", 0, [1]])], 2, "float64")
    G2.build()
    for mask in ([True, False], [False, True], [True, True], [False, False]):
        for tgt in (["inf", 3], [4, "-inf"], ["inf", "-inf"]):
            ops = [["mode", 0, "COPY"], ["set", 0, "p", 1], ["set", 0, "x", [1, 2]], ["get", 0, "c"], ["set", 0, "x", tgt], ["get", 0, "c"],
                   ["revmask", 0, mask], ["get", 0, "c"], ["get", 0, "t"]]
            s2 = T.run_ops(G2, ops, fx=FX)
            run.case(("directed", "inf", tuple(mask), tuple(tgt)), nontrivial=True)
            classify(run, G2, s2)
            sessions.append(s2)
            metas.append(dict(stream="directed-inf", case=len(sessions)))
        for tgt in ([-1, 4], [0, 8], [4, -2]):
            ops = T.F2_OPS[:3] + [["set", 0, "x", tgt], ["get", 0, "y"], ["revmask", 0, mask], ["get", 0, "y"]]
            s2 = T.run_ops(G, ops, fx=FX)
            run.case(("directed", "log", tuple(mask), tuple(tgt)), nontrivial=True)
            classify(run, G, s2)
            sessions.append(s2)
            metas.append(dict(stream="directed-log", case=len(sessions)))
    correspond(run, "nonfinite", sessions, metas)
    run.sample(dict(kind="partial revert over a NaN discarded side on the real State", ops=T.F2_OPS, last_read=last))


ALIAS_GRAPH = T.ToyGraph([
    dict(name="a", kind="ind", parents=[]),           # "x": the population latent variable (a vector)
    dict(name="m", kind="ind", parents=[]),           # "x_mean": its prior mean, an independent variable of its own
    dict(name="p", kind="pop", parents=[]),
    dict(name="c", kind="linked", parents=["a", "p"], fun=["affine", 0, [1, 2]]),       # model = x + 2 p
    dict(name="d", kind="linked", parents=["m"], fun=["affine", 0, [2]]),               # twice_mean
    dict(name="e", kind="linked", parents=["a", "m"], fun=["sum", 0, [1, -1]]),         # "regularity": sum(x) - sum(x_mean)
], 3, "int64")


def directed_alias(run: Run):
    """The shape of the seeded defect "in-place index_put when auto-fork is off": `a` is assigned the tensor OBJECT that `m` holds / a view of
    it (what the prior-mode initialisation of a population latent variable does with its `*_mean` parameter), every descendant is read, then
    `put(a, v, indices=(i,), accumulate)` and a full accumulating put — with auto-fork off (assigned, `with auto_fork(None)`, a clone with
    disable_auto_fork), REF and COPY — and reads of a, m and all their descendants; also the put on `m` (the source side), a revert
    after a forked put, and the sharing across two states.  Value semantics: only the variable that is put changes."""
    sessions, metas = [], []
    stats = {}
    for dtype in ("int64", "float64"):
        G = T.ToyGraph.from_json(dict(ALIAS_GRAPH.to_json(), dtype=dtype))
        G.build()
        reads = [["get", 0, n] for n in ("a", "m", "c", "d", "e")]
        for how in ("same", "view", "bcast", "expand"):
            src = "p" if how == "expand" else "m"
            for mode in (None, "REF", "COPY"):
                for via in ("mode", "scoped", "clone"):
                    for side in ("a", "src"):
                        for acc in (True, False):
                            if side == "src" and (how == "expand" or not acc):
                                continue
                            k = 1 if via == "clone" else 0
                            tgt = "a" if side == "a" else src
                            put = ["put", k, tgt, 1, 10, acc]
                            ops = [["mode", 0, "REF"], ["set", 0, "p", 4], ["set", 0, "m", [1, 2, 3]],
                                   ["set", 0, "a", None, {"alias": [0, src, how]}]] + reads
                            if via == "mode":
                                ops += [["mode", 0, mode], put]
                            elif via == "scoped":
                                ops += [["scoped", 0, mode, [put, ["get", 0, "e"]]]]
                            else:
                                ops += [["clone", 0, mode is None, False], ["mode", 1, mode], put]
                            rk = [[o[0], k, o[2]] for o in reads]
                            ops += rk + [["put", k, tgt, None, [1, 1, 1], True]] + rk
                            if mode is not None:
                                ops += [["revert", k]] + rk
                            if via == "clone":
                                ops += reads
                            s = T.run_ops(G, ops, fx=FX)
                            run.case(("directed-alias", dtype, how, mode, via, side, acc), nontrivial=True)
                            for key, n in s.alias_puts.items():
                                stats[key] = stats.get(key, 0) + n
                            classify(run, G, s)
                            sc = new_sc()
                            scoped_oracle(run, G, s, sc)
                            sessions.append(s)
                            metas.append(dict(stream="directed-alias", case=len(sessions), how=how, mode=mode, via=via, side=side, accumulate=acc))
        # the same tensor object held by two states (assigned by the caller): a put on one state must not be seen by the other
        for mode in (None, "REF", "COPY"):
            ops = [["set", 0, "p", 4], ["set", 0, "m", [1, 2, 3]], ["set", 0, "a", [5, 6, 7]], ["clone", 0, False, False],
                   ["set", 1, "a", None, {"alias": [0, "a", "same"]}], ["get", 0, "c"], ["get", 1, "c"], ["mode", 1, mode],
                   ["put", 1, "a", 2, 10, True], ["get", 1, "c"], ["get", 0, "a"], ["get", 0, "c"], ["get", 0, "e"]]
            s = T.run_ops(G, ops, fx=FX)
            run.case(("directed-alias-two-states", dtype, mode), nontrivial=True)
            for key, n in s.alias_puts.items():
                stats[key] = stats.get(key, 0) + n
            classify(run, G, s)
            sessions.append(s)
            metas.append(dict(stream="directed-alias-two-states", case=len(sessions), mode=mode))
    run.extra["directed_alias_histories"] = dict(histories=len(sessions), puts_on_a_variable_sharing_storage=stats)
    if not any(k.startswith("indexed put, auto-fork off") for k in stats):
        run.broken("generator:alias-shape", f"the directed aliasing histories executed no indexed put with auto-fork off on shared storage: {stats}", kind="broken-correspondence")
    correspond(run, "dalias", sessions, metas)
    s0 = sessions[0]
    run.sample(dict(kind="two independent variables holding one tensor object, indexed put with auto-fork off (real State)",
                    ops=[r[0] for r in s0.records], results=[list(r[1]) for r in s0.records]))


ONSET_CHAIN = T.ToyGraph([
    dict(name="a", kind="ind", parents=[]),
    dict(name="b", kind="linked", parents=["a"], fun=["wthr", 1, [2], 0]),
    dict(name="c", kind="linked", parents=["b"], fun=["wmap", -1, [3]]),
    dict(name="d", kind="linked", parents=["c"], fun=["wwgt", 0, [1]]),
    dict(name="e", kind="linked", parents=["c"], fun=["wsum", 2, [-1]]),
    dict(name="k", kind="linked", parents=["b"], fun=["wcnt", 0, [1]]),
    dict(name="m", kind="linked", parents=["d", "a"], fun=["affine", 0, [1, 1]]),
], 3, "float64")


def directed_weighted(run: Run):
    """The shape of the seeded defect "_select keeps one side's weight": a derived WeightedTensor whose WEIGHT depends on the assigned
    per-individual variable (w = WeightedTensor(x, weight=(x >= 3))), auto-fork on, the node read before and after a proposal that flips
    weights, `revert(mask)` for EVERY mask, then reads of the weighted node, of the per-individual weighted value and of the aggregates
    (count of the weights, weighted sum).  Also with +-inf proposals (float64) and on a chain wthr -> wmap -> weight / weighted sum."""
    sessions, metas = [], []
    G = T.ONSET_GRAPH
    G.build()
    s0 = T.run_ops(G, T.ONSET_OPS, fx=FX)
    run.extra["onset_history_on_this_tree"] = dict(ops=T.ONSET_OPS, reads_after_the_partial_revert=[list(r[1]) for r in s0.records[-3:]],
                                                   expected=[["ok", {"wv": [5, 5, 2, 3], "ww": [1, 1, 0, 1]}], ["ok", 3], ["ok", 13]])
    run.sample(dict(kind="partial revert over a WeightedTensor whose weight depends on the assigned variable (real State)", ops=T.ONSET_OPS,
                    reads=[list(r[1]) for r in s0.records]))
    Gf = T.ToyGraph.from_json(dict(G.to_json(), dtype="float64"))
    Gf.build()
    Gc = ONSET_CHAIN
    Gc.build()
    plans = []
    for mask in itertools.product([False, True], repeat=4):
        for delta in ([4, -4, 4, -4], [4, -4, 0, 0], [1, 1, 1, -5]):
            for before, mid in ((["c"], ["c"]), (["b"], ["b", "c"]), (["e"], ["b"]), ([], ["c"])):
                plans.append((G, [1, 5, 2, 7], delta, list(mask), before, mid, ["b", "c", "d", "e"]))
        for delta in (["inf", -4, "-inf", 0], [0, "inf", 4, "-inf"]):
            plans.append((Gf, [1, 5, 2, 7], delta, list(mask), ["c"], ["b", "c"], ["b", "c", "d", "e"]))
    for mask in itertools.product([False, True], repeat=3):
        for delta in ([3, -3, 1], [-2, 0, 2], ["inf", -3, "-inf"]):
            plans.append((Gc, [-1, 1, 0], delta, list(mask), ["d"], ["c", "d", "m"], ["b", "c", "d", "e", "k", "m"]))
    for (g, x0, delta, mask, before, mid, after) in plans:
        ops = ([["mode", 0, "REF"], ["set", 0, "a", x0]] + [["get", 0, n] for n in before] + [["put", 0, "a", None, delta, True]]
               + [["get", 0, n] for n in mid] + [["revmask", 0, mask]] + [["get", 0, n] for n in after])
        s = T.run_ops(g, ops, fx=FX)
        run.case(("directed-weighted", g.dtype, len(g.nodes), tuple(delta), tuple(mask), tuple(before), tuple(mid)), nontrivial=True)
        run.count("directed_weighted", "partial revert over a doubly cached weighted node" + (", weights differ" if s.weight_flipping_masks else ", same weights"))
        classify(run, g, s)
        sessions.append(s)
        metas.append(dict(stream="directed-weighted", case=len(sessions)))
    correspond(run, "dweighted", sessions, metas)


def weighted_nd_case(delta, mask):
    """The demonstration's graph with (n_individuals, n_visits) values: since_onset = WeightedTensor(t - tau, weight=(t >= tau)); per-individual
    and aggregated consumers.  Outside the Coq vocabulary (1-d values): implementation-side oracle only.  Returns None or (node, expected, observed)."""
    import torch
    from leaspy.utils.weighted_tensor import WeightedTensor
    from leaspy.variables.dag import VariablesDAG
    from leaspy.variables.specs import DataVariable, LinkedVariable
    from leaspy.variables.state import State, StateForkType
    dag = VariablesDAG.from_dict({
        "tau": DataVariable(), "t": DataVariable(),
        "since_onset": LinkedVariable(lambda *, t, tau: WeightedTensor(t - tau, weight=(t >= tau))),
        "sq_ind": LinkedVariable(lambda *, since_onset: (since_onset.weighted_value ** 2).sum(dim=1)),
        "n_visits_ind": LinkedVariable(lambda *, since_onset: since_onset.weight.sum(dim=1)),
        "exposure": LinkedVariable(lambda *, since_onset: since_onset.weighted_value.sum()),
    })
    n = len(mask)
    t = 60.0 + 5.0 * torch.arange(5, dtype=torch.float64).repeat(n, 1)
    tau0 = torch.tensor([[62.0], [68.0], [71.0], [74.0]], dtype=torch.float64)[:n]
    st = State(dag, auto_fork_type=StateForkType.REF)
    st["t"] = t
    st["tau"] = tau0
    st["sq_ind"]
    st.put("tau", torch.tensor([[float(d)] for d in delta], dtype=torch.float64), accumulate=True)
    st["sq_ind"]
    st.revert(torch.tensor([bool(m) for m in mask]))
    fresh = State(dag)
    fresh["t"] = st["t"]
    fresh["tau"] = st["tau"]
    for name in ("since_onset", "sq_ind", "n_visits_ind", "exposure"):
        a, b = st[name], fresh[name]
        if not T.same_tensor(a, b):
            d = lambda v: dict(value=v.value.tolist(), weight=v.weight.tolist()) if hasattr(v, "weighted_value") else v.tolist()
            return (name, d(b), d(a))
    return None


def directed_weighted_nd(run: Run):
    for mask in itertools.product([False, True], repeat=4):
        for delta in ([6, -6, 6, -6], [-3, 11, 0, -20]):
            run.case(("weighted-nd", mask, tuple(delta)), nontrivial=True, validated=False)
            run.count("directed_weighted", "(n, visits)-shaped weighted node, implementation-side oracle")
            try:
                r = weighted_nd_case(delta, mask)
            except Exception as e:  # noqa
                run.fail(WEIGHT_SIG + ":nd-raises", f"State.revert(mask) over a (n, visits)-shaped WeightedTensor raised {type(e).__name__}: {e}",
                         dict(kind="weighted-nd", delta=list(delta), mask=[int(m) for m in mask]))
                return
            if r is not None:
                run.fail(WEIGHT_SIG, "after a per-individual revert, a read of a (n, visits)-shaped WeightedTensor node whose weight depends on the assigned "
                         f"variable — or of a variable derived from it — differs from the from-scratch evaluation (node '{r[0]}')",
                         dict(kind="weighted-nd", delta=list(delta), mask=[int(m) for m in mask], node=r[0],
                              graph="since_onset = WeightedTensor(t - tau, weight=(t >= tau)); sq_ind, n_visits_ind, exposure"),
                         expected=r[1], observed=r[2])
                return


def exhaustive_diamond(run: Run, max_len):
    """All histories of length <= max_len over a small alphabet on the 4-node diamond (thorough tier)."""
    G = T.DIAMOND
    G.build()
    alphabet = [["get", 0, "d"], ["get", 0, "b"], ["set", 0, "a", [1, 2]], ["put", 0, "a", None, [3, -1], True],
                ["put", 0, "a", 1, 2, True], ["revert", 0], ["revmask", 0, [True, False]], ["mode", 0, "REF"], ["mode", 0, None],
                ["clone", 0, False, True], ["get", 1, "d"], ["set", 1, "a", [0, 5]], ["revert", 1], ["precompute", 0], ["set", 0, "a", None],
                ["scoped", 0, None, [["put", 0, "a", None, [1, 1], True], ["get", 0, T.UNKNOWN]]],
                ["scoped", 0, "COPY", [["set", 0, "a", [4, 4]], ["set", 0, "d", [0, 0]]]], ["look", 0]]
    sessions, metas = [], []
    sc = new_sc()
    for L in range(1, max_len + 1):
        for combo in itertools.product(range(len(alphabet)), repeat=L):
            ops = [alphabet[c] for c in combo]
            s = T.run_ops(G, ops, fx=FX)
            for k in range(len(s.states)):
                for n in G.order:
                    s.apply(["isset", k, n])
            sessions.append(s)
            metas.append(dict(stream="exhaustive-diamond", case=len(sessions)))
            run.case(("diamond", combo), nontrivial=T.nontrivial(ops))
            classify(run, G, s)
            scoped_oracle(run, G, s, sc)
    run.extra["exhaustive_diamond"] = dict(alphabet=alphabet, max_len=max_len, histories=len(sessions))
    correspond(run, "diamond", sessions, metas)


def shipped_states(run: Run, kinds):
    """Random histories on the real states of fitted shipped models, checked by the from-scratch oracle only."""
    import copy
    import torch
    from harness import synth
    from leaspy.exceptions import LeaspyInputError
    from leaspy.variables.state import State, StateForkType
    from leaspy.variables.specs import IndividualLatentVariable, PopulationLatentVariable
    for kind, kw in kinds:
        try:
            model, _ = synth.fit(kind, n_iter=4, seed=run.seed % 1000, n_ind=8, **kw)
        except Exception as e:  # noqa
            run.count("shipped", f"{kind}: fit failed {type(e).__name__}")
            continue
        st0 = model.state
        dag = st0.dag
        ind_vars = list(dag.sorted_variables_by_type.get(IndividualLatentVariable, {}))
        pop_vars = list(dag.sorted_variables_by_type.get(PopulationLatentVariable, {}))
        settable = [n for n in dag if dag[n].is_settable]
        if not all(st0.is_variable_set(n) for n in ind_vars):
            run.count("shipped", f"{kind}: individual latent variables not in model.state")
            continue
        names = list(dag.sorted_variables_names)

        def fresh_like(st):
            f = State(dag)
            for n in settable:
                v = st._values[n]
                if v is not None:
                    f[n] = v
            return f

        def compare(st, step, hist):
            probe, fresh = T.probe_of(st), fresh_like(st)
            for n in names:
                a, b = [], []
                for s_, o_ in ((probe, a), (fresh, b)):
                    try:
                        o_.append(("ok", s_[n]))
                    except Exception as e:  # noqa
                        o_.append(("err", type(e).__name__))
                a, b = a[0], b[0]
                if a[0] != b[0] or (a[0] == "ok" and not T.same_tensor(a[1], b[1])) or (a[0] == "err" and a[1] != b[1]):
                    run.fail("stale-read:shipped", f"{kind}: after {hist[-1]} the read of '{n}' differs from a fresh state holding the same independent values",
                             dict(kind=kind, options=kw, history=hist, node=n), expected=str(b[1])[:200], observed=str(a[1])[:200])
                    return False
            return True

        rng = run.rng("shipped", kind, json.dumps(kw, sort_keys=True))
        st = st0.clone()
        st.auto_fork_type = StateForkType.REF
        hist = []
        n_ok = 0
        non_settable = [n for n in names if not dag[n].is_settable and st0.is_variable_set(n)]
        from leaspy.models.time_reparametrized import TimeReparametrizedModel
        callsite_ok = (isinstance(model, TimeReparametrizedModel)
                       and type(model).put_individual_parameters is TimeReparametrizedModel.put_individual_parameters
                       and {"xi", "tau"} <= set(ind_vars))

        class _NoIndividuals:            # a dataset that makes the body of the block raise: n_individuals is required
            n_individuals = None

        def revert(subset=None, what=""):
            """a sampler's decision after a proposal made with auto-fork on: must not be refused"""
            try:
                st.revert(subset) if subset is not None else st.revert()
            except LeaspyInputError as e:
                run.fail(SCOPE_DIFF_SIG + ":revert-refused:shipped", f"{kind}: the revert of a proposal made on a model state whose auto-fork is on "
                         f"(as far as the caller can tell) is refused: {str(e)[:120]}",
                         dict(kind=kind, options=kw, history=hist + [what]), expected="revert accepted (the proposal was forked)",
                         observed=f"LeaspyInputError; auto_fork_type={st.auto_fork_type}")
                return False
            hist.append(what)
            return True

        def failed_block(how):
            """an exception raised inside `with state.auto_fork(None)` and caught outside: through the context manager directly
            (the body makes an un-forked assignment, then assigns a non-settable variable), or at the real call site
            time_reparametrized.py:447 (`put_individual_parameters`: the body raises because n_individuals is None)"""
            before = st.auto_fork_type
            raised = False
            try:
                if how == "direct":
                    with st.auto_fork(None):
                        v = rng.choice(ind_vars)
                        st.put(v, torch.full_like(st[v], 0.25), accumulate=True)
                        n = rng.choice(non_settable)
                        st[n] = st[n]
                else:
                    st["xi"] = None      # (forked) so that the call site enters its block
                    model.put_individual_parameters(st, _NoIndividuals())
            except LeaspyInputError:
                raised = True
            hist.append(f"exception inside `with auto_fork(None)` ({how}), caught")
            run.count("shipped", f"exception inside a `with state.auto_fork(None)` block: {how}" + ("" if raised else " (did NOT raise)"))
            if not raised:
                run.broken("shipped-states-oracle:failed-block", f"{kind}: the block ({how}) was expected to raise LeaspyInputError", kind="broken-correspondence")
            if st.auto_fork_type is not before:
                run.fail(SCOPE_SIG + ":shipped", f"{kind}: after an exception left `with state.auto_fork(None)` ({how}) and was caught, the model state "
                         "does not have its previous auto_fork_type again",
                         dict(kind=kind, options=kw, history=list(hist)), expected=str(before), observed=str(st.auto_fork_type))
            if how != "direct":
                return revert(what="revert()  # xi back")
            return True

        alive = True
        for step in range(16):
            if step in (4, 10) and ind_vars and non_settable:
                how = "direct" if (step == 4 or not callsite_ok) else "call site put_individual_parameters"
                alive = failed_block(how)
                run.case(("shipped", kind, json.dumps(kw, sort_keys=True), step, "failed-block"), nontrivial=True, validated=False)
                if not alive or not compare(st, step, hist):
                    break
                # what a sampler does next: proposal, reads, decision
                force = True
            else:
                force = False
            r = rng.random()
            if (force or r < 0.45) and ind_vars:
                v = rng.choice(ind_vars)
                delta = torch.tensor([[rng.choice([-0.5, 0.25, 1.0])] * st[v].shape[1] for _ in range(st[v].shape[0])], dtype=st[v].dtype)
                st.put(v, delta, accumulate=True)
                hist.append(f"put({v}, +delta)")
                for n in rng.sample([m for m in names if m.endswith("_ind") or m in ("rt", "model", "nll_attach_ind")] or names, 2):
                    if n in dag:
                        st[n]
                if force or rng.random() < 0.5:
                    mask = torch.tensor([rng.random() < 0.5 for _ in range(st[v].shape[0])])
                    alive = revert(mask, f"revert({[int(x) for x in mask.tolist()]})")
            elif r < 0.8 and pop_vars:
                v = rng.choice(pop_vars)
                cur = st[v]
                idx = tuple(rng.randrange(d) for d in cur.shape)
                st.put(v, torch.tensor(rng.choice([-0.125, 0.25]), dtype=cur.dtype), indices=idx, accumulate=True)
                hist.append(f"put({v}, idx={idx})")
                st[rng.choice(names)]
                if rng.random() < 0.5:
                    alive = revert(what="revert()")
            else:
                n = rng.choice(names)
                try:
                    st[n]
                except Exception:  # noqa
                    pass
                hist.append(f"get({n})")
            run.case(("shipped", kind, json.dumps(kw, sort_keys=True), step), nontrivial=True, validated=False)
            if not alive or not compare(st, step, hist):
                break
            if st.auto_fork_type is not StateForkType.REF:
                run.fail(SCOPE_SIG + ":shipped", f"{kind}: the model state is no longer in auto-fork mode REF after {hist[-1]}",
                         dict(kind=kind, options=kw, history=list(hist)), expected="StateForkType.REF", observed=str(st.auto_fork_type))
                break
            n_ok += 1
        run.count("shipped", f"{kind}{kw or ''}: {n_ok} operations checked on a {len(names)}-node graph")


def shipped_alias(run: Run, kinds):
    """Real model states where two independent variables SHARE tensor storage: the prior-mode initialisation of a population latent variable
    returns a view of its `*_mean` parameter (`torch.broadcast_tensors(loc, scale)[0]`), so right after `initialize`, after `load_parameters` and at
    the end of a fit `log_g` / `log_g_mean`, `betas` / `betas_mean`, ... are one storage, and `State.clone` (one deepcopy) keeps the sharing inside the
    clone.  On each such state: indexed puts (assign / accumulate, first / last / random index) on every population latent variable with
    auto-fork off (`with auto_fork(None)`, `clone(disable_auto_fork=True)`) and on (REF, COPY); after each put every independent variable other
    than the one put must be bit-identical to its clone taken before, the variable itself must be `old.index_put(...)`, every read must equal the
    read of a brand new state holding those values (clones), and the state the clone was taken from must not have changed at all."""
    import torch
    from harness import synth
    from leaspy.variables.state import State, StateForkType
    from leaspy.variables.specs import PopulationLatentVariable
    stats = dict(states=0, variables_sharing_storage_with_another_independent_variable={}, indexed_puts=0, reads_compared=0, situations={})

    def ptr(t):
        return None if (t is None or hasattr(t, "weighted_value")) else t.untyped_storage().data_ptr()

    def cl(t):
        if hasattr(t, "weighted_value"):
            return type(t)(t.value.clone(), None if t.weight is None else t.weight.clone())
        return t.clone()

    def show(t):
        return str((t.value if hasattr(t, "weighted_value") else t).tolist())[:300]

    def read(st, n):
        try:
            return ("ok", st[n])
        except Exception as e:  # noqa
            return ("err", type(e).__name__)

    for kind, kw in kinds:
        label = f"{kind}{kw or ''}"
        situations = []
        try:
            model, df = synth.fit(kind, n_iter=3, seed=run.seed % 1000, n_ind=6, **kw)
            situations.append(("end of fit", model.state))
        except Exception as e:  # noqa
            run.count("shipped_alias", f"{label}: fit failed {type(e).__name__}")
            continue
        try:
            m2 = synth.make_model(kind, **kw)
            m2.features = list(model.features)
            m2.initialize()
            m2.load_parameters({k: v.tolist() for k, v in model.parameters.items()})
            situations.append(("load_parameters", m2.state))
        except Exception as e:  # noqa
            run.count("shipped_alias", f"{label}: load_parameters failed {type(e).__name__}")
        try:
            from leaspy.io.data import Dataset
            m3 = synth.make_model(kind, **kw)
            m3.initialize(Dataset(synth.make_data(df, kind)))
            situations.append(("initialize", m3.state))
        except Exception as e:  # noqa
            run.count("shipped_alias", f"{label}: initialize failed {type(e).__name__}")
        for sit, base in situations:
            dag = base.dag
            names = list(dag.sorted_variables_names)
            settable = [n for n in names if dag[n].is_settable and base._values[n] is not None]
            pop_vars = [n for n in dag.sorted_variables_by_type.get(PopulationLatentVariable, {}) if base._values[n] is not None]
            shared = {v: [n for n in settable if n != v and ptr(base._values[n]) == ptr(base._values[v])] for v in pop_vars}
            stats["states"] += 1
            stats["situations"][f"{label}: {sit}"] = {v: w for v, w in shared.items() if w}
            for v, w in shared.items():
                if w:
                    stats["variables_sharing_storage_with_another_independent_variable"][v] = stats["variables_sharing_storage_with_another_independent_variable"].get(v, 0) + 1
            base_snap = {n: cl(base._values[n]) for n in settable}
            rng = run.rng("shipped-alias", label, sit)
            for variant in ("with auto_fork(None)", "clone(disable_auto_fork=True)", "REF", "COPY"):
                st = base.clone(disable_auto_fork=(variant == "clone(disable_auto_fork=True)"))
                if variant in ("REF", "COPY"):
                    st.auto_fork_type = StateForkType[variant]
                elif variant == "with auto_fork(None)":
                    st.auto_fork_type = StateForkType.REF
                hist = [f"{sit}; state.clone(disable_auto_fork={variant == 'clone(disable_auto_fork=True)'})" + (f"; auto_fork_type = {variant}" if variant in ("REF", "COPY") else "")]
                ok = True
                for v in pop_vars:
                    shape = tuple(st._values[v].shape)
                    if not shape:
                        continue
                    idxs = {tuple(0 for _ in shape), tuple(d - 1 for d in shape), tuple(rng.randrange(d) for d in shape)}
                    for idx in sorted(idxs):
                        for acc in (True, False):
                            snap = {n: cl(st._values[n]) for n in settable}
                            val = torch.tensor(rng.choice([-0.125, 0.25, 0.5]), dtype=snap[v].dtype)
                            what = f"put({v}, {val.item()}, indices={idx}, accumulate={acc})" + ("  # inside `with state.auto_fork(None)`" if variant == "with auto_fork(None)" else "")
                            hist.append(what)
                            try:
                                if variant == "with auto_fork(None)":
                                    with st.auto_fork(None):
                                        st.put(v, val, indices=idx, accumulate=acc)
                                else:
                                    st.put(v, val, indices=idx, accumulate=acc)
                            except Exception as e:  # noqa
                                run.fail(ALIAS_EFFECT_SIG + ":shipped:put-raises", f"{label}: {what} raised {type(e).__name__}: {str(e)[:150]}",
                                         dict(kind=kind, options=kw, situation=sit, variant=variant, history=list(hist)))
                                ok = False
                                break
                            stats["indexed_puts"] += 1
                            run.case(("shipped-alias", label, sit, variant, v, idx, acc), nontrivial=bool(shared[v]), validated=False)
                            expected = dict(snap)
                            expected[v] = snap[v].index_put(tuple(torch.tensor(i) for i in idx), val, accumulate=acc)
                            for n in settable:
                                if not T.same_tensor(st._values[n], expected[n]):
                                    run.fail(ALIAS_EFFECT_SIG + ":shipped",
                                             f"{label}, state as it is after {sit} (variant: {variant}): {what} "
                                             + (f"changed the independent variable '{n}', which nobody assigned (it shares tensor storage with '{v}')" if n != v
                                                else f"did not leave '{v}' = old.index_put(...)"),
                                             dict(kind=kind, options=kw, situation=sit, variant=variant, history=list(hist), node=n),
                                             expected=show(expected[n]), observed=show(st._values[n]))
                                    ok = False
                                    break
                            if not ok:
                                break
                            fresh = State(dag)
                            for n in settable:
                                fresh[n] = cl(expected[n])
                            probe = T.probe_of(st)
                            for n in names:
                                a, b = read(probe, n), read(fresh, n)
                                stats["reads_compared"] += 1
                                if a[0] != b[0] or (a[0] == "ok" and not T.same_tensor(a[1], b[1])) or (a[0] == "err" and a[1] != b[1]):
                                    run.fail("stale-read:shipped", f"{label}, state as it is after {sit} (variant: {variant}): after {what} the read of '{n}' differs "
                                             "from a brand new state holding the values the history assigned",
                                             dict(kind=kind, options=kw, situation=sit, variant=variant, history=list(hist), node=n),
                                             expected=str(b[1])[:200], observed=str(a[1])[:200])
                                    ok = False
                                    break
                            if not ok:
                                break
                        if not ok:
                            break
                    if not ok:
                        break
                for n in settable:
                    if not T.same_tensor(base._values[n], base_snap[n]):
                        run.fail(ALIAS_EFFECT_SIG + ":shipped:source-of-clone", f"{label}: puts on a clone of the model state ({variant}) changed '{n}' of the model state itself",
                                 dict(kind=kind, options=kw, situation=sit, variant=variant, history=list(hist), node=n),
                                 expected=show(base_snap[n]), observed=show(base._values[n]))
                        break
            run.count("shipped_alias", f"{label}: {sit}: population variables sharing storage with their prior mean: {sorted(v for v, w in shared.items() if w)}")
    run.extra["shipped_alias_states"] = stats
    if not stats["variables_sharing_storage_with_another_independent_variable"]:
        # informative only: a tree whose prior-mode initialisation copies has no sharing to exercise (the oracle still ran)
        run.count("shipped_alias", "no model state with two independent variables sharing storage was met")


COMPOSE_HDR = ("From Coq Require Import List.\nFrom Leaspy Require Dag.DagModel Locality.Shipped.\n"
               "From Leaspy Require Import Dag.GraphLit Compose.ShippedCheck.\nFrom LeaspyGen Require GenGraphs GenC07.\n"
               "Import ListNotations.\n")


def compose_shipped_tie(run: Run):
    """Composition C15/C07 -> C01/C02 on the graphs the tree under test builds TODAY: regenerate both families of graph literals from
    the running code (coq/gen/GenGraphs.v: 31 model configurations; coq/gen/GenC07.v: the individual-axis literals), then rebuild
    coq/theories/Compose/ShippedTie.v, whose theorems are closed by vm_compute: every literal's definitions are accepted by the
    modelled DAG constructor with the order the implementation computed, the bridged State graph passes the boolean WF check, the
    axis literals are well typed and satisfy the closure condition of the partial-revert theorems for every (individual latent
    variable, per-individual term) pair.  Fail closed: a translation or build failure marks the run broken; the failing literals are
    then localised by evaluating the same checks graph by graph."""
    from harness import common
    from harness.translate import graphs as tgraphs
    from harness.props import c07
    info = dict(file="coq/theories/Compose/ShippedTie.v",
                theorems=["shipped_graphs_bridge", "shipped_graphs_accepted", "shipped_axis_graphs_bridge", "shipped_axis_graphs_accepted"])
    run.extra["compose_shipped_tie"] = info
    graphs = tgraphs.write_gen(run)                      # marks the run broken itself when the translation fails
    ok7 = False
    axis = []
    try:
        ok7 = c07.translate(run)                         # idem (one broken entry per configuration that does not translate)
        axis = [g for g in (c07.shipped_graphs(run) or []) if g]
    except Exception as e:  # noqa
        run.broken("translate:GenC07", f"{type(e).__name__}: {e}", kind="broken-translation")
    if graphs is None or not ok7:
        info["status"] = "graph literals not regenerated"
        return
    run.forbid_scan()
    ok, out = common.make(["theories/Compose/ShippedTie.vo"])
    run.checker_cmds.append("make -C coq -j16 theories/Compose/ShippedTie.vo  (vm_compute on every regenerated graph literal)")
    info.update(graph_literals=len(graphs), graph_literal_nodes=sum(len(g["names"]) for g in graphs),
                graph_literal_linked_nodes=sum(1 for g in graphs for c in g["classes"] if c == "LinkedVariable"),
                axis_literals=len(axis), axis_literal_nodes=sum(len(g["nodes"]) for g in axis),
                latent_term_pairs_checked_for_axis_read_ok=sum(len(g["latents"]) * len(g["ind_terms"]) for g in axis),
                checks_per_graph_literal="definitions reproduce direct_ancestors; DagModel.build accepts them; order = sorted_variables_names of "
                                         "the implementation; wf_gb (graph_of_build ...) = true",
                checks_per_axis_literal="well_typed; DagModel.build accepts the definitions; order = the implementation's; wf_gb; every individual "
                                        "latent variable is settable and per-individual; axis_read_ok_b for every (latent, per-individual term) pair")
    for g in graphs:
        run.count("compose_graph_literal_nodes", (len(g["names"]) // 10) * 10)
    if ok:
        info["status"] = "all literals pass (theorems closed by vm_compute)"
        run.count("compose_shipped_tie", "graph literals bridged (build accepts, order agrees, wf_gb)", len(graphs))
        run.count("compose_shipped_tie", "axis literals bridged (well_typed, build accepts, wf_gb, axis_read_ok_b)", len(axis))
        return
    # localise: which literal fails which check
    bad1 = run.vm_bad_indices("compose_graphs", COMPOSE_HDR, "shipped_graph", [f"GenGraphs.g_{g['label']}" for g in graphs], "sg_check")
    bad2 = run.vm_bad_indices("compose_axis", COMPOSE_HDR, "Shipped.shipped_graph", [f"GenC07.s_{g['name']}" for g in axis], "ax_check")
    info["status"] = "FAILED"
    info["failing_graph_literals"] = None if bad1 is None else [graphs[i]["label"] for i in bad1]
    info["failing_axis_literals"] = None if bad2 is None else [axis[i]["name"] for i in bad2]
    m = re.search(r'File "([^"]+)", line (\d+)[^\n]*\n(?:.*\n){0,8}', out)
    run.broken("tie:Compose/ShippedTie", "the graphs the tree under test builds do not satisfy the hypotheses of the composed theorems "
               f"(C01_*_built, C02_*_well_typed): failing graph literals {info['failing_graph_literals']}, failing axis literals "
               f"{info['failing_axis_literals']}\n" + (m.group(0) if m else out[-1200:]), kind="broken-correspondence")


def main(run: Run):
    thorough = run.tier == "thorough"
    run.prove("C01", OBLIGATIONS)
    try:
        compose_shipped_tie(run)
    except Exception as e:  # noqa
        run.broken("tie:Compose/ShippedTie", f"{type(e).__name__}: {e}", kind="broken-correspondence")
    from harness.common import use_impl
    use_impl()
    settle_variant(run)
    run.rule = ("random toy DAGs (2-9 nodes: hyper-parameters, population scalars, per-individual vectors, integer affine / "
                "sum-over-individuals nodes with distinct coefficients, int64 or float64) built as real LinkedVariables; random "
                "histories (1-40 ops, 1-3 states) from a grammar with a valid stream (70%: initial assignments, reads, sampler-shaped "
                "put/read/revert steps, clones, mode switches, precompute) and a malformed stream (30%: unset reads, unknown names, "
                "non-settable assignments, reverts without fork, bad indices); 3.5% of the steps taken while a fork is pending have the "
                "shape of the former finding F1 (auto-fork off, assignment, reads, full or partial revert, reads; counted in "
                "f1_shaped_toy_histories); 7% of the steps are `with auto_fork(m)` blocks run through the REAL context manager (m in None/REF/COPY, "
                "bodies of 0-6 operations incl. nested blocks up to depth 3, clones, mode switches; 60% of the top-level bodies contain an operation "
                "that raises — unknown name, non-settable assignment, read needing an unset variable, accumulating put on an unset variable, "
                "revert without fork, index out of range — whose exception leaves the block(s) and is caught), usually entered with a fork "
                "pending and followed by look / assignment / reads / full or per-individual revert / reads (counted in scoped_toy_histories); 54 "
                "directed histories of that shape (previous mode x block mode x way to raise) + nested blocks on two states; auto_fork_type and "
                "_last_fork are recorded at every look, just inside and just after every block; every result + a final is_variable_set sweep over all "
                "nodes compared with the model inside Coq; from-scratch oracle after every operation. Non-trivial = the history has a "
                "read after a second assignment to the same state, after a revert or after a clone; distinct by (graph, history).")
    run.explanation = ("The theorems quantify over all graphs/histories/value types of the model; the tie runs the model's own step "
                       "function inside Coq on the histories executed by the real State (results, error classes, cache contents and "
                       "the discipline flags evaluated on the real _last_fork/_values must all agree; for histories with scoped blocks the "
                       "model's trace — executed operations, skipped ones absent, auto_fork_type and the full _last_fork at every look / block "
                       "entry / block exit — must equal the recorded one entry by entry); the oracle compares every read "
                       "of the implementation with a fresh State holding the same independent values, bit for bit, also after every "
                       "operation inside a block; every history with blocks is re-executed with the documented scoping written out by the "
                       "harness (set the mode; finally: put the previous one back) and must give the same events; on fitted shipped models an "
                       "exception is raised inside `with state.auto_fork(None)` (directly, and at the real call site "
                       "TimeReparametrizedModel.put_individual_parameters) and sampler-shaped put/read/revert steps follow.")
    run.assumptions += [
        "WF g: ancestors/children delivered by dag.py are the transitive closures in topological order — a THEOREM for every graph built by the "
        "modelled DAG constructor (C01_built_graph_wf, from C15_topological / C15_exact; the C01_*_built theorems carry no graph hypothesis); "
        "recomputed by wf_b on every graph of the tie and by wf_gb on every shipped graph literal (Compose/ShippedTie.v)",
        "F_mix: node functions of per-individual nodes act row by row — a THEOREM for node functions given by the op-kinds of C07 "
        "(C02_F_mix_opkinds, C01_never_stale_opkinds_built); not needed at all for histories without partial reverts "
        "(C01_never_stale_full_reverts_nomix); a hypothesis for other node functions",
        "MaskDisciplined: partial reverts only while every doubly cached node of the forked sub-graph carries the individual axis (documented precondition); no other restriction on histories",
        "State.revert(subset) selects with torch.where (Coq instance xsem_where of the tie and of the examples): "
        + ("recognised on the tree under test (source shape + probes)" if MIX == CLAIMED_MIX else
           "NOT the case on the tree under test — tie made against xsem (blend)"),
        "State.__setitem__ drops _last_fork on an assignment made with auto_fork_type=None (model flag fx = true, State/StateNow.v): "
        + ("recognised on the tree under test (source shape + probes)" if FX == CLAIMED_FX else
           "NOT the case on the tree under test — tie made against fx = false, the theorems do not apply"),
    ]
    run.assumptions.append("a scoped block is `with state.auto_fork(m)` whose exception, if any, is caught by the caller (top level of the history); "
                           "generator-based context managers and `with` are Python's (trusted); exceptions raised by __enter__/__exit__ themselves are not modelled")
    run.trusted += ["harness/props/state_toy.py: toy-graph builder, executor and canonicalisation of results (exact integers / inf / nan)",
                    "torch element-wise kernels, index_put, deepcopy (modelled, not verified)"]
    directed(run)
    directed_nonfinite(run)
    directed_scoped(run)
    try:
        directed_alias(run)
    except Exception as e:  # noqa
        import traceback
        run.broken("directed-alias", f"{type(e).__name__}: {e}\n{traceback.format_exc()[-1500:]}")
    try:
        directed_weighted(run)
        directed_weighted_nd(run)
    except Exception as e:  # noqa
        import traceback
        run.broken("directed-weighted", f"{type(e).__name__}: {e}\n{traceback.format_exc()[-1500:]}")
    toy_histories(run, 6000 if thorough else 1500, n_weighted=1600 if thorough else 400, n_nd=1000 if thorough else 250)
    if thorough:
        exhaustive_diamond(run, 3)
    kinds = [("logistic", {}), ("logistic", dict(source_dimension=2))]
    if thorough:
        kinds += [("linear", {}), ("shared_speed_logistic", {}), ("logistic", dict(noise="gaussian-diagonal")), ("joint", {}), ("mixture_logistic", {})]
    try:
        shipped_states(run, kinds)
    except Exception as e:  # noqa
        run.broken("shipped-states-oracle", f"{type(e).__name__}: {e}")
    try:
        shipped_alias(run, kinds)
    except Exception as e:  # noqa
        import traceback
        run.broken("shipped-alias-oracle", f"{type(e).__name__}: {e}\n{traceback.format_exc()[-1500:]}")
    return run.finish()


def replay(run: Run, path: str):
    from harness.common import use_impl
    use_impl()
    d = json.load(open(path))
    inp = d.get("input") or {}
    if inp.get("kind") == "weighted-nd":
        r = weighted_nd_case(inp["delta"], inp["mask"])
        print(f"since_onset = WeightedTensor(t - tau, weight=(t >= tau)); tau += {inp['delta']}; revert(mask={inp['mask']}):",
              "every read is the from-scratch value" if r is None else f"STALE node {r[0]}\n expected {r[1]}\n observed {r[2]}")
        print("REPLAY", "FAILS" if r else "passes")
        return 1 if r else 0
    if "graph" not in inp:
        print("replay: no toy history recorded in this file (broken obligation or shipped-model history); re-running the check")
        return main(run)
    fx, mix = settle_variant(run)
    print(f"State.__setitem__ of this tree: {run.extra['setitem_variant']}")
    print(f"State.revert(subset) of this tree: {run.extra['revert_mix_variant']}")
    G = T.ToyGraph.from_json(inp["graph"])
    G.build()
    s = T.run_ops(G, inp["ops"], fx=FX)
    for (op, out, ok) in s.records:
        print(f"  {op}  ->  {out}{'' if ok else '   [outside the discipline]'}")
    bad = [m for m in s.mismatches if "mask" not in m["taint"]]
    for m in bad[:3]:
        print(f"STALE after step {m['step']}: state {m['state']} node {m['node']}: read {m['observed']} but a fresh state gives {m['expected']}" + ("  (an independent variable the operation did not assign; expected = its value, cloned, before the operation)" if "alias-effect" in m["taint"] else ""))
    scope_bad = False
    if is_scoped(s):
        print("  trace (one entry per primitive event; 'seen' = auto_fork_type and _last_fork just inside / just after a block, or at a look):")
        for obs, ok in s.events:
            print("    ", list(obs)[0], json.dumps(list(obs)[1:], default=str))
        for v in s.scope_violations:
            scope_bad = True
            print(f"SCOPE: after the block of step {v['step']} on state {v['state']} auto_fork_type is {v['observed']}, it was {v['expected']} before the block")
        ref = T.run_ops(G, inp["ops"], fx=FX, oracle=False, scope="reference")
        d = first_result_difference(s, ref)
        if d is not None:
            scope_bad = True
            print(f"SCOPE: with the documented scoping (previous mode always put back) event {d['event']} is {d['expected']}, this tree gives {d['observed']}")
        elif ref.events != s.events:
            scope_bad = True
            print("SCOPE: the bookkeeping (auto_fork_type / _last_fork) differs from the documented scoping")
    h2, t2, c2, _, _ = group_spec(group_of(s))
    r = run.vm_bad_indices("replay", h2, t2, [case_literal(s)], c2)
    for a in s.alias_violations:
        scope_bad = True
        print(f"ALIAS: the clone made at step {a['step']} shares with its source: {a['shared']}")
    print(f"model (fx = {'true' if FX else 'false'}, {'nsem' if G.nd else 'wsem_where' if G.weighted else SEM[MIX]}) agrees with the implementation on this history:", r == [])
    if fx != CLAIMED_FX:
        print("the theorems of Props/C01.v are about fx = true: they do not speak about this tree")
    if mix is None:
        print("the rule of State.revert(subset) of this tree was not recognised (neither the row-wise selection of values AND weights of the "
              "tie of Props/C01.v, nor the blend of the code before fe0cadd)")
    elif mix != CLAIMED_MIX:
        print("the tie of Props/C01.v is made with xsem_where: this tree does not select in State.revert(subset)")
    wrong = bool(bad or r or scope_bad or fx != CLAIMED_FX or mix != CLAIMED_MIX)
    print("REPLAY", "FAILS" if wrong else "passes")
    return 1 if wrong else 0
