"""C01 — values read from the lazily cached variable graph are never stale."""
from __future__ import annotations

import itertools
import json

from harness.common import Run
from harness.props import state_toy as T

META = dict(
    technique="Coq theorems (invariant of the cache + undo log, preserved by every State operation; induction over the history) "
              "on a line-by-line model of state.py; the model's executable step function is run inside Coq (vm_compute) on the "
              "same operation histories as the real State and compared result by result; from-scratch oracle on the implementation",
    level_text="For every value type, every well-formed graph, every history of get/set/put/revert/partial revert/clone/mode "
               "switch/precompute/clear on any number of states: a successful read is the from-scratch evaluation of the current "
               "independent values, a read fails (input error) iff that evaluation needs an unset independent value, reads are "
               "transparent, states do not interfere. Proved for the code as it is under one extra clause (no un-forked assignment "
               "while a fork is pending: finding F1, refuted with a witness) and without it for the code with the one-line repair.",
    level_note="Trusted: Coq kernel (no axioms: all theorems closed under the global context); the hand-written model's tie is the "
               "executed correspondence (toy graphs built as real LinkedVariables), not a translation; graph well-formedness is a "
               "hypothesis (C15) checked by vm_compute on every graph used; F_mix (row-wise node functions) is a hypothesis for "
               "partial reverts; torch kernels, deepcopy, REF-mode aliasing under in-place mutation are outside the model.",
    design_ref="DESIGN.md section 4 C01, section 6 F1",
)

OBLIGATIONS = [
    "C01_never_stale", "C01_never_stale_partial", "C01_never_stale_repaired", "C01_fork_mode_switch_refuted",
    "C01_unset_is_error", "C01_read_is_scratch", "C01_get_transparent", "C01_clone_isolated", "C01_clone_copies", "C01_examples",
]

# False = the model of the code as it is.  Flip to True once the repair of F1 (fixes/fork-mode-switch-stale-revert.diff) is in.
FX = False

HEADER = ("From Coq Require Import ZArith List Bool.\nFrom Leaspy Require Import State.StateModel State.StateExec.\n"
          "Import ListNotations.\nOpen Scope Z_scope.\nOpen Scope nat_scope.\n")
CASE_TYPE = "list nspec * list (xop * out xval * bool)"

F1_SIG = "fork-mode-switch-stale-revert"


def classify(run: Run, G, sess, what_prefix=""):
    """Turn the oracle mismatches of one session into failures (or known findings / misuse counts)."""
    ops = [r[0] for r in sess.records]
    for mm in sess.mismatches[:1]:
        taint = set(mm["taint"])
        if "mask" in taint:
            run.count("oracle", "stale-after-misused-partial-revert (precondition violated, not a failure)")
            continue
        sig = F1_SIG if "unforked" in taint else "stale-read"
        prefix = ops[: mm["step"] + 1]

        def still(cand, _sig=sig):
            s2 = T.run_ops(G, cand, fx=FX)
            return any(("unforked" in m["taint"]) == (_sig == F1_SIG) and "mask" not in m["taint"] for m in s2.mismatches)
        small = T.shrink(G, prefix, still) if len(prefix) <= 60 else prefix
        s3 = T.run_ops(G, small, fx=FX)
        m3 = next((m for m in s3.mismatches if "mask" not in m["taint"]), mm)
        run.count("oracle", sig)
        run.fail(sig, what_prefix + (
            "a revert after an assignment made with auto_fork_type=None restores a stale _last_fork: a cached derived value no longer "
            "matches the independent values" if sig == F1_SIG else
            "a read returns a value different from the from-scratch evaluation on the current independent values"),
            dict(graph=G.to_json(), ops=small, node=m3["node"], state=m3["state"]),
            expected=m3["expected"], observed=m3["observed"])


def correspond(run: Run, name, sessions, metas):
    cases = [s.coq_case() for s in sessions]
    bad = run.vm_bad_indices(name, HEADER, CASE_TYPE, cases, f"(check_case {'true' if FX else 'false'})", shard=150)
    for i in bad or []:
        s = sessions[i]
        ops = [r[0] for r in s.records]
        # locate the first disagreeing operation by bisection on prefixes
        lo, hi = 1, len(ops)
        G = s.G

        def prefix_bad(n):
            s2 = T.run_ops(G, ops[:n], fx=FX, oracle=False)
            r = run.vm_bad_indices(name + "_loc", HEADER, CASE_TYPE, [s2.coq_case()], f"(check_case {'true' if FX else 'false'})")
            return bool(r)
        while lo < hi:
            mid = (lo + hi) // 2
            if prefix_bad(mid):
                hi = mid
            else:
                lo = mid + 1
        op, out, ok = s.records[lo - 1]
        run.fail(f"model-vs-code:{op[0]}", "the State implementation and the Coq model of state.py disagree on the result of an operation "
                 "(or on the cache contents / the discipline flag): the theorems no longer speak about this code",
                 dict(graph=G.to_json(), ops=ops[:lo], **metas[i]), expected="result computed by the model (see coq/tmp)",
                 observed=dict(op=op, out=out, disciplined=ok), kind="broken-correspondence")
    return bad


def toy_histories(run: Run, n_hist):
    sessions, metas = [], []
    for h in range(n_hist):
        rng = run.rng("toy", h)
        malformed = rng.random() < 0.3
        G = T.gen_graph(rng)
        try:
            G.build()
        except Exception as e:  # a generated graph leaspy refuses: not a case
            run.count("graph", f"refused:{type(e).__name__}")
            continue
        s = T.gen_history(rng, G, malformed=malformed)
        ops = [r[0] for r in s.records]
        sessions.append(s)
        metas.append(dict(stream="malformed" if malformed else "valid", case=h))
        run.case(("toy", json.dumps(G.to_json(), sort_keys=True), json.dumps(ops)), nontrivial=T.nontrivial(ops))
        run.count("stream", "malformed" if malformed else "valid")
        run.count("graph_nodes", len(G.order))
        run.count("n_states", len(s.states))
        run.count("history_len", (len(ops) // 10) * 10)
        for op, out, ok in s.records:
            run.count("op", op[0])
            run.count("result", out[0] if out[0] != "err" else "err:" + out[1])
            if not ok:
                run.count("undisciplined_op", op[0])
        for nd in G.nodes:
            run.count("node_kind", nd["kind"] if nd["kind"] != "linked" else "linked:" + nd["fun"][0])
        classify(run, G, s)
        if h in (3, 11):
            run.sample(dict(kind="toy", graph=G.to_json(), history=[dict(op=r[0], out=r[1], disciplined=r[2]) for r in s.records[:25]]))
    correspond(run, "toy", sessions, metas)


def directed(run: Run):
    """The witness of F1 on the real State, and the unit-test usage."""
    G = T.F1_GRAPH
    G.build()
    s = T.run_ops(G, T.F1_OPS, fx=FX)
    run.case(("directed", "F1"), nontrivial=True)
    last = s.records[-1][1]
    run.extra["F1_witness_read"] = last
    classify(run, G, s)
    correspond(run, "f1", [s], [dict(stream="directed-F1", case=0)])
    run.sample(dict(kind="F1 witness on the real State", ops=T.F1_OPS, last_read=last, fresh_value=21))


def exhaustive_diamond(run: Run, max_len):
    """All histories of length <= max_len over a small alphabet on the 4-node diamond (thorough tier)."""
    G = T.DIAMOND
    G.build()
    alphabet = [["get", 0, "d"], ["get", 0, "b"], ["set", 0, "a", [1, 2]], ["put", 0, "a", None, [3, -1], True],
                ["put", 0, "a", 1, 2, True], ["revert", 0], ["revmask", 0, [True, False]], ["mode", 0, "REF"], ["mode", 0, None],
                ["clone", 0, False, True], ["get", 1, "d"], ["set", 1, "a", [0, 5]], ["revert", 1], ["precompute", 0], ["set", 0, "a", None]]
    sessions, metas = [], []
    for L in range(1, max_len + 1):
        for combo in itertools.product(range(len(alphabet)), repeat=L):
            ops = [alphabet[c] for c in combo]
            s = T.run_ops(G, ops, fx=FX)
            for k in range(len(s.states)):
                for n in G.order:
                    s.apply(["isset", k, n])
            sessions.append(s)
            metas.append(dict(stream="exhaustive-diamond", case=len(sessions)))
            run.case(("diamond", combo), nontrivial=T.nontrivial(ops))
            classify(run, G, s)
    run.extra["exhaustive_diamond"] = dict(alphabet=alphabet, max_len=max_len, histories=len(sessions))
    correspond(run, "diamond", sessions, metas)


def shipped_states(run: Run, kinds):
    """Random histories on the real states of fitted shipped models, checked by the from-scratch oracle only."""
    import copy
    import torch
    from harness import synth
    from leaspy.variables.state import State, StateForkType
    from leaspy.variables.specs import IndividualLatentVariable, PopulationLatentVariable
    for kind, kw in kinds:
        try:
            model, _ = synth.fit(kind, n_iter=4, seed=run.seed % 1000, n_ind=8, **kw)
        except Exception as e:  # noqa
            run.count("shipped", f"{kind}: fit failed {type(e).__name__}")
            continue
        st0 = model.state
        dag = st0.dag
        ind_vars = list(dag.sorted_variables_by_type.get(IndividualLatentVariable, {}))
        pop_vars = list(dag.sorted_variables_by_type.get(PopulationLatentVariable, {}))
        settable = [n for n in dag if dag[n].is_settable]
        if not all(st0.is_variable_set(n) for n in ind_vars):
            run.count("shipped", f"{kind}: individual latent variables not in model.state")
            continue
        names = list(dag.sorted_variables_names)

        def fresh_like(st):
            f = State(dag)
            for n in settable:
                v = st._values[n]
                if v is not None:
                    f[n] = v
            return f

        def compare(st, step, hist):
            probe, fresh = T.probe_of(st), fresh_like(st)
            for n in names:
                a, b = [], []
                for s_, o_ in ((probe, a), (fresh, b)):
                    try:
                        o_.append(("ok", s_[n]))
                    except Exception as e:  # noqa
                        o_.append(("err", type(e).__name__))
                a, b = a[0], b[0]
                if a[0] != b[0] or (a[0] == "ok" and not T.same_tensor(a[1], b[1])) or (a[0] == "err" and a[1] != b[1]):
                    run.fail("stale-read:shipped", f"{kind}: after {hist[-1]} the read of '{n}' differs from a fresh state holding the same independent values",
                             dict(kind=kind, options=kw, history=hist, node=n), expected=str(b[1])[:200], observed=str(a[1])[:200])
                    return False
            return True

        rng = run.rng("shipped", kind, json.dumps(kw, sort_keys=True))
        st = st0.clone()
        st.auto_fork_type = StateForkType.REF
        hist = []
        n_ok = 0
        for step in range(14):
            r = rng.random()
            if r < 0.45 and ind_vars:
                v = rng.choice(ind_vars)
                delta = torch.tensor([[rng.choice([-0.5, 0.25, 1.0])] * st[v].shape[1] for _ in range(st[v].shape[0])], dtype=st[v].dtype)
                st.put(v, delta, accumulate=True)
                hist.append(f"put({v}, +delta)")
                for n in rng.sample([m for m in names if m.endswith("_ind") or m in ("rt", "model", "nll_attach_ind")] or names, 2):
                    if n in dag:
                        st[n]
                if rng.random() < 0.5:
                    mask = torch.tensor([rng.random() < 0.5 for _ in range(st[v].shape[0])])
                    st.revert(mask)
                    hist.append(f"revert({[int(x) for x in mask.tolist()]})")
            elif r < 0.8 and pop_vars:
                v = rng.choice(pop_vars)
                cur = st[v]
                idx = tuple(rng.randrange(d) for d in cur.shape)
                st.put(v, torch.tensor(rng.choice([-0.125, 0.25]), dtype=cur.dtype), indices=idx, accumulate=True)
                hist.append(f"put({v}, idx={idx})")
                st[rng.choice(names)]
                if rng.random() < 0.5:
                    st.revert()
                    hist.append("revert()")
            else:
                n = rng.choice(names)
                try:
                    st[n]
                except Exception:  # noqa
                    pass
                hist.append(f"get({n})")
            run.case(("shipped", kind, json.dumps(kw, sort_keys=True), step), nontrivial=True, validated=False)
            if not compare(st, step, hist):
                break
            n_ok += 1
        run.count("shipped", f"{kind}{kw or ''}: {n_ok} operations checked on a {len(names)}-node graph")


def main(run: Run):
    thorough = run.tier == "thorough"
    run.prove("C01", OBLIGATIONS)
    from harness.common import use_impl
    use_impl()
    run.rule = ("random toy DAGs (2-9 nodes: hyper-parameters, population scalars, per-individual vectors, integer affine / "
                "sum-over-individuals nodes with distinct coefficients, int64 or float64) built as real LinkedVariables; random "
                "histories (1-40 ops, 1-3 states) from a grammar with a valid stream (70%: initial assignments, reads, sampler-shaped "
                "put/read/revert steps, clones, mode switches, precompute) and a malformed stream (30%: unset reads, unknown names, "
                "non-settable assignments, reverts without fork, bad indices), every result + a final is_variable_set sweep over all "
                "nodes compared with the model inside Coq; from-scratch oracle after every operation. Non-trivial = the history has a "
                "read after a second assignment to the same state, after a revert or after a clone; distinct by (graph, history).")
    run.explanation = ("The theorems quantify over all graphs/histories/value types of the model; the tie runs the model's own step "
                       "function inside Coq on the histories executed by the real State (results, error classes, cache contents and "
                       "the discipline flags evaluated on the real _last_fork/_values must all agree); the oracle compares every read "
                       "of the implementation with a fresh State holding the same independent values, bit for bit.")
    run.assumptions += [
        "WF g: ancestors/children delivered by dag.py are the transitive closures in topological order (C15); recomputed by wf_b on every graph of the tie",
        "F_mix: node functions of per-individual nodes act row by row (C07); only used for histories containing a partial revert",
        "Disciplined: partial reverts only while every doubly cached node of the forked sub-graph carries the individual axis (documented precondition)",
        f"model flag clear_fork_on_unforked_set = {FX} (the code as it is)" if not FX else "model flag clear_fork_on_unforked_set = True (repaired code)",
    ]
    run.trusted += ["harness/props/state_toy.py: toy-graph builder, executor and canonicalisation of results (exact integers / inf / nan)",
                    "torch element-wise kernels, index_put, deepcopy (modelled, not verified)"]
    directed(run)
    toy_histories(run, 6000 if thorough else 1500)
    if thorough:
        exhaustive_diamond(run, 3)
    kinds = [("logistic", {}), ("logistic", dict(source_dimension=2))]
    if thorough:
        kinds += [("linear", {}), ("shared_speed_logistic", {}), ("logistic", dict(noise="gaussian-diagonal")), ("joint", {}), ("mixture_logistic", {})]
    try:
        shipped_states(run, kinds)
    except Exception as e:  # noqa
        run.broken("shipped-states-oracle", f"{type(e).__name__}: {e}")
    return run.finish()


def replay(run: Run, path: str):
    from harness.common import use_impl
    use_impl()
    d = json.load(open(path))
    inp = d.get("input") or {}
    if "graph" not in inp:
        print("replay: no toy history recorded in this file (broken obligation or shipped-model history); re-running the check")
        return main(run)
    G = T.ToyGraph.from_json(inp["graph"])
    G.build()
    s = T.run_ops(G, inp["ops"], fx=FX)
    for (op, out, ok) in s.records:
        print(f"  {op}  ->  {out}{'' if ok else '   [outside the discipline]'}")
    bad = [m for m in s.mismatches if "mask" not in m["taint"]]
    for m in bad[:3]:
        print(f"STALE after step {m['step']}: state {m['state']} node {m['node']}: read {m['observed']} but a fresh state gives {m['expected']}")
    r = run.vm_bad_indices("replay", HEADER, CASE_TYPE, [s.coq_case()], f"(check_case {'true' if FX else 'false'})")
    print("model agrees with the implementation on this history:", r == [])
    print("REPLAY", "FAILS" if (bad or r) else "passes")
    return 1 if (bad or r) else 0
