"""C01 — values read from the lazily cached variable graph are never stale."""
from __future__ import annotations

import itertools
import json
import re

from harness.common import Run
from harness.props import state_toy as T

META = dict(
    technique="Coq theorems (invariant of the cache + undo log, preserved by every State operation; induction over the history) "
              "on a line-by-line model of state.py; the model's executable step function is run inside Coq (vm_compute) on the "
              "same operation histories as the real State and compared result by result; from-scratch oracle on the implementation; "
              "the fork rule of State.__setitem__ and the combination rule of State.revert(subset) are recognised on every run (source "
              "shape + probes on a real State, fail closed) and select the executable instance of the tie",
    level_text="For every value type, every well-formed graph, every history of get/set/put/revert/partial revert/clone/mode "
               "switch/precompute/clear on any number of states: a successful read is the from-scratch evaluation of the current "
               "independent values, a read fails (input error) iff that evaluation needs an unset independent value, reads are "
               "transparent, states do not interfere. Proved in full for the code as it is (since 27ac519 an assignment made with "
               "auto-fork off drops the pending fork): the only hypothesis on a history is the documented precondition of "
               "per-individual reverts, and none at all for histories of full reverts.",
    level_note="Trusted: Coq kernel (no axioms: all theorems closed under the global context); the hand-written model's tie is the "
               "executed correspondence (toy graphs built as real LinkedVariables), not a translation; graph well-formedness is a "
               "hypothesis of the generic theorems, PROVED from C15's theorems for every graph built by the modelled DAG constructor "
               "(C01_built_graph_wf; the C01_*_built theorems have no graph hypothesis, and C01_read_by_name_built characterises reads by "
               "NAME, independently of the order) and recomputed by vm_compute on every graph used incl. all shipped graph literals; "
               "F_mix (row-wise node functions) is only needed for partial reverts (C01_never_stale_full_reverts_nomix), proved for "
               "the op-kind node functions of C07 with any number of parents (C02_F_mix_opkinds) and for one-parent entry-wise toy nodes "
               "(C02_F_mix_entrywise), a hypothesis for other functions; exercised incl. +-inf/NaN by the tie and the oracle; torch kernels, deepcopy, REF-mode aliasing under in-place mutation are outside the model. "
               "Former finding F1 (fork-mode-switch-stale-revert) is fixed by 27ac519 and the blend of partial reverts (F2 of C02) by "
               "fe0cadd; a tree whose __setitem__ keeps the fork on an un-forked assignment, or whose revert(subset) blends, is reported "
               "as a violation with the stale-read history as replay.",
    design_ref="DESIGN.md section 4 C01, section 6 F1",
)

OBLIGATIONS = [
    "C01_never_stale", "C01_never_stale_full_reverts", "C01_unset_is_error", "C01_read_is_scratch", "C01_unforked_set_drops_fork",
    "C01_get_transparent", "C01_clone_isolated", "C01_clone_copies", "C01_examples",
    # composition with C15 (graph hypothesis WF discharged for every graph the modelled DAG constructor builds; reads characterised
    # by name, independently of the order) and with C07 (F_mix from the op-kind semantics): coq/theories/Compose, docs/Compose.md
    "C01_built_graph_wf", "C01_accepted_defs_have_wf_graph", "C01_never_stale_built", "C01_never_stale_full_reverts_built",
    "C01_never_stale_full_reverts_nomix", "C01_scratch_is_by_name", "C01_read_by_name_built",
    "C01_read_by_name_full_reverts_built", "C01_never_stale_opkinds_built", "C01_compose_examples",
    "C01_reads_are_C07_eval", "C01_reads_row_local", "C01_reads_eval_example",
]

# The model variant the theorems of Props/C01.v are about (State/StateNow.v): True = State.__setitem__ as it is since 27ac519
# (an assignment made while auto_fork_type is None forgets _last_fork).
CLAIMED_FX = True
# The variant the tree under test really has; set by `settle_variant` from T.detect_setitem_variant() on every run.  The tie and
# the discipline flags are computed for THIS variant, so that a tree that has lost the repair is reported through the stale
# read it produces (signature F1_SIG, a violation) and not as a flood of model-vs-code mismatches.
FX = CLAIMED_FX
# Same for the rule of the per-individual revert: "where" = torch.where(mask, old, cur) (since fe0cadd; Coq instance xsem_where),
# "blend" = old*mask + cur*~mask (before; xsem).  The theorems are generic in the rule (hypothesis F_mix); the executable instance
# of the tie is the one the tree under test has, and a tree that blends is reported through the stale NaN it produces.
CLAIMED_MIX = "where"
MIX = CLAIMED_MIX
SEM = {"where": "xsem_where", "blend": "xsem"}
F2_SIG = "partial-revert-nonfinite-stale"


def checker():
    return f"(check_case_with {SEM[MIX]} {'true' if FX else 'false'})"

HEADER = ("From Coq Require Import ZArith List Bool.\nFrom Leaspy Require Import State.StateModel State.StateExec.\n"
          "Import ListNotations.\nOpen Scope Z_scope.\nOpen Scope nat_scope.\n")
CASE_TYPE = "list nspec * list (xop * out xval * bool)"

F1_SIG = "fork-mode-switch-stale-revert"


def settle_variant(run: Run):
    """Recognise the fork rule of the tree under test (fail closed) and set FX."""
    global FX
    fx, detail = T.detect_setitem_variant()
    run.extra["setitem_variant"] = detail
    if fx is None:
        FX = CLAIMED_FX
        run.broken("translate:State.__setitem__", "the fork rule of State.__setitem__ was not recognised (source shape and probes on a real "
                   f"State must agree): {json.dumps(detail, default=str)}", kind="broken-translation")
    else:
        FX = fx
        if fx != CLAIMED_FX:
            run.broken("tie:State.__setitem__", "State.__setitem__ of the tree under test keeps _last_fork when a value is assigned with "
                       "auto_fork_type=None (the rule before 27ac519): the theorems of Props/C01.v are about the rule that drops it and "
                       "do not speak about this code.  The tie of this run is made against the model variant fx=false so that the "
                       "search reports the stale read itself.", kind="broken-correspondence")
    global MIX
    mix, mdetail = T.detect_revert_mix_variant()
    run.extra["revert_mix_variant"] = mdetail
    if mix is None:
        MIX = CLAIMED_MIX
        run.broken("translate:State.revert", "the rule combining forked and current values in State.revert(subset) was not recognised "
                   f"(source shape and probes on a real State must agree): {json.dumps(mdetail, default=str)}", kind="broken-translation")
    else:
        MIX = mix
        if mix != CLAIMED_MIX:
            run.broken("tie:State.revert", "State.revert(subset) of the tree under test blends (old*mask + cur*~mask, the rule before fe0cadd): "
                       "a non-finite value on the discarded side leaks into the kept one, F_mix does not hold for non-finite values and the "
                       "examples of Props/C01.v (xsem_where) do not describe this code.  The tie of this run is made against xsem so that the "
                       "search reports the stale read itself.", kind="broken-correspondence")
    run.count("revert_mix_variant", {"where": "selects: torch.where(mask, old, cur) (since fe0cadd)",
                                     "blend": "blends: old*mask + cur*~mask (before fe0cadd)", None: "not recognised"}[mix])
    run.count("setitem_variant", {True: "drops the fork on an un-forked assignment (since 27ac519)",
                                  False: "keeps the fork on an un-forked assignment (before 27ac519)", None: "not recognised"}[fx])
    return fx, mix


def classify(run: Run, G, sess, what_prefix=""):
    """Turn the oracle mismatches of one session into failures (or known findings / misuse counts)."""
    ops = [r[0] for r in sess.records]
    for mm in sess.mismatches[:1]:
        taint = set(mm["taint"])
        if "mask" in taint:
            run.count("oracle", "stale-after-misused-partial-revert (precondition violated, not a failure)")
            continue
        sig = F1_SIG if "unforked" in taint else F2_SIG if ("nonfinite-mask" in taint and MIX != CLAIMED_MIX) else "stale-read"
        prefix = ops[: mm["step"] + 1]

        def still(cand, _sig=sig):
            s2 = T.run_ops(G, cand, fx=FX)
            return any(("unforked" in m["taint"]) == (_sig == F1_SIG) and ("nonfinite-mask" in m["taint"] or _sig != F2_SIG)
                       and "mask" not in m["taint"] for m in s2.mismatches)
        small = T.shrink(G, prefix, still) if len(prefix) <= 60 else prefix
        s3 = T.run_ops(G, small, fx=FX)
        m3 = next((m for m in s3.mismatches if "mask" not in m["taint"]), mm)
        # end the replay with the stale read itself (the oracle found it by reading every node after the last operation)
        if small[-1] != ["get", m3["state"], m3["node"]]:
            s4 = T.run_ops(G, small + [["get", m3["state"], m3["node"]]], fx=FX)
            if any(m["step"] == len(small) and m["node"] == m3["node"] for m in s4.mismatches):
                small = small + [["get", m3["state"], m3["node"]]]
        run.count("oracle", sig)
        run.fail(sig, what_prefix + (
            "a revert after an assignment made with auto_fork_type=None restores a stale _last_fork: a cached derived value no longer "
            "matches the independent values" if sig == F1_SIG else
            "a per-individual revert applied while a cached value of the discarded side is inf/NaN leaves NaN in the kept rows of a cached "
            "derived value (old*mask + cur*~mask is not a selection): the read differs from the from-scratch evaluation" if sig == F2_SIG else
            "a read returns a value different from the from-scratch evaluation on the current independent values"),
            dict(graph=G.to_json(), ops=small, node=m3["node"], state=m3["state"]),
            expected=m3["expected"], observed=m3["observed"])


def correspond(run: Run, name, sessions, metas):
    cases = [s.coq_case() for s in sessions]
    bad = run.vm_bad_indices(name, HEADER, CASE_TYPE, cases, checker(), shard=150)
    # localise the first disagreeing operation on the shortest disagreeing histories only (each bisection step is a coqc call)
    todo = sorted(bad or [], key=lambda i: len(sessions[i].records))
    if len(todo) > 6:
        run.count("tie", f"{name}: disagreeing histories beyond the 6 shortest (not localised)", len(todo) - 6)
    for i in todo[:6]:
        s = sessions[i]
        ops = [r[0] for r in s.records]
        # locate the first disagreeing operation by bisection on prefixes
        lo, hi = 1, len(ops)
        G = s.G

        def prefix_bad(n):
            s2 = T.run_ops(G, ops[:n], fx=FX, oracle=False)
            r = run.vm_bad_indices(name + "_loc", HEADER, CASE_TYPE, [s2.coq_case()], checker())
            return bool(r)
        while lo < hi:
            mid = (lo + hi) // 2
            if prefix_bad(mid):
                hi = mid
            else:
                lo = mid + 1
        op, out, ok = s.records[lo - 1]
        run.fail(f"model-vs-code:{op[0]}", "the State implementation and the Coq model of state.py disagree on the result of an operation "
                 "(or on the cache contents / the discipline flag): the theorems no longer speak about this code",
                 dict(graph=G.to_json(), ops=ops[:lo], **metas[i]), expected="result computed by the model (see coq/tmp)",
                 observed=dict(op=op, out=out, disciplined=ok), kind="broken-correspondence")
    return bad


def count_f1_shape(run: Run, s, acc):
    """Histories of the shape of the former finding F1, measured on the real states: an assignment made with auto-fork off
    while a fork is pending, then a revert on that state, then reads."""
    kinds = {e["kind"] for e in s.f1_events}
    if "unforked-set-over-pending-fork" in kinds:
        acc["histories_with_unforked_assignment_over_pending_fork"] += 1
    if "revert-after" in kinds:
        acc["histories_with_revert_after_it"] += 1
    if "read-after-revert" in kinds:
        acc["histories_with_read_after_that_revert"] += 1
    for e in s.f1_events:
        if e["kind"] == "revert-after":
            op = s.records[e["step"]][0][0]
            out = e["out"]
            key = f"{op} -> " + (out[0] if out[0] != "err" else "err:" + out[1])
            acc["revert_outcomes"][key] = acc["revert_outcomes"].get(key, 0) + 1
            run.count("revert_after_unforked_assignment_over_pending_fork", key)
        elif e["kind"] == "read-after-revert":
            acc["reads_after_that_revert"] += 1


def toy_histories(run: Run, n_hist):
    sessions, metas = [], []
    f1 = dict(histories_with_unforked_assignment_over_pending_fork=0, histories_with_revert_after_it=0,
              histories_with_read_after_that_revert=0, reads_after_that_revert=0, revert_outcomes={})
    for h in range(n_hist):
        rng = run.rng("toy", h)
        malformed = rng.random() < 0.3
        G = T.gen_graph(rng)
        G.nonfinite = G.dtype == "float64" and rng.random() < 0.5   # +-inf among the assigned values (NaN follows from inf - inf)
        try:
            G.build()
        except Exception as e:  # a generated graph leaspy refuses: not a case
            run.count("graph", f"refused:{type(e).__name__}")
            continue
        s = T.gen_history(rng, G, malformed=malformed, fx=FX)
        ops = [r[0] for r in s.records]
        count_f1_shape(run, s, f1)
        run.count("values", "float64 with +-inf/NaN" if G.nonfinite else G.dtype + " finite")
        if s.nonfinite_masks:
            run.count("partial_reverts_over_nonfinite_cached_values", "histories")
            run.count("partial_reverts_over_nonfinite_cached_values", "reverts", s.nonfinite_masks)
        sessions.append(s)
        metas.append(dict(stream="malformed" if malformed else "valid", case=h))
        run.case(("toy", json.dumps(G.to_json(), sort_keys=True), json.dumps(ops)), nontrivial=T.nontrivial(ops))
        run.count("stream", "malformed" if malformed else "valid")
        run.count("graph_nodes", len(G.order))
        run.count("n_states", len(s.states))
        run.count("history_len", (len(ops) // 10) * 10)
        for op, out, ok in s.records:
            run.count("op", op[0])
            run.count("result", out[0] if out[0] != "err" else "err:" + out[1])
            if not ok:
                run.count("undisciplined_op", op[0])
        for nd in G.nodes:
            run.count("node_kind", nd["kind"] if nd["kind"] != "linked" else "linked:" + nd["fun"][0])
        classify(run, G, s)
        if h in (3, 11):
            run.sample(dict(kind="toy", graph=G.to_json(), history=[dict(op=r[0], out=r[1], disciplined=r[2]) for r in s.records[:25]]))
    f1["note"] = ("legal since 27ac519: the revert must be refused with the input error 'no fork to revert from' (err:input) and every "
                  "later read must be fresh; before 27ac519 the revert succeeded (done) and restored a stale undo log")
    run.extra["f1_shaped_toy_histories"] = f1
    if FX == CLAIMED_FX and f1["histories_with_read_after_that_revert"] < max(5, n_hist // 100):
        run.broken("generator:f1-shape", f"the toy-history generator produced too few histories of the F1 shape: {f1}", kind="broken-correspondence")
    correspond(run, "toy", sessions, metas)


def directed(run: Run):
    """The history of the former finding F1 on the real State: c = a + b; fork REF; a=1, b=10; read c; a=2; auto_fork_type=None;
    b=20; revert(); read c.  Since 27ac519: the revert is refused and the read is 22.  Before: the revert restores a=1 and the
    cached c=11 although b=20 (fresh: 21) — reported by the oracle under F1_SIG (a violation: the finding is listed as fixed)."""
    G = T.F1_GRAPH
    G.build()
    s = T.run_ops(G, T.F1_OPS, fx=FX)
    run.case(("directed", "F1"), nontrivial=True)
    revert_out, last = s.records[-2][1], s.records[-1][1]
    run.extra["F1_history_on_this_tree"] = dict(ops=T.F1_OPS, revert=revert_out, last_read=last,
                                                since_27ac519=dict(revert=["err", "input"], last_read=["ok", 22]),
                                                before_27ac519=dict(revert=["done"], last_read=["ok", 11], fresh=21))
    n0 = len(run._fails)
    classify(run, G, s)
    if FX != CLAIMED_FX and len(run._fails) == n0:
        # fail closed: the tree was recognised as un-repaired but the history of F1 did not produce the stale read
        run.broken("oracle:F1-history", f"un-repaired __setitem__ recognised but the F1 history read {last} after revert -> {revert_out}", kind="broken-correspondence")
    correspond(run, "f1", [s], [dict(stream="directed-F1", case=0)])
    run.sample(dict(kind="history of the former finding F1 on the real State", ops=T.F1_OPS, revert=revert_out, last_read=last))


def directed_nonfinite(run: Run):
    """y = log2 x per individual; x = [1,2]; read y; x += [-2,2]; read y = [NaN,2]; reject individual 0; read y.  Since fe0cadd the
    selection leaves y = [0,2] (fresh for x = [1,4]); before, the blend left y = [NaN,2] (finding F2 of C02, here a stale read).
    Then every mask on that history and on an affine one with inf."""
    G = T.F2_GRAPH
    G.build()
    s = T.run_ops(G, T.F2_OPS, fx=FX)
    run.case(("directed", "F2"), nontrivial=True)
    last = s.records[-1][1]
    run.extra["F2_history_on_this_tree"] = dict(ops=T.F2_OPS, last_read=last, since_fe0cadd=["ok", [0, 2]], before_fe0cadd=["ok", ["nan", 2]])
    n0 = len(run._fails)
    classify(run, G, s)
    if MIX != CLAIMED_MIX and len(run._fails) == n0:
        run.broken("oracle:F2-history", f"blending State.revert recognised but the F2 history read {last}", kind="broken-correspondence")
    sessions, metas = [s], [dict(stream="directed-F2", case=0)]
    G2 = T.ToyGraph([dict(name="x", kind="ind", parents=[]), dict(name="p", kind="pop", parents=[]),
                     dict(name="c", kind="linked", parents=["x", "p"], fun=["affine", 1, [2, -3]]),
                     dict(name="t", kind="linked", parents=["c"], fun=["sum", 0, [1]])], 2, "float64")
    G2.build()
    for mask in ([True, False], [False, True], [True, True], [False, False]):
        for tgt in (["inf", 3], [4, "-inf"], ["inf", "-inf"]):
            ops = [["mode", 0, "COPY"], ["set", 0, "p", 1], ["set", 0, "x", [1, 2]], ["get", 0, "c"], ["set", 0, "x", tgt], ["get", 0, "c"],
                   ["revmask", 0, mask], ["get", 0, "c"], ["get", 0, "t"]]
            s2 = T.run_ops(G2, ops, fx=FX)
            run.case(("directed", "inf", tuple(mask), tuple(tgt)), nontrivial=True)
            classify(run, G2, s2)
            sessions.append(s2)
            metas.append(dict(stream="directed-inf", case=len(sessions)))
        for tgt in ([-1, 4], [0, 8], [4, -2]):
            ops = T.F2_OPS[:3] + [["set", 0, "x", tgt], ["get", 0, "y"], ["revmask", 0, mask], ["get", 0, "y"]]
            s2 = T.run_ops(G, ops, fx=FX)
            run.case(("directed", "log", tuple(mask), tuple(tgt)), nontrivial=True)
            classify(run, G, s2)
            sessions.append(s2)
            metas.append(dict(stream="directed-log", case=len(sessions)))
    correspond(run, "nonfinite", sessions, metas)
    run.sample(dict(kind="partial revert over a NaN discarded side on the real State", ops=T.F2_OPS, last_read=last))


def exhaustive_diamond(run: Run, max_len):
    """All histories of length <= max_len over a small alphabet on the 4-node diamond (thorough tier)."""
    G = T.DIAMOND
    G.build()
    alphabet = [["get", 0, "d"], ["get", 0, "b"], ["set", 0, "a", [1, 2]], ["put", 0, "a", None, [3, -1], True],
                ["put", 0, "a", 1, 2, True], ["revert", 0], ["revmask", 0, [True, False]], ["mode", 0, "REF"], ["mode", 0, None],
                ["clone", 0, False, True], ["get", 1, "d"], ["set", 1, "a", [0, 5]], ["revert", 1], ["precompute", 0], ["set", 0, "a", None]]
    sessions, metas = [], []
    for L in range(1, max_len + 1):
        for combo in itertools.product(range(len(alphabet)), repeat=L):
            ops = [alphabet[c] for c in combo]
            s = T.run_ops(G, ops, fx=FX)
            for k in range(len(s.states)):
                for n in G.order:
                    s.apply(["isset", k, n])
            sessions.append(s)
            metas.append(dict(stream="exhaustive-diamond", case=len(sessions)))
            run.case(("diamond", combo), nontrivial=T.nontrivial(ops))
            classify(run, G, s)
    run.extra["exhaustive_diamond"] = dict(alphabet=alphabet, max_len=max_len, histories=len(sessions))
    correspond(run, "diamond", sessions, metas)


def shipped_states(run: Run, kinds):
    """Random histories on the real states of fitted shipped models, checked by the from-scratch oracle only."""
    import copy
    import torch
    from harness import synth
    from leaspy.variables.state import State, StateForkType
    from leaspy.variables.specs import IndividualLatentVariable, PopulationLatentVariable
    for kind, kw in kinds:
        try:
            model, _ = synth.fit(kind, n_iter=4, seed=run.seed % 1000, n_ind=8, **kw)
        except Exception as e:  # noqa
            run.count("shipped", f"{kind}: fit failed {type(e).__name__}")
            continue
        st0 = model.state
        dag = st0.dag
        ind_vars = list(dag.sorted_variables_by_type.get(IndividualLatentVariable, {}))
        pop_vars = list(dag.sorted_variables_by_type.get(PopulationLatentVariable, {}))
        settable = [n for n in dag if dag[n].is_settable]
        if not all(st0.is_variable_set(n) for n in ind_vars):
            run.count("shipped", f"{kind}: individual latent variables not in model.state")
            continue
        names = list(dag.sorted_variables_names)

        def fresh_like(st):
            f = State(dag)
            for n in settable:
                v = st._values[n]
                if v is not None:
                    f[n] = v
            return f

        def compare(st, step, hist):
            probe, fresh = T.probe_of(st), fresh_like(st)
            for n in names:
                a, b = [], []
                for s_, o_ in ((probe, a), (fresh, b)):
                    try:
                        o_.append(("ok", s_[n]))
                    except Exception as e:  # noqa
                        o_.append(("err", type(e).__name__))
                a, b = a[0], b[0]
                if a[0] != b[0] or (a[0] == "ok" and not T.same_tensor(a[1], b[1])) or (a[0] == "err" and a[1] != b[1]):
                    run.fail("stale-read:shipped", f"{kind}: after {hist[-1]} the read of '{n}' differs from a fresh state holding the same independent values",
                             dict(kind=kind, options=kw, history=hist, node=n), expected=str(b[1])[:200], observed=str(a[1])[:200])
                    return False
            return True

        rng = run.rng("shipped", kind, json.dumps(kw, sort_keys=True))
        st = st0.clone()
        st.auto_fork_type = StateForkType.REF
        hist = []
        n_ok = 0
        for step in range(14):
            r = rng.random()
            if r < 0.45 and ind_vars:
                v = rng.choice(ind_vars)
                delta = torch.tensor([[rng.choice([-0.5, 0.25, 1.0])] * st[v].shape[1] for _ in range(st[v].shape[0])], dtype=st[v].dtype)
                st.put(v, delta, accumulate=True)
                hist.append(f"put({v}, +delta)")
                for n in rng.sample([m for m in names if m.endswith("_ind") or m in ("rt", "model", "nll_attach_ind")] or names, 2):
                    if n in dag:
                        st[n]
                if rng.random() < 0.5:
                    mask = torch.tensor([rng.random() < 0.5 for _ in range(st[v].shape[0])])
                    st.revert(mask)
                    hist.append(f"revert({[int(x) for x in mask.tolist()]})")
            elif r < 0.8 and pop_vars:
                v = rng.choice(pop_vars)
                cur = st[v]
                idx = tuple(rng.randrange(d) for d in cur.shape)
                st.put(v, torch.tensor(rng.choice([-0.125, 0.25]), dtype=cur.dtype), indices=idx, accumulate=True)
                hist.append(f"put({v}, idx={idx})")
                st[rng.choice(names)]
                if rng.random() < 0.5:
                    st.revert()
                    hist.append("revert()")
            else:
                n = rng.choice(names)
                try:
                    st[n]
                except Exception:  # noqa
                    pass
                hist.append(f"get({n})")
            run.case(("shipped", kind, json.dumps(kw, sort_keys=True), step), nontrivial=True, validated=False)
            if not compare(st, step, hist):
                break
            n_ok += 1
        run.count("shipped", f"{kind}{kw or ''}: {n_ok} operations checked on a {len(names)}-node graph")


COMPOSE_HDR = ("From Coq Require Import List.\nFrom Leaspy Require Dag.DagModel Locality.Shipped.\n"
               "From Leaspy Require Import Dag.GraphLit Compose.ShippedCheck.\nFrom LeaspyGen Require GenGraphs GenC07.\n"
               "Import ListNotations.\n")


def compose_shipped_tie(run: Run):
    """Composition C15/C07 -> C01/C02 on the graphs the tree under test builds TODAY: regenerate both families of graph literals from
    the running code (coq/gen/GenGraphs.v: 31 model configurations; coq/gen/GenC07.v: the individual-axis literals), then rebuild
    coq/theories/Compose/ShippedTie.v, whose theorems are closed by vm_compute: every literal's definitions are accepted by the
    modelled DAG constructor with the order the implementation computed, the bridged State graph passes the boolean WF check, the
    axis literals are well typed and satisfy the closure condition of the partial-revert theorems for every (individual latent
    variable, per-individual term) pair.  Fail closed: a translation or build failure marks the run broken; the failing literals are
    then localised by evaluating the same checks graph by graph."""
    from harness import common
    from harness.translate import graphs as tgraphs
    from harness.props import c07
    info = dict(file="coq/theories/Compose/ShippedTie.v",
                theorems=["shipped_graphs_bridge", "shipped_graphs_accepted", "shipped_axis_graphs_bridge", "shipped_axis_graphs_accepted"])
    run.extra["compose_shipped_tie"] = info
    graphs = tgraphs.write_gen(run)                      # marks the run broken itself when the translation fails
    ok7 = False
    axis = []
    try:
        ok7 = c07.translate(run)                         # idem (one broken entry per configuration that does not translate)
        axis = [g for g in (c07.shipped_graphs(run) or []) if g]
    except Exception as e:  # noqa
        run.broken("translate:GenC07", f"{type(e).__name__}: {e}", kind="broken-translation")
    if graphs is None or not ok7:
        info["status"] = "graph literals not regenerated"
        return
    run.forbid_scan()
    ok, out = common.make(["theories/Compose/ShippedTie.vo"])
    run.checker_cmds.append("make -C coq -j16 theories/Compose/ShippedTie.vo  (vm_compute on every regenerated graph literal)")
    info.update(graph_literals=len(graphs), graph_literal_nodes=sum(len(g["names"]) for g in graphs),
                graph_literal_linked_nodes=sum(1 for g in graphs for c in g["classes"] if c == "LinkedVariable"),
                axis_literals=len(axis), axis_literal_nodes=sum(len(g["nodes"]) for g in axis),
                latent_term_pairs_checked_for_axis_read_ok=sum(len(g["latents"]) * len(g["ind_terms"]) for g in axis),
                checks_per_graph_literal="definitions reproduce direct_ancestors; DagModel.build accepts them; order = sorted_variables_names of "
                                         "the implementation; wf_gb (graph_of_build ...) = true",
                checks_per_axis_literal="well_typed; DagModel.build accepts the definitions; order = the implementation's; wf_gb; every individual "
                                        "latent variable is settable and per-individual; axis_read_ok_b for every (latent, per-individual term) pair")
    for g in graphs:
        run.count("compose_graph_literal_nodes", (len(g["names"]) // 10) * 10)
    if ok:
        info["status"] = "all literals pass (theorems closed by vm_compute)"
        run.count("compose_shipped_tie", "graph literals bridged (build accepts, order agrees, wf_gb)", len(graphs))
        run.count("compose_shipped_tie", "axis literals bridged (well_typed, build accepts, wf_gb, axis_read_ok_b)", len(axis))
        return
    # localise: which literal fails which check
    bad1 = run.vm_bad_indices("compose_graphs", COMPOSE_HDR, "shipped_graph", [f"GenGraphs.g_{g['label']}" for g in graphs], "sg_check")
    bad2 = run.vm_bad_indices("compose_axis", COMPOSE_HDR, "Shipped.shipped_graph", [f"GenC07.s_{g['name']}" for g in axis], "ax_check")
    info["status"] = "FAILED"
    info["failing_graph_literals"] = None if bad1 is None else [graphs[i]["label"] for i in bad1]
    info["failing_axis_literals"] = None if bad2 is None else [axis[i]["name"] for i in bad2]
    m = re.search(r'File "([^"]+)", line (\d+)[^\n]*\n(?:.*\n){0,8}', out)
    run.broken("tie:Compose/ShippedTie", "the graphs the tree under test builds do not satisfy the hypotheses of the composed theorems "
               f"(C01_*_built, C02_*_well_typed): failing graph literals {info['failing_graph_literals']}, failing axis literals "
               f"{info['failing_axis_literals']}\n" + (m.group(0) if m else out[-1200:]), kind="broken-correspondence")


def main(run: Run):
    thorough = run.tier == "thorough"
    run.prove("C01", OBLIGATIONS)
    try:
        compose_shipped_tie(run)
    except Exception as e:  # noqa
        run.broken("tie:Compose/ShippedTie", f"{type(e).__name__}: {e}", kind="broken-correspondence")
    from harness.common import use_impl
    use_impl()
    settle_variant(run)
    run.rule = ("random toy DAGs (2-9 nodes: hyper-parameters, population scalars, per-individual vectors, integer affine / "
                "sum-over-individuals nodes with distinct coefficients, int64 or float64) built as real LinkedVariables; random "
                "histories (1-40 ops, 1-3 states) from a grammar with a valid stream (70%: initial assignments, reads, sampler-shaped "
                "put/read/revert steps, clones, mode switches, precompute) and a malformed stream (30%: unset reads, unknown names, "
                "non-settable assignments, reverts without fork, bad indices); 3.5% of the steps taken while a fork is pending have the "
                "shape of the former finding F1 (auto-fork off, assignment, reads, full or partial revert, reads; counted in "
                "f1_shaped_toy_histories); every result + a final is_variable_set sweep over all "
                "nodes compared with the model inside Coq; from-scratch oracle after every operation. Non-trivial = the history has a "
                "read after a second assignment to the same state, after a revert or after a clone; distinct by (graph, history).")
    run.explanation = ("The theorems quantify over all graphs/histories/value types of the model; the tie runs the model's own step "
                       "function inside Coq on the histories executed by the real State (results, error classes, cache contents and "
                       "the discipline flags evaluated on the real _last_fork/_values must all agree); the oracle compares every read "
                       "of the implementation with a fresh State holding the same independent values, bit for bit.")
    run.assumptions += [
        "WF g: ancestors/children delivered by dag.py are the transitive closures in topological order — a THEOREM for every graph built by the "
        "modelled DAG constructor (C01_built_graph_wf, from C15_topological / C15_exact; the C01_*_built theorems carry no graph hypothesis); "
        "recomputed by wf_b on every graph of the tie and by wf_gb on every shipped graph literal (Compose/ShippedTie.v)",
        "F_mix: node functions of per-individual nodes act row by row — a THEOREM for node functions given by the op-kinds of C07 "
        "(C02_F_mix_opkinds, C01_never_stale_opkinds_built); not needed at all for histories without partial reverts "
        "(C01_never_stale_full_reverts_nomix); a hypothesis for other node functions",
        "MaskDisciplined: partial reverts only while every doubly cached node of the forked sub-graph carries the individual axis (documented precondition); no other restriction on histories",
        "State.revert(subset) selects with torch.where (Coq instance xsem_where of the tie and of the examples): "
        + ("recognised on the tree under test (source shape + probes)" if MIX == CLAIMED_MIX else
           "NOT the case on the tree under test — tie made against xsem (blend)"),
        "State.__setitem__ drops _last_fork on an assignment made with auto_fork_type=None (model flag fx = true, State/StateNow.v): "
        + ("recognised on the tree under test (source shape + probes)" if FX == CLAIMED_FX else
           "NOT the case on the tree under test — tie made against fx = false, the theorems do not apply"),
    ]
    run.trusted += ["harness/props/state_toy.py: toy-graph builder, executor and canonicalisation of results (exact integers / inf / nan)",
                    "torch element-wise kernels, index_put, deepcopy (modelled, not verified)"]
    directed(run)
    directed_nonfinite(run)
    toy_histories(run, 6000 if thorough else 1500)
    if thorough:
        exhaustive_diamond(run, 3)
    kinds = [("logistic", {}), ("logistic", dict(source_dimension=2))]
    if thorough:
        kinds += [("linear", {}), ("shared_speed_logistic", {}), ("logistic", dict(noise="gaussian-diagonal")), ("joint", {}), ("mixture_logistic", {})]
    try:
        shipped_states(run, kinds)
    except Exception as e:  # noqa
        run.broken("shipped-states-oracle", f"{type(e).__name__}: {e}")
    return run.finish()


def replay(run: Run, path: str):
    from harness.common import use_impl
    use_impl()
    d = json.load(open(path))
    inp = d.get("input") or {}
    if "graph" not in inp:
        print("replay: no toy history recorded in this file (broken obligation or shipped-model history); re-running the check")
        return main(run)
    fx, mix = settle_variant(run)
    print(f"State.__setitem__ of this tree: {run.extra['setitem_variant']}")
    print(f"State.revert(subset) of this tree: {run.extra['revert_mix_variant']}")
    G = T.ToyGraph.from_json(inp["graph"])
    G.build()
    s = T.run_ops(G, inp["ops"], fx=FX)
    for (op, out, ok) in s.records:
        print(f"  {op}  ->  {out}{'' if ok else '   [outside the discipline]'}")
    bad = [m for m in s.mismatches if "mask" not in m["taint"]]
    for m in bad[:3]:
        print(f"STALE after step {m['step']}: state {m['state']} node {m['node']}: read {m['observed']} but a fresh state gives {m['expected']}")
    r = run.vm_bad_indices("replay", HEADER, CASE_TYPE, [s.coq_case()], checker())
    print(f"model (fx = {'true' if FX else 'false'}, {SEM[MIX]}) agrees with the implementation on this history:", r == [])
    if fx != CLAIMED_FX:
        print("the theorems of Props/C01.v are about fx = true: they do not speak about this tree")
    if mix != CLAIMED_MIX:
        print("the tie of Props/C01.v is made with xsem_where: this tree does not select in State.revert(subset)")
    wrong = bool(bad or r or fx != CLAIMED_FX or mix != CLAIMED_MIX)
    print("REPLAY", "FAILS" if wrong else "passes")
    return 1 if wrong else 0
