"""C11 — seeded runs are reproducible and independent of logging and process history."""
from __future__ import annotations

import contextlib
import copy
import hashlib
import io
import itertools
import json
import os
import random as pyrandom
import shutil
import tempfile
import warnings

from harness.common import Run, coq_list
from harness.translate import c11_run

META = dict(
    technique="Coq theorems (induction over event scripts of a store-of-States + three-generator-tape model: logging observers "
              "are transparent for every schedule, a seeded run does not depend on earlier generator positions, the algorithm "
              "writes into a deep copy of the settings) + trace correspondence of recorded State/RNG operations of real fits, "
              "decided inside Coq with the model's own `read_only` predicate + metamorphic bit-identity on the implementation; "
              "source-level tie of the fit's control flow: a fail-closed python-ast translator regenerates a structured program over named "
              "events (coq/gen/GenC11.v) from BaseAlgorithm.run / TensorMcmcSaemAlgorithm._run, _iteration, _maximization_step / "
              "_update_temperature / FitOutputManager.iteration; Coq proves that this program denotes exactly the hand-written script "
              "fit_run for every n_iter, variable order, flag and periodicity, and each recorded fit is checked inside Coq to be an "
              "execution of it",
    level_text="partial: the kernel of the property is proved for every observer schedule / iteration script / seed on the model, "
               "with the behaviour of one State object as an explicit interface; that interface is PROVED for the State model of C01 on "
               "every well-formed graph and the theorem is re-stated over State objects reachable from init_store with the hypothesis "
               "gone (C11_logging_transparent_state, C11_fit_is_state_history; coq/theories/Compose, docs/Compose-api.md). That a fit HAS the shape of "
               "the model's script (seeds first; per iteration the algorithm's events, then observer calls only under `output_manager is not None` "
               "and their periodicity tests; no algorithm event or test depending on the logging configuration) is no longer only sampled: it is "
               "proved of the program regenerated from today's source (C11_src_*), for every configuration. What the named events DO (samplers, "
               "model methods) is still tied by recorded traces; that the output manager's print / save / plot methods are read-only scripts is read from the source "
               "(operations classified statement by statement, coq/gen/GenC11Obs.v; C11_src_logging_transparent_observers_from_source: the read_only hypothesis "
               "is discharged, what stays assumed is that each named operation produces events of its kind). Most of the assurance that the CODE has this shape comes from the per-run checks: recorded traces of real "
               "fits with logging = the trace without logging + read-only operations + zero generator consumption (checked in Coq and "
               "on generator-state digests), and bit-identical parameters / individual parameters / simulated data across repetition, "
               "prior random-number consumption, prior fits and the logging grid. 'Never aborts' is a runtime check only (finding F4).",
    level_note="Not covered by proof: that python/numpy/torch global generators are the only entropy sources (trace + digest check only), "
               "matplotlib, joblib/pandas aliasing, GPU, float determinism of torch kernels across thread counts. Trusted: Coq kernel, "
               "the recorder (wraps State methods and RNG entry points in-process), sha1 digests of tensors/dataframes.",
    design_ref="DESIGN.md section 4 C11, section 6 F4",
)

OBLIGATIONS = [
    "C11_logging_transparent", "C11_logging_transparent_example", "C11_drawing_observer_refuted",
    "C11_reseed", "C11_reseed_call", "C11_settings_copied", "C11_settings_alias_refuted",
    # composition with C01 (coq/theories/Compose/): the interface hypothesis discharged on the real State model
    "C11_state_interface_discharged", "C11_cell_is_state_object", "C11_reachable_states_consistent",
    "C11_logging_transparent_state", "C11_fit_is_state_history", "C11_state_example",
    # source-level tie (Api/RunProg*.v): the program regenerated from the source (coq/gen/GenC11.v) denotes fit_run
    "C11_src_program_is_fit_run", "C11_src_program_without_logging", "C11_src_logging_transparent",
    "C11_src_observers_guarded", "C11_src_observers_erased", "C11_src_observer_frame", "C11_src_example",
    "C11_src_logging_transparent_state",
    # what the observers' methods do, read from the source (Api/ObserverSrc*.v, coq/gen/GenC11Obs.v): `read_only` discharged
    "C11_src_observers_read_only_from_source", "C11_src_logging_transparent_observers_from_source",
    "C11_src_logging_transparent_canonical_observers", "C11_src_observer_frame_from_source",
    "C11_src_forbidden_observer_op_refuted", "C11_src_observer_ops_example",
    "C11_src_logging_transparent_state_observers_from_source",
]


def translate(run: Run) -> bool:
    """T1: regenerate coq/gen/GenC11.v (the control flow of a fit as a structured program) from $VERIF_REPO/src/leaspy."""
    return c11_run.translate(run)

SCRATCH = f"/tmp/scratch/c11-check-{os.getpid()}"
F4_SIG = "logging:no-path:attribute-error-path_output"
PERIODS = ("print_periodicity", "save_periodicity", "plot_periodicity", "plot_patient_periodicity")


# ----------------------------------------------------------------------------- small helpers


@contextlib.contextmanager
def quiet(cwd=None):
    old = os.getcwd()
    if cwd:
        os.chdir(cwd)
    try:
        with warnings.catch_warnings():
            warnings.simplefilter("ignore")
            with contextlib.redirect_stdout(io.StringIO()), contextlib.redirect_stderr(io.StringIO()):
                yield
    finally:
        os.chdir(old)


def tmpdir():
    os.makedirs(SCRATCH, exist_ok=True)
    return tempfile.mkdtemp(dir=SCRATCH)


def h_tensor(h, t):
    import torch
    t = t.detach().cpu().contiguous()
    h.update(str((t.dtype, tuple(t.shape))).encode())
    h.update(t.numpy().tobytes() if t.dtype != torch.bool else t.to(torch.uint8).numpy().tobytes())


def digest_params(model) -> str:
    h = hashlib.sha1()
    for k in sorted(model.parameters):
        h.update(k.encode())
        h_tensor(h, model.parameters[k])
    return h.hexdigest()[:20]


def digest_df(df) -> str:
    import numpy as np
    h = hashlib.sha1()
    h.update(repr((list(map(str, df.columns)), [str(t) for t in df.dtypes], list(map(str, df.index[:3])), df.shape)).encode())
    for c in df.columns:
        col = df[c]
        if col.dtype.kind in "fiub":
            h.update(np.ascontiguousarray(col.values).tobytes())
        else:
            h.update(repr(list(col.values)).encode())
    h.update(repr(list(df.index)).encode())
    return h.hexdigest()[:20]


def consume_rng():
    import numpy as np
    import torch
    torch.randn(7)
    torch.rand(3)
    np.random.rand(5)
    np.random.normal(size=3)
    for _ in range(3):
        pyrandom.random()
    pyrandom.gauss(0, 1)  # leaves a cached second gaussian in python's generator


def logs_kw(cfg: dict, path):
    kw = {k: v for k, v in cfg.items() if k in PERIODS}
    kw["path"] = path
    return kw


VISITS = {"patient_number": 4, "visit_type": "random", "first_visit_mean": 0.0, "first_visit_std": 0.4,
          "time_follow_up_mean": 3, "time_follow_up_std": 0.5, "distance_visit_mean": 1.0, "distance_visit_std": 0.2,
          "min_spacing_between_visits": 1}

MODEL_SHAPES = {  # kind -> (n_feat, source_dimension, noise)
    "logistic": (2, 1, None),
    "linear": (2, None, None),
    "shared_speed_logistic": (2, 1, None),
    "joint": (1, None, None),
    "mixture_logistic": (3, 2, "gaussian-diagonal"),
}


def new_model(kind):
    from harness import synth
    nf, sd, noise = MODEL_SHAPES[kind]
    return synth.make_model(kind, nf, sd, noise)


def cohort(kind, seed=1, n_ind=7):
    from harness import synth
    nf = MODEL_SHAPES[kind][0]
    return synth.make_df(n_ind=n_ind, n_feat=nf, seed=seed, joint=(kind == "joint"), kind=kind)


class Refused(Exception):
    pass


def make_settings(algo, seed, logs, *, call_set_logs=True, **params):
    """The two steps of BaseModel._get_algorithm, separated so that a configuration REFUSED at construction
    (LeaspyAlgoInputError) is told apart from an accepted one that aborts later."""
    from leaspy.algo import AlgorithmSettings
    from leaspy.exceptions import LeaspyAlgoInputError
    kw = dict(params)
    kw.update(logs)
    try:
        st = AlgorithmSettings(algo, seed=seed, **kw)
        if call_set_logs:
            st.set_logs(**kw)
    except LeaspyAlgoInputError as e:
        raise Refused(str(e))
    return st


def run_algo(run: Run, algo: str, kind: str, seed: int, n_iter: int, logs: dict, with_path: bool, *, pre=None,
             model_json=None, record=False, keep_settings=None, extra=None, call_set_logs=True):
    """One seeded public call in a fresh working directory.  Returns dict(digest, rng, events?, settings?).
    fit: fresh model of `kind` on the cohort;  personalize / simulate: model loaded from `model_json`."""
    from harness import synth
    from harness.recorder import Recorder, rng_digest
    from leaspy.models import BaseModel
    wd = tmpdir()
    try:
        path = os.path.join(wd, "logs") if with_path else None
        lk = logs_kw(logs, path) if (logs or with_path) else {}
        with quiet(wd):
            if pre:
                pre()
            df = cohort(kind)
            params = dict(progress_bar=False)
            if algo in ("mcmc_saem", "mean_posterior", "mode_posterior"):
                params["n_iter"] = n_iter
            if algo == "simulate":
                params.update(features=[c for c in df.columns if c.startswith("Y")], visit_parameters=copy.deepcopy(VISITS))
            if extra:
                params.update(copy.deepcopy(extra))
            settings = make_settings(algo, seed, lk, call_set_logs=call_set_logs, **params)
            snap = copy.deepcopy(settings.parameters)
            rec = Recorder() if record else contextlib.nullcontext()
            sp = Spans(rec) if record else contextlib.nullcontext()
            with rec, sp:
                if algo == "mcmc_saem":
                    model = new_model(kind)
                    model.fit(synth.make_data(df, kind), algorithm_settings=settings)
                    dig = digest_params(model)
                elif algo == "simulate":
                    model = BaseModel.load(model_json)
                    res = model.simulate(algorithm_settings=settings)
                    dig = digest_df(res.data.to_dataframe())
                else:
                    model = BaseModel.load(model_json)
                    ids = sorted(df.ID.unique())[1:5]
                    sub = synth.ensure_events(df[df.ID.isin(ids)].reset_index(drop=True))
                    ip = model.personalize(synth.make_data(sub, kind), algorithm_settings=settings)
                    dig = digest_df(ip.to_dataframe().sort_index())
            out = dict(digest=dig, rng=rng_digest(), settings_unchanged=_same(snap, settings.parameters))
            if record:
                out["events"] = [e for e in rec.events if not e["k"].startswith("span_")]
                out["all_events"] = rec.events
                out["spans"] = sp.config
                out["model"] = model
            return out
    finally:
        shutil.rmtree(wd, ignore_errors=True)


def _same(a, b):
    try:
        return _canon(a) == _canon(b)
    except Exception:
        return False


def _canon(x):
    import pandas as pd
    if isinstance(x, dict):
        return {k: _canon(v) for k, v in x.items()}
    if isinstance(x, (list, tuple)):
        return [_canon(v) for v in x]
    if isinstance(x, pd.DataFrame):
        return ("df", digest_df(x))
    return x



# ----------------------------------------------------------------------------- named-event spans (tie of the regenerated program)

A_CODE = {n: i for i, n in enumerate(
    ["ASeedPy", "ASeedNp", "ASeedTorch", "ADeviceEnter", "ADeviceExit", "AInitData", "AInitIndiv", "AInitSamplers", "AInitAnnealing",
     "AOrder", "AShuffle", "ASample", "ASuffStats", "AMStep", "ATemperature", "AFitMetrics", "AFinClone", "AFinPopMode", "AFinReplace"])}
O_CODE = {"OPrintAlgo": 100, "OPrintModel": 101, "OPrintTime": 102, "OSave": 103, "OPlotPatients": 104, "OPlotConvergence": 105}
LOOP_NAMES = {"AShuffle", "ASample", "ASuffStats", "AMStep", "ATemperature"}
MODEL_SPANS = {"put_data_variables": "AInitData", "put_individual_parameters": "AInitIndiv",
               "compute_sufficient_statistics": "ASuffStats", "update_parameters": "AMStep"}
ALGO_SPANS = {"_initialize_samplers": "AInitSamplers", "_initialize_annealing": "AInitAnnealing", "_update_temperature": "ATemperature",
              "_get_fit_metrics": "AFitMetrics"}
OM_SPANS = {"print_algo_statistics": "OPrintAlgo", "print_model_statistics": "OPrintModel", "print_time": "OPrintTime",
            "save_model_parameters_convergence": "OSave", "save_plot_patient_reconstructions": "OPlotPatients",
            "save_plot_convergence_model_parameters": "OPlotConvergence"}


class Spans:
    """Markers `span_enter` / `span_exit` (in the event list of a Recorder) around the calls that are the NAMED events of
    Api/RunProg.v.  Wrap, never replace: `BaseAlgorithm.run` is wrapped at class level; inside it the model / algorithm / sampler /
    output-manager OBJECTS of this very run get instance-level wrappers that call the original bound method; everything is removed
    in a `finally`.  The configuration the Coq side unfolds the program with is read from the algorithm object (`self.config`)."""

    def __init__(self, rec):
        self.rec = rec
        self.config = None
        self._undo = []

    def _wrap_obj(self, obj, meth, name, algo, var=None):
        orig = getattr(obj, meth)
        rec = self.rec

        def wrapper(*a, **kw):
            rec._emit(k="span_enter", name=name, it=getattr(algo, "current_iteration", None), var=var)
            try:
                return orig(*a, **kw)
            finally:
                rec._emit(k="span_exit", name=name, it=getattr(algo, "current_iteration", None), var=var)

        had = meth in vars(obj)
        old = vars(obj).get(meth)
        setattr(obj, meth, wrapper)
        self._undo.append((obj, meth, had, old))

    def _undo_objs(self):
        while self._undo:
            obj, meth, had, old = self._undo.pop()
            try:
                if had:
                    setattr(obj, meth, old)
                else:
                    delattr(obj, meth)
            except Exception:
                pass

    def __enter__(self):
        from leaspy.algo.base import BaseAlgorithm
        from leaspy.variables.state import State
        self._orig_run = BaseAlgorithm.__dict__["run"]
        self._orig_ppl = State.__dict__["put_population_latent_variables"]
        spans, rec, orig_run, orig_ppl = self, self.rec, self._orig_run, self._orig_ppl

        def run(algo, model, *a, **kw):
            if spans.config is not None or type(algo).__name__ != "TensorMcmcSaemAlgorithm":
                return orig_run(algo, model, *a, **kw)
            for meth, name in MODEL_SPANS.items():
                spans._wrap_obj(model, meth, name, algo)
            for meth, name in ALGO_SPANS.items():
                spans._wrap_obj(algo, meth, name, algo)
            init_samplers = algo._initialize_samplers     # the span wrapper just installed

            def init_then_wrap(*a2, **kw2):
                out = init_samplers(*a2, **kw2)
                for vname, smp in (algo.samplers or {}).items():
                    spans._wrap_obj(smp, "sample", "ASample", algo, var=vname)
                return out
            algo._initialize_samplers = init_then_wrap
            om = algo.output_manager
            if om is not None:
                for meth, name in OM_SPANS.items():
                    spans._wrap_obj(om, meth, name, algo)
            rec._emit(k="span_enter", name="run", it=0, var=None)
            try:
                return orig_run(algo, model, *a, **kw)
            finally:
                rec._emit(k="span_exit", name="run", it=0, var=None)
                spans.config = dict(
                    n_iter=int(algo.algo_parameters["n_iter"]),
                    aflags=[algo.seed is not None, bool(algo.algo_parameters["progress_bar"]), bool(algo.random_order_variables)],
                    lflags=[om is not None, hasattr(algo, "current_iteration"), (om is None or om.path_output is None)],
                    pers=[None if om is None else getattr(om, f"periodicity_{p}") for p in ("print", "save", "plot", "plot_patients")],
                    variables=sorted(algo.samplers or {}))
                spans._undo_objs()

        def ppl(state, *a, **kw):
            rec._emit(k="span_enter", name="AFinPopMode", it=None, var=None)
            try:
                return orig_ppl(state, *a, **kw)
            finally:
                rec._emit(k="span_exit", name="AFinPopMode", it=None, var=None)

        BaseAlgorithm.run = run
        State.put_population_latent_variables = ppl
        return self

    def __exit__(self, *exc):
        from leaspy.algo.base import BaseAlgorithm
        from leaspy.variables.state import State
        BaseAlgorithm.run = self._orig_run
        State.put_population_latent_variables = self._orig_ppl
        self._undo_objs()
        return False


def program_items(events, variables):
    """Recorded events -> (keys of the named events at top level of the run, operations outside every named event).
    Top level = directly in `run` (algorithm side) or directly in `FitOutputManager.iteration` (observer side); whatever happens
    inside a named event belongs to it."""
    from harness.recorder import SEED_FUNCS
    vix = {n: i for i, n in enumerate(variables)}
    seeds = {"py": "ASeedPy", "np": "ASeedNp", "torch": "ASeedTorch"}
    items, strays = [], []
    in_run, depth, in_obs = False, 0, False
    for e in events:
        k = e["k"]
        if k in ("span_enter", "span_exit") and e["name"] == "run":
            in_run = (k == "span_enter")
            continue
        if not in_run:
            continue
        if k == "span_enter":
            if depth == 0:
                name = e["name"]
                code = A_CODE[name] if name in A_CODE else O_CODE[name]
                it = e["it"] if (name in LOOP_NAMES or name in O_CODE) else 0
                items.append([code, int(it or 0), vix.get(e["var"], 0) if name == "ASample" else 0, name])
            depth += 1
            continue
        if k == "span_exit":
            depth -= 1
            continue
        if depth > 0:
            continue
        if k == "obs_enter":
            in_obs = True
            continue
        if k == "obs_exit":
            in_obs = False
            continue
        if in_obs:
            continue        # operations of `iteration` itself: part of the observer segment, judged by check_logging
        if k == "rng" and e["fn"] in SEED_FUNCS:
            items.append([A_CODE[seeds[SEED_FUNCS[e["fn"]]]], 0, 0, "seed"])
        elif k == "rng" and e["fn"] == "random.shuffle":
            items.append([A_CODE["AShuffle"], None, 0, "AShuffle"])
        elif k == "clone":
            items.append([A_CODE["AFinClone"], 0, 0, "AFinClone"])
        elif k == "replace":
            items.append([A_CODE["AFinReplace"], 0, 0, "AFinReplace"])
        else:
            strays.append({kk: e.get(kk) for kk in ("k", "fn", "var") if e.get(kk) is not None})
    # a shuffle belongs to the iteration of the named loop event that follows it
    nxt = 0
    for it in reversed(items):
        if it[3] in LOOP_NAMES and it[1] is not None:
            nxt = it[1]
        if it[1] is None:
            it[1] = nxt
    return [tuple(it[:3]) for it in items], strays


def coq_opt(x):
    return "None" if x is None else f"(Some {int(x)})"


def program_case(cfg, keys):
    n, nv = cfg["n_iter"], len(cfg["variables"])
    orders = [[k for (c, i, k) in keys if c == A_CODE["ASample"] and i == it] for it in range(1, n + 1)]
    b = lambda l: coq_list(["true" if x else "false" for x in l])
    return (f"({n}, {nv}, {coq_list([coq_list([str(k) for k in o]) for o in orders])}, {b(cfg['aflags'])}, {b(cfg['lflags'])}, "
            f"{coq_list([coq_opt(p) for p in cfg['pers']])}, {coq_trace(keys)})")


# ----------------------------------------------------------------------------- (a) trace correspondence


class EncodeError(Exception):
    pass


def encode(events, var_ix, *, observers: bool):
    """Recorded events -> (observer segments, algorithm trace) as lists of (kind, ref, var) triples (see Api/ApiTie.v).
    Refs are relative: 0 = the model's state, i+1 = i-th state created inside the segment (algorithm / one observer call).
    Fail closed on an operation addressing any other state."""
    from harness.recorder import SEED_FUNCS
    cur = None
    alg, segs = [], []
    alg_loc, seg_loc = {}, None
    seg = None
    last_set = {}

    def ref(sid, loc):
        if sid == cur:
            return 0
        if sid in loc:
            return loc[sid] + 1
        raise EncodeError(f"operation on state {sid} which is neither the model's state nor created in this segment")

    for e in events:
        k = e["k"]
        inobs = bool(e["ctx"])
        if k == "obs_enter":
            seg, seg_loc = [], {}
            continue
        if k == "obs_exit":
            segs.append(seg)
            seg, seg_loc = None, None
            continue
        if inobs and not observers:
            raise EncodeError("observer event in a run without logging")
        out, loc = (seg, seg_loc) if inobs else (alg, alg_loc)
        if k == "rng":
            fn = e["fn"]
            g = 0 if fn.startswith("random.") else 1 if fn.startswith("numpy.") else 2
            out.append((7 if fn in SEED_FUNCS else 6, 0, g))
            continue
        if k in ("put", "precompute_all"):
            continue
        if k == "replace":
            if e.get("prev") is None and cur is None:
                cur = e["sid"]      # the state created by model.initialize
                continue
            out.append((8, ref(e["sid"], loc), 0))
            cur = e["sid"]
            continue
        if cur is None:
            cur = e["sid"]
        r = ref(e["sid"], loc)
        if k == "get":
            out.append((0, r, var_ix[e["var"]]))
        elif k == "isset":
            out.append((9, r, var_ix[e["var"]]))
        elif k == "set":
            out.append((2 if e.get("unset") else 1, r, var_ix[e["var"]]))
            last_set[e["sid"]] = var_ix[e["var"]]
        elif k == "clone":
            loc[e["child"]] = len(loc)
            out.append((3, r, 0))
        elif k == "save":
            out.append((4, r, 0))
        elif k == "revert":
            out.append((5, r, last_set.get(e["sid"], 0)))
        else:
            raise EncodeError(f"unknown recorded operation {k}")
    return segs, alg


def coq_trace(t):
    return coq_list([f"({a},{b},{c})" for a, b, c in t])


PROG_TIE_OK = True
PROG_HEADER = "From Coq Require Import List. Import ListNotations.\nFrom Leaspy Require Import Api.ApiModel Api.ApiTie Api.RunProg Api.RunProgTie.\n"
OBS_HEADER = ("From Coq Require Import List. Import ListNotations.\n"
              "From Leaspy Require Import Api.ApiModel Api.ApiTie Api.RunProg Api.ObserverSrc Api.ObserverSrcTie.\n")
TIE_HEADER = "From Coq Require Import List. Import ListNotations.\nFrom Leaspy Require Import Api.ApiModel Api.ApiInst Api.ApiTie.\n"


def trace_correspondence(run: Run, thorough: bool):
    configs = [
        ("logistic", dict(print_periodicity=2, save_periodicity=1, plot_periodicity=2, plot_patient_periodicity=2)),
        ("logistic", dict(save_periodicity=3)),
        ("linear", dict(print_periodicity=1, save_periodicity=2, plot_patient_periodicity=1)),
    ]
    if thorough:
        configs += [
            ("shared_speed_logistic", dict(print_periodicity=1, save_periodicity=1, plot_periodicity=1, plot_patient_periodicity=1)),
            ("joint", dict(print_periodicity=2, save_periodicity=2, plot_periodicity=4)),
            ("mixture_logistic", dict(print_periodicity=1, save_periodicity=1, plot_periodicity=2)),
            ("logistic", dict(plot_patient_periodicity=3, print_periodicity=4)),
        ]
    n_iter, seed = 4, run.seed % 997
    cases, meta = [], []
    off_cache = {}
    prog_cases, prog_meta = [], []
    obs_cases, obs_meta = [], []

    def program_tie(rec_out, desc):
        """the recorded run must be an execution of the program regenerated from the source (Api/RunProgTie.v check_run)"""
        cfg = rec_out.get("spans")
        if cfg is None:
            run.broken("trace:program:no-run", f"BaseAlgorithm.run of a TensorMcmcSaemAlgorithm was never entered ({desc})", kind="broken-correspondence")
            return
        keys, strays = program_items(rec_out["all_events"], cfg["variables"])
        if strays:
            run.broken("trace:program:operation-outside-named-event",
                       f"{len(strays)} State / generator operations of the run happen outside every named event of the program "
                       f"(statements the translator takes for silent are not): {strays[:6]} ({desc})", kind="broken-correspondence")
        nobs = sum(1 for c, _, _ in keys if c >= 100)
        run.case(("program-trace", desc["kind"], tuple(sorted((desc.get("logs") or {}).items())), tuple(cfg["aflags"]), tuple(cfg["lflags"])),
                 nontrivial=len(keys) > 10)
        run.count("program_trace_named_events", desc["kind"], len(keys))
        run.count("program_trace_observer_calls", desc["kind"], nobs)
        prog_cases.append(program_case(cfg, keys))
        prog_meta.append(dict(desc, config={k: cfg[k] for k in ("n_iter", "aflags", "lflags", "pers", "variables")}, keys=keys))

    # configurations recorded for the program tie only: no OutputsSettings at all (output_manager is None); progress bar on and
    # the variables sampled in sorted order
    for kind, kw in [("logistic", dict(call_set_logs=False)), ("logistic", dict(extra=dict(progress_bar=True, random_order_variables=False)))]:
        desc = dict(kind=kind, n_iter=n_iter, seed=seed, logs={}, variant=sorted(kw))
        try:
            program_tie(run_algo(run, "mcmc_saem", kind, seed, n_iter, {}, False, record=True, **kw), desc)
        except Refused:
            run.count("trace", "refused")
        except Exception as e:
            run.fail(f"fit:abort:{type(e).__name__}", f"fit ({sorted(kw)}) raised {type(e).__name__}: {e}", desc)
    for kind, logs in configs:
        desc = dict(kind=kind, n_iter=n_iter, seed=seed, logs=logs)
        try:
            if kind not in off_cache:
                off_cache[kind] = run_algo(run, "mcmc_saem", kind, seed, n_iter, {}, False, record=True)
                program_tie(off_cache[kind], dict(desc, logs={}))
            off = off_cache[kind]
            on = run_algo(run, "mcmc_saem", kind, seed, n_iter, logs, True, record=True)
            program_tie(on, desc)
        except Refused:
            run.count("trace", "refused")
            continue
        except Exception as e:
            run.fail(f"logging:abort:{type(e).__name__}", f"fit with logging {logs} raised {type(e).__name__}: {e}", desc)
            continue
        var_ix = {n: i for i, n in enumerate(sorted(off["model"].dag.keys()))}
        try:
            _, t_off = encode(off["events"], var_ix, observers=False)
            segs, t_on = encode(on["events"], var_ix, observers=True)
        except EncodeError as e:
            run.fail("logging:observer-touches-foreign-state", str(e), desc)
            continue
        # generator-state digests at entry / exit of every observer call: zero consumption through ANY path
        dg = [(e["k"], e["digest"]) for e in on["events"] if e["k"] in ("obs_enter", "obs_exit")]
        for (k1, d1), (k2, d2) in zip(dg[0::2], dg[1::2]):
            if d1 != d2:
                run.fail("logging:observer-consumes-rng", "generator state digest differs between entry and exit of an output-manager call "
                         "(python/numpy/torch)", desc)
                break
        if len(segs) != n_iter:
            run.fail("logging:observer-calls", f"{len(segs)} output-manager calls for {n_iter} iterations", desc)
        nobs = sum(len(s) for s in segs)
        run.case(("trace", kind, tuple(sorted(logs.items()))), nontrivial=nobs > 0)
        run.count("trace_observer_ops", kind, nobs)
        run.count("trace_algorithm_ops", kind, len(t_off))
        # T2 of the observer operations read from the source (Api/ObserverSrcTie.v check_observer_segment): at iteration i the
        # methods that ran are those whose periodicity divides i (C11_src_observers_guarded; a folder is configured here)
        for j, sg in enumerate(segs):
            it = j + 1
            ran = []
            for key, codes in (("print_periodicity", [0, 1, 2]), ("save_periodicity", [3]), ("plot_patient_periodicity", [4]),
                               ("plot_periodicity", [5])):
                per = logs.get(key)
                if per and it % per == 0:
                    ran += codes
            obs_cases.append(f"({coq_list([str(c) for c in ran])}, {coq_trace(sg)})")
            obs_meta.append(dict(desc, iteration=it, methods=ran, ops=sg[:40]))
            run.count("observer_segment_methods", ",".join(map(str, ran)) or "none", 1)
        cases.append(f"({coq_list([coq_trace(s) for s in segs])}, {coq_trace(t_on)}, {coq_trace(t_off)})")
        meta.append(dict(desc, segs=segs, t_on=t_on, t_off=t_off))
        if on["digest"] != off["digest"] or on["rng"] != off["rng"]:
            run.fail("logging:changes-result", "fit with logging differs from fit without (parameters or final generator state)", desc,
                     expected=dict(digest=off["digest"], rng=off["rng"]), observed=dict(digest=on["digest"], rng=on["rng"]))
    if cases:
        bad = run.vm_bad_indices("logging", TIE_HEADER, "list (list rop) * list rop * list rop", cases, "check_logging")
        for i in bad or []:
            m = meta[i]
            why = explain_logging(m)
            run.fail(f"logging:trace:{why[0]}", "recorded logged fit is not (fit without logging) + read-only observer scripts: " + why[1],
                     {k: m[k] for k in ("kind", "n_iter", "seed", "logs")}, observed=why[1])
        run.sample(dict(kind="trace", config=meta[0]["logs"], model=meta[0]["kind"], observer_calls=len(meta[0]["segs"]),
                        first_observer_ops=meta[0]["segs"][0][:12], algorithm_ops=len(meta[0]["t_off"])))
    if obs_cases and PROG_TIE_OK:
        bad = run.vm_bad_indices("observer_ops", OBS_HEADER, "list nat * list rop", obs_cases, "check_observer_segment")
        for i in bad or []:
            m = obs_meta[i]
            run.broken("trace:observers:not-the-operations-read-from-the-source",
                       "an output-manager call recorded in a real fit performs a State / generator operation that is not of the kind of any "
                       "operation read from the source for the methods that ran (coq/gen/GenC11Obs.v): "
                       f"{json.dumps(m, default=str)[:600]}", kind="broken-correspondence")
        run.extra["c11_observer_segments_checked"] = len(obs_cases)
    if prog_cases and PROG_TIE_OK:
        bad = run.vm_bad_indices("program", PROG_HEADER, "run_case", prog_cases, "check_run")
        for i in bad or []:
            m = prog_meta[i]
            run.broken("trace:program:not-an-execution",
                       "the named events recorded in a real fit are not the unfolding of the program regenerated from the source "
                       f"in the configuration read from the algorithm object: {json.dumps({k: m[k] for k in ('kind', 'logs', 'config')}, default=str)}; "
                       f"recorded keys (code, iteration, variable): {m['keys'][:80]}", kind="broken-correspondence")
        with_obs = next((m for m in prog_meta if any(c >= 100 for c, _, _ in m["keys"])), prog_meta[0])
        run.sample(dict(kind="program-trace", model=with_obs["kind"], logs=with_obs.get("logs"), config=with_obs["config"],
                        named_events=len(with_obs["keys"]), first_keys=with_obs["keys"][:14]))


KINDS_TXT = {0: "get", 1: "set", 2: "unset", 3: "clone", 4: "save", 5: "revert", 6: "rng-draw", 7: "rng-seed", 8: "replace", 9: "isset"}


def explain_logging(m):
    """Python-side reading of a failed Coq check, for the report only."""
    for s in m["segs"]:
        for (k, r, v) in s:
            if k in (6, 7):
                return ("observer-rng", f"an output-manager call makes a generator call ({KINDS_TXT[k]}, generator {v})")
            if k in (1, 2, 5) and r == 0:
                return ("observer-writes", f"an output-manager call performs {KINDS_TXT[k]} of variable #{v} on the model's state")
            if k == 8:
                return ("observer-replaces-state", "an output-manager call replaces model.state")
    if m["t_on"] != m["t_off"]:
        i = next((i for i, (a, b) in enumerate(zip(m["t_on"], m["t_off"])) if a != b), min(len(m["t_on"]), len(m["t_off"])))
        return ("algorithm-ops-differ", f"algorithm operations differ at position {i}: {m['t_on'][i:i+3]} vs {m['t_off'][i:i+3]}")
    rng = [e for e in m["t_off"] if e[0] in (6, 7)][:3]
    return ("seeds", f"the first generator events of the run are {rng}, expected the seeds of python, numpy and torch")


# ----------------------------------------------------------------------------- (b)(c) metamorphic bit-identity, never aborts


def logging_grid(n_iter, thorough, rng):
    vals = (None, 1, 3, n_iter)
    full = [dict(zip(PERIODS, c)) for c in itertools.product(vals, repeat=4)]
    full = [dict({k: v for k, v in c.items() if v is not None}) for c in full]
    grid = [(c, p) for c in full for p in (False, True)]
    if thorough:
        return grid
    # quick: a fixed directed core + seeded sample
    core = [({}, True), (dict(print_periodicity=2), False), (dict(print_periodicity=1), True),
            (dict(save_periodicity=1), True), (dict(save_periodicity=3), False),
            (dict(save_periodicity=1, plot_periodicity=n_iter), True),
            (dict(plot_patient_periodicity=1), True), (dict(plot_patient_periodicity=3), False),
            (dict(print_periodicity=3, save_periodicity=1, plot_periodicity=3, plot_patient_periodicity=n_iter), True)]
    extra = rng.sample(grid, 5)
    return core + extra


def other_fit_before():
    from harness import synth
    synth.fit("linear", n_iter=3, seed=11, n_ind=5, n_feat=2)


def _attr_digest(obj, skip=()):
    """value digest of the attributes of an object (tensors / arrays by content, containers recursively, other objects by type name)"""
    import hashlib
    import numpy as np
    import torch

    def canon(x, depth=0):
        if isinstance(x, torch.Tensor):
            return ("T", str(x.dtype), tuple(x.shape), hashlib.sha1(x.detach().cpu().contiguous().numpy().tobytes()).hexdigest())
        if isinstance(x, np.ndarray):
            return ("A", str(x.dtype), x.shape, hashlib.sha1(np.ascontiguousarray(x).tobytes()).hexdigest())
        if isinstance(x, (int, float, str, bool, type(None))):
            return repr(x)
        if isinstance(x, dict) and depth < 4:
            return ("D", tuple((repr(k), canon(v, depth + 1)) for k, v in sorted(x.items(), key=lambda kv: repr(kv[0]))))
        if isinstance(x, (list, tuple)) and depth < 4:
            return ("L", tuple(canon(v, depth + 1) for v in x))
        return ("O", type(x).__name__)
    return {k: canon(v) for k, v in vars(obj).items() if k not in skip}


def observer_purity(run: Run):
    """What logging does at an iteration is an OBSERVATION: around every call of the output manager the algorithm object, each of its
    samplers and the values of the model state must be exactly what they were (attribute by attribute) — nothing an observer
    computes may be kept where the run will read it later."""
    from harness import synth
    from leaspy.algo.fit.fit_output_manager import FitOutputManager
    orig = FitOutputManager.iteration
    found = {}

    def wrapped(self, algo, model, data):
        def snap():
            d = {"algo": _attr_digest(algo, skip=("output_manager", "samplers"))}
            for name, sp in getattr(algo, "samplers", {}).items():
                d[f"sampler:{name}"] = _attr_digest(sp)
            d["state"] = {k: (None if v is None else _attr_digest(type("X", (), {"v": getattr(v, "value", v), "w": getattr(v, "weight", None)})()))
                          for k, v in model.state._values.items()}
            d["fork"] = repr(None if model.state._last_fork is None else sorted(model.state._last_fork))
            return d
        before = snap()
        try:
            return orig(self, algo, model, data)
        finally:
            after = snap()
            # reading a derived variable fills its cache entry (C01: transparent): for the state only entries that HELD a value count
            after["state"] = {k: (before["state"][k] if before["state"].get(k) is None else v) for k, v in after["state"].items()}
            for part in before:
                if before[part] != after[part] and part not in found:
                    keys = [k for k in before[part] if before[part].get(k) != after[part].get(k)] if isinstance(before[part], dict) else []
                    keys += [k for k in (after[part] if isinstance(after[part], dict) else {}) if k not in (before[part] if isinstance(before[part], dict) else {})]
                    found[part] = (getattr(algo, "current_iteration", None), keys[:6])
    FitOutputManager.iteration = wrapped
    wd = tmpdir()
    try:
        for logs in (dict(print_periodicity=1), dict(print_periodicity=2, save_periodicity=1, plot_periodicity=2, plot_patient_periodicity=2, path=os.path.join(wd, "l"))):
            found.clear()
            run.case(("observer-purity", tuple(sorted(k for k in logs))), nontrivial=True)
            try:
                with quiet(wd):
                    synth.fit("logistic", n_iter=5, seed=run.seed % 997, n_ind=8, **logs)
            except Exception as e:
                run.fail(f"logging:abort:{type(e).__name__}", f"fit with logging {sorted(logs)} raised {type(e).__name__}: {e}", dict(logs={k: v for k, v in logs.items() if k != "path"}))
                continue
            for part, (it, keys) in found.items():
                run.fail(f"logging:observer-changes:{part.split(':')[0]}",
                         f"the logging done at iteration {it} changed {part} (attributes {keys}): an observer must leave the run's objects untouched",
                         dict(algo="mcmc_saem", kind="logistic", n_iter=5, logs={k: v for k, v in logs.items() if k != "path"}, changed=part, attributes=keys))
    finally:
        FitOutputManager.iteration = orig
        shutil.rmtree(wd, ignore_errors=True)


def metamorphic(run: Run, thorough: bool):
    from harness import synth
    n_iter = 4
    seeds = [run.seed % 991] + ([7] if thorough else [])
    kinds_fit = ["logistic", "linear"] + (["shared_speed_logistic", "joint", "mixture_logistic"] if thorough else [])
    rng = run.rng("grid")
    grid_full_kind = "logistic"

    # ---- fits
    for kind in kinds_fit:
        for seed in seeds:
            desc0 = dict(algo="mcmc_saem", kind=kind, seed=seed, n_iter=n_iter)
            try:
                ref = run_algo(run, "mcmc_saem", kind, seed, n_iter, {}, False)
            except Exception as e:
                run.fail(f"fit:abort:{type(e).__name__}", f"plain fit raised {type(e).__name__}: {e}", desc0)
                continue
            variants = [("repeat", None, {}, False), ("rng-consumed-before", consume_rng, {}, False),
                        ("other-model-fitted-before", other_fit_before, {}, False)]
            if kind == grid_full_kind or not thorough:
                grid = logging_grid(n_iter, thorough and seed == seeds[0], rng)
            else:
                grid = rng.sample(logging_grid(n_iter, True, rng), 40)
            variants += [("logging", None, c, p) for c, p in grid]
            for name, pre, logs, with_path in variants:
                desc = dict(desc0, variant=name, logs=logs, path=("tmp" if with_path else None))
                try:
                    got = run_algo(run, "mcmc_saem", kind, seed, n_iter, logs, with_path, pre=pre)
                except Refused:
                    run.count("fit_variants", "refused-at-construction")
                    run.case(("fit", kind, seed, name, tuple(sorted(logs.items())), with_path), nontrivial=False)
                    continue
                except AttributeError as e:
                    run.count("fit_variants", "aborted")
                    run.case(("fit", kind, seed, name, tuple(sorted(logs.items())), with_path), nontrivial=True)
                    narrow = ("path_output" in str(e)) and not with_path and "save_periodicity" not in logs
                    run.fail(F4_SIG if narrow else f"logging:abort:AttributeError",
                             f"accepted logging configuration aborts the fit: AttributeError: {e}", desc, expected="run finishes",
                             observed=f"AttributeError: {e}")
                    continue
                except Exception as e:
                    run.count("fit_variants", "aborted")
                    if (name == "logging" and kind == "mixture_logistic" and "plot_patient_periodicity" in logs
                            and isinstance(e, RuntimeError) and "same dtype" in str(e)):
                        # listed finding: the mixture model holds float64 parameters, the patient-reconstruction plot estimates with float32 inputs
                        run.fail("logging:plot-patient:mixture-float64-dtype-mismatch",
                                 f"plot_patient_periodicity on a mixture_logistic fit aborts the run: RuntimeError: {e}", desc,
                                 expected="run finishes", observed=f"RuntimeError: {e}")
                        continue
                    run.fail(f"logging:abort:{type(e).__name__}" if name == "logging" else f"fit:abort:{type(e).__name__}",
                             f"accepted configuration aborts the fit: {type(e).__name__}: {e}", desc, expected="run finishes",
                             observed=f"{type(e).__name__}: {e}")
                    continue
                run.count("fit_variants", name)
                run.case(("fit", kind, seed, name, tuple(sorted(logs.items())), with_path), nontrivial=True)
                check_equal(run, ref, got, desc, name)
    run.sample(dict(kind="metamorphic-fit", model=kinds_fit[0], seed=seeds[0], n_iter=n_iter,
                    variants=["repeat", "rng-consumed-before", "other-model-fitted-before", "logging grid"]))

    # ---- logging right before a proposal-scale adaptation (the samplers adapt every 25 iterations by default): a fit long enough to
    # contain one, observed at iteration 24 (print every 8 / 12 / 24) — whatever an observer computes must not be reused by the run
    n_long = 30
    for kind in kinds_fit[:1]:
        desc0 = dict(algo="mcmc_saem", kind=kind, seed=seeds[0], n_iter=n_long)
        try:
            ref = run_algo(run, "mcmc_saem", kind, seeds[0], n_long, {}, False)
        except Exception as e:
            run.fail(f"fit:abort:{type(e).__name__}", f"plain fit raised {type(e).__name__}: {e}", desc0)
            ref = None
        for logs, with_path in ([(dict(print_periodicity=8), False), (dict(print_periodicity=24), False),
                                 (dict(print_periodicity=12, save_periodicity=6), True)] if ref is not None else []):
            desc = dict(desc0, variant="logging-before-adaptation", logs=logs, path=("tmp" if with_path else None))
            run.case(("fit-long", kind, tuple(sorted(logs.items())), with_path), nontrivial=True)
            try:
                got = run_algo(run, "mcmc_saem", kind, seeds[0], n_long, logs, with_path)
            except Refused:
                continue
            except Exception as e:
                run.fail(f"logging:abort:{type(e).__name__}", f"accepted configuration aborts the fit: {type(e).__name__}: {e}", desc,
                         expected="run finishes", observed=f"{type(e).__name__}: {e}")
                continue
            run.count("fit_variants", "logging-before-adaptation")
            check_equal(run, ref, got, desc, "logging")

    # ---- the same with a non-default schedule in force (annealing on): whatever the algorithm does per iteration besides
    # sampling and maximising (temperature updates, ...) must not depend on whether a logs manager exists
    ann = dict(annealing=dict(do_annealing=True, n_plateau=3, initial_temperature=5.0))
    n_ann = 8
    for kind in kinds_fit[:1] + (kinds_fit[1:2] if thorough else []):
        desc0 = dict(algo="mcmc_saem", kind=kind, seed=seeds[0], n_iter=n_ann, **ann)
        try:
            ref = run_algo(run, "mcmc_saem", kind, seeds[0], n_ann, {}, False, extra=ann)
        except Exception as e:
            run.fail(f"fit:abort:{type(e).__name__}", f"fit with annealing raised {type(e).__name__}: {e}", desc0)
            continue
        for logs, with_path in [({}, True), (dict(print_periodicity=2), False), (dict(save_periodicity=2, plot_periodicity=4), True),
                                (dict(print_periodicity=1, save_periodicity=1, plot_patient_periodicity=4), True)]:
            desc = dict(desc0, variant="logging+annealing", logs=logs, path=("tmp" if with_path else None))
            run.case(("fit-annealing", kind, tuple(sorted(logs.items())), with_path), nontrivial=True)
            try:
                got = run_algo(run, "mcmc_saem", kind, seeds[0], n_ann, logs, with_path, extra=ann)
            except Refused:
                run.count("fit_variants", "refused-at-construction")
                continue
            except Exception as e:
                run.fail(f"logging:abort:{type(e).__name__}", f"accepted configuration aborts the fit: {type(e).__name__}: {e}", desc,
                         expected="run finishes", observed=f"{type(e).__name__}: {e}")
                continue
            run.count("fit_variants", "logging+annealing")
            check_equal(run, ref, got, desc, "logging")

    # ---- personalize / simulate on a saved model (so that the model's own history is constant: that part is C13)
    wd = tmpdir()
    try:
        algos = ["scipy_minimize", "mean_posterior", "mode_posterior", "simulate"]
        kinds = ["logistic"] + (["linear", "joint"] if thorough else [])
        for kind in kinds:
            m, _ = synth.fit(kind, n_iter=15, seed=2, n_ind=7, n_feat=MODEL_SHAPES[kind][0], source_dimension=MODEL_SHAPES[kind][1],
                             df=cohort(kind))
            mj = os.path.join(wd, f"{kind}.json")
            m.save(mj)
            for algo in algos:
                if algo == "simulate" and kind != "logistic":
                    continue
                for seed in seeds:
                    desc0 = dict(algo=algo, kind=kind, seed=seed, n_iter=12)
                    try:
                        ref = run_algo(run, algo, kind, seed, 12, {}, False, model_json=mj)
                    except Exception as e:
                        run.fail(f"{algo}:abort:{type(e).__name__}", f"{algo} raised {type(e).__name__}: {e}", desc0)
                        continue
                    variants = [("repeat", None, {}, False), ("rng-consumed-before", consume_rng, {}, False),
                                ("other-model-fitted-before", other_fit_before, {}, False),
                                ("logging", None, dict(print_periodicity=1), False),
                                ("logging", None, dict(save_periodicity=1, plot_periodicity=1), True)]
                    for name, pre, logs, with_path in variants:
                        desc = dict(desc0, variant=name, logs=logs, path=("tmp" if with_path else None))
                        try:
                            got = run_algo(run, algo, kind, seed, 12, logs, with_path, pre=pre, model_json=mj)
                        except Refused:
                            run.count(f"{algo}_variants", "refused-at-construction")
                            continue
                        except Exception as e:
                            run.fail(f"{algo}:abort:{type(e).__name__}", f"{algo} ({name}) raised {type(e).__name__}: {e}", desc)
                            continue
                        run.count(f"{algo}_variants", name)
                        run.case((algo, kind, seed, name, tuple(sorted(logs.items())), with_path), nontrivial=True)
                        check_equal(run, ref, got, desc, name)
    finally:
        shutil.rmtree(wd, ignore_errors=True)


# ----------------------------------------------------------------------------- prior activity: the process-wide default dtype


def dtype_history(run: Run, thorough: bool):
    """`torch.set_default_dtype(torch.float64)` called earlier in the interpreter (double-precision work between building the
    inputs and the seeded call) is prior activity like any other: model and Dataset are built first (single precision, as always),
    the default dtype is switched, the seeded call is made, the default is restored; the result must be the one of the same call
    made without the switch, and the call must not abort."""
    import torch
    from harness import synth
    from leaspy.algo import AlgorithmSettings
    from leaspy.io.data.dataset import Dataset
    from leaspy.models import BaseModel
    kinds = ["logistic"] + (["linear", "joint", "shared_speed_logistic"] if thorough else ["linear"])
    seed = 5 + run.seed % 50
    wd = tmpdir()
    try:
        for kind in kinds:
            df = cohort(kind, seed=2, n_ind=8)
            calls = [("mcmc_saem", dict(n_iter=12)), ("mean_posterior", dict(n_iter=10)), ("mode_posterior", dict(n_iter=10)), ("scipy_minimize", {})]
            try:
                with quiet(wd):
                    base, _ = synth.fit(kind, n_iter=10, seed=2, n_ind=8, n_feat=MODEL_SHAPES[kind][0], source_dimension=MODEL_SHAPES[kind][1], df=df)
                    mj = os.path.join(wd, f"dtype-{kind}.json")
                    base.save(mj)
            except Exception as e:
                run.fail(f"fit:abort:{type(e).__name__}", f"fit raised {type(e).__name__}: {e}", dict(kind=kind, variant="default-dtype"))
                continue
            for algo, kw in calls:
                desc = dict(algo=algo, kind=kind, seed=seed, variant="default-dtype-float64-set-before-the-call", **kw)
                out = []
                for dt in (torch.float32, torch.float64):
                    with quiet(wd):
                        ds = Dataset(synth.make_data(df, kind))
                        if algo == "mcmc_saem":
                            model = new_model(kind)
                            model.initialize(ds)
                        else:
                            model = BaseModel.load(mj)
                        st = AlgorithmSettings(algo, seed=seed, progress_bar=False, **kw)
                        torch.set_default_dtype(dt)
                        try:
                            if algo == "mcmc_saem":
                                model.fit(ds, algorithm_settings=st)
                                out.append(digest_params(model))
                            else:
                                out.append(digest_df(model.personalize(ds, algorithm_settings=st).to_dataframe().sort_index()))
                        except Exception as e:
                            out.append(("exc", type(e).__name__, str(e)[:160]))
                        finally:
                            torch.set_default_dtype(torch.float32)
                run.case(("dtype-history", kind, algo, seed), nontrivial=True)
                run.count("dtype_history", algo)
                if isinstance(out[0], tuple):
                    run.fail(f"{algo}:abort:{out[0][1]}", f"{algo} raised {out[0][1]}: {out[0][2]}", desc)
                elif isinstance(out[1], tuple):
                    run.fail(f"history:default-dtype-float64:{algo}:aborts", f"the seeded call aborts when torch's default dtype was set to float64 earlier in the "
                             f"interpreter ({out[1][1]}: {out[1][2]}); without the switch it finishes", desc, expected="run finishes", observed=f"{out[1][1]}: {out[1][2]}")
                elif out[0] != out[1]:
                    run.fail(f"history:default-dtype-float64:{algo}", "same seed, model, Dataset and settings: the result differs when torch's default dtype was set "
                             "to float64 earlier in the interpreter", desc, expected=out[0], observed=out[1])
    finally:
        shutil.rmtree(wd, ignore_errors=True)


# ----------------------------------------------------------------------------- logging across model shapes


def logging_across_shapes(run: Run, thorough: bool):
    """What the observer writes depends on the SHAPE of the model (how many parameters there are to print, save and plot, how the
    convergence plots are laid out on pages): every number of features 1..6, scalar and per-feature noise, with and without sources —
    a short seeded fit with every periodicity on and a logs folder must finish and give the result of the same fit without logging."""
    from harness import synth
    shapes = [(1, 0, None), (2, 1, "gaussian-scalar"), (3, 1, "gaussian-scalar"), (4, 1, "gaussian-scalar"), (4, 2, "gaussian-diagonal"),
              (5, 0, "gaussian-scalar"), (6, 1, "gaussian-diagonal")]
    if thorough:
        shapes += [(3, 2, "gaussian-diagonal"), (5, 2, "gaussian-diagonal"), (6, 0, "gaussian-scalar"), (7, 1, "gaussian-scalar"), (2, 0, "gaussian-diagonal")]
    logs = dict(print_periodicity=2, save_periodicity=1, plot_periodicity=2)
    seed = 3 + run.seed % 40
    for nf, sd, noise in shapes:
        desc = dict(algo="mcmc_saem", kind="logistic", n_feat=nf, source_dimension=sd, noise=noise, seed=seed, n_iter=4, variant="logging-across-shapes",
                    logs=logs, path="tmp")
        df = synth.make_df(n_ind=7, n_feat=nf, seed=2, kind="logistic")
        out = []
        for with_logs in (False, True):
            wd = tmpdir()
            try:
                with quiet(wd):
                    try:
                        st = make_settings("mcmc_saem", seed, logs_kw(logs, os.path.join(wd, "logs")) if with_logs else {}, n_iter=4, progress_bar=False)
                    except Refused:
                        out.append("refused")
                        continue
                    model = synth.make_model("logistic", nf, sd, noise)
                    try:
                        model.fit(synth.make_data(df, "logistic"), algorithm_settings=st)
                        out.append(digest_params(model))
                    except Exception as e:  # noqa
                        out.append(("exc", type(e).__name__, str(e)[:160]))
            finally:
                shutil.rmtree(wd, ignore_errors=True)
        run.case(("logging-shapes", nf, sd, noise, seed), nontrivial=True)
        run.count("logging_across_shapes", f"{nf} features, {sd} sources, {noise}")
        if isinstance(out[0], tuple):
            run.fail(f"fit:abort:{out[0][1]}", f"fit raised {out[0][1]}: {out[0][2]}", dict(desc, logs={}, path=None))
        elif out[1] == "refused":
            run.count("fit_variants", "refused-at-construction")
        elif isinstance(out[1], tuple):
            run.fail(f"logging:abort:{out[1][1]}", f"accepted configuration aborts the fit: {out[1][1]}: {out[1][2]}", desc,
                     expected="run finishes", observed=f"{out[1][1]}: {out[1][2]}")
        elif out[0] != out[1]:
            run.fail("mcmc_saem:logging:result-differs", "same seed, different result (logging)", desc, expected=out[0], observed=out[1])


def check_equal(run, ref, got, desc, name):
    algo = desc["algo"]
    if got["digest"] != ref["digest"]:
        run.fail(f"{algo}:{name}:result-differs", f"same seed, different result ({name})", desc, expected=ref["digest"], observed=got["digest"])
    elif got["rng"] != ref["rng"]:
        run.fail(f"{algo}:{name}:generator-state-differs", f"same seed, same result but different final generator state ({name})", desc,
                 expected=ref["rng"], observed=got["rng"])
    if not got["settings_unchanged"]:
        run.fail(f"{algo}:settings-mutated", "the caller's AlgorithmSettings.parameters changed during the run", desc)


# ----------------------------------------------------------------------------- settings: deep copy (no shared mutable object)


def mutable_ids(x, acc):
    if isinstance(x, dict):
        acc[id(x)] = x
        for v in x.values():
            mutable_ids(v, acc)
    elif isinstance(x, (list, set)):
        acc[id(x)] = x
        for v in x:
            mutable_ids(v, acc)
    return acc


def settings_copy(run: Run):
    from leaspy.algo import AlgorithmSettings, algorithm_factory
    for algo, kw in [("mcmc_saem", dict(n_iter=20)), ("mcmc_saem", dict(n_iter=20, annealing=dict(do_annealing=True, n_plateau=2))),
                     ("mean_posterior", dict(n_iter=10)), ("mode_posterior", dict(n_iter=10)), ("scipy_minimize", {}),
                     ("simulate", dict(features=["Y0"], visit_parameters=copy.deepcopy(VISITS)))]:
        with quiet():
            st = AlgorithmSettings(algo, seed=0, progress_bar=False, **kw)
            snap = copy.deepcopy(st.parameters)
            try:
                a = algorithm_factory(st)
            except Exception as e:
                run.fail(f"settings:factory:{type(e).__name__}", f"algorithm_factory raised {e}", dict(algo=algo, kw=kw))
                continue
        mine, theirs = mutable_ids(st.parameters, {}), mutable_ids(a.algo_parameters, {})
        shared = [type(mine[i]).__name__ for i in mine if i in theirs]
        changed = sorted(k for k in a.algo_parameters if a.algo_parameters.get(k) != snap.get(k))
        run.case(("settings", algo, tuple(sorted(kw))), nontrivial=bool(changed) or algo != "scipy_minimize")
        run.count("settings_keys_written_by_constructor", ",".join(changed) or "-")
        if shared:
            run.fail("settings:aliased", f"algo_parameters shares mutable objects with the caller's settings ({shared})", dict(algo=algo, kw=kw))
        if not _same(snap, st.parameters):
            run.fail(f"{algo}:settings-mutated", "constructing the algorithm changed the caller's settings", dict(algo=algo, kw=kw))


# ----------------------------------------------------------------------------- entry points


def build_tie(run: Run):
    from harness.common import make
    ok, out = make(["theories/Api/ApiTie.vo"], jobs=8)
    if not ok:
        run.broken("build:ApiTie", out[-1500:])
    ok2, out = make(["theories/Api/RunProgTie.vo"], jobs=8)
    if not ok2:
        import re
        m = re.search(r'File "([^"]+)", line (\d+)[^\n]*\n(?:.*\n){0,8}', out)
        run.broken("build:RunProgTie",
                   "Api/RunProgTie.v does not build.  Its first lemmas (`gen_well_shaped`, `gen_guards_ok`) are decided by vm_compute on "
                   "coq/gen/GenC11.v, the control flow regenerated from the source: a failure there means the fit no longer has the shape of "
                   "`fit_run` (an algorithm event or a test of the logging configuration where only the other side may stand, an observer call "
                   "outside `if self.output_manager is not None` or outside its periodicity test).\n" + (m.group(0) if m else out[-1500:]))
    ok3, out = make(["theories/Api/ObserverSrcTie.vo"], jobs=8)
    if not ok3:
        import re
        m = re.search(r'File "([^"]+)", line (\d+)[^\n]*\n(?:.*\n){0,8}', out)
        run.broken("build:ObserverSrcTie",
                   "Api/ObserverSrcTie.v does not build.  `gen_ops_allowed` is decided by vm_compute on coq/gen/GenC11Obs.v, the operations of "
                   "the output manager's methods read from the source: a failure there means a method performs an operation that is not a "
                   "read / own-register write / clone.\n" + (m.group(0) if m else out[-1500:]))
    return ok2 and ok3


def main(run: Run):
    from harness.common import use_impl
    try:
        translate(run)
    except Exception as e:  # a crashing translator is a broken translation, not a crash of the check
        import traceback
        run.broken("translate:GenC11", f"translator crashed: {type(e).__name__}: {e}\n{traceback.format_exc()[-800:]}", kind="broken-translation")
    run.prove("C11", OBLIGATIONS)
    global PROG_TIE_OK
    PROG_TIE_OK = build_tie(run)
    use_impl()
    thorough = run.tier == "thorough"
    os.makedirs(SCRATCH, exist_ok=True)
    run.rule = ("(a) real fits recorded with and without logging, compared inside Coq with the model's read_only predicate; non-trivial = "
                "the logged run performs at least one observer operation; the same recordings (+ one without OutputsSettings, one with the "
                "progress bar on and sorted sampling order) carry markers around the calls that are the named events of the program "
                "regenerated from the source, and Coq checks that the marker sequence is the unfolding of that program in the configuration "
                "read from the algorithm object (non-trivial = more than 10 named events). (b,c) seeded public calls (mcmc_saem fit; scipy_minimize, "
                "mean_posterior, mode_posterior, simulate on a saved model) repeated / after generator consumption / after another fit / "
                "over the grid print,save,plot,plot_patient in {None,1,3,n_iter} x path in {None,tmp} (quick: directed core + seeded sample; "
                "thorough: full grid for logistic, 40 sampled combinations for the other kinds); non-trivial = the configuration was accepted "
                "at construction. Compared bit-for-bit (sha1 of tensors / dataframes, final digests of the three generator states).")
    run.explanation = ("Unbounded statements are proved on the event-script model; that a fit's control flow IS that script is proved of the "
                       "structured program regenerated from the source on every run (translator fail-closed; a change of shape breaks "
                       "`gen_well_shaped` / `gen_guards_ok`); the per-run checks establish that real runs execute that program and that the "
                       "named events have the nature the model assumes (logging = read-only observer scripts without generator calls) and "
                       "search the implementation for a seed / history / logging combination that changes a result or aborts.")
    run.assumptions += [
        "behaviour of one State object = the ten facts of `state_interface` (to be discharged by C01; proved for the memo table of ApiInst.v)",
        "what an observer reads goes to the console / files only (own registers in the model)",
        "python random, numpy global RandomState and torch default generator are the only entropy sources (digest-checked around observers)",
    ]
    run.trusted += ["harness/recorder.py (wrappers around State methods and RNG entry points, generator-state digests)",
                    "Coq evaluation (vm_compute) of Api/ApiTie.v checkers on encoded traces",
                    "span markers of harness/props/c11.py (instance-level wrappers naming the calls that are the events of Api/RunProg.v)"]
    try:
        trace_correspondence(run, thorough)
        settings_copy(run)
        observer_purity(run)
        metamorphic(run, thorough)
        dtype_history(run, thorough)
        logging_across_shapes(run, thorough)
    finally:
        shutil.rmtree(SCRATCH, ignore_errors=True)
    return run.finish()


def replay(run: Run, path: str):
    from harness.common import use_impl
    use_impl()
    d = json.load(open(path))
    inp = d.get("input") or {}
    if "algo" not in inp and "kind" in inp and "logs" in inp:
        inp = dict(inp, algo="mcmc_saem", variant="logging", path="tmp")
    if "algo" not in inp:
        print("replay: this file records a broken obligation / a settings case; re-running the check")
        return main(run)
    algo, kind, seed, n_iter = inp["algo"], inp["kind"], int(inp["seed"]), int(inp.get("n_iter", 4))
    logs, with_path = inp.get("logs") or {}, inp.get("path") == "tmp"
    pre = {"rng-consumed-before": consume_rng, "other-model-fitted-before": other_fit_before}.get(inp.get("variant"))
    os.makedirs(SCRATCH, exist_ok=True)
    wd = tmpdir()
    try:
        mj = None
        if algo != "mcmc_saem":
            from harness import synth
            m, _ = synth.fit(kind, n_iter=15, seed=2, n_ind=7, n_feat=MODEL_SHAPES[kind][0], source_dimension=MODEL_SHAPES[kind][1], df=cohort(kind))
            mj = os.path.join(wd, "m.json")
            m.save(mj)
        ref = run_algo(run, algo, kind, seed, n_iter, {}, False, model_json=mj)
        print(f"reference ({algo}, {kind}, seed={seed}): result {ref['digest']} generators {ref['rng'][:12]}")
        try:
            got = run_algo(run, algo, kind, seed, n_iter, logs, with_path, pre=pre, model_json=mj)
        except Refused as e:
            print("configuration refused at construction:", e)
            return 0
        except Exception as e:
            print(f"variant {inp.get('variant')} logs={logs} path={inp.get('path')}: ABORTS with {type(e).__name__}: {e}")
            print("REPLAY FAILS")
            return 1
        print(f"variant {inp.get('variant')} logs={logs} path={inp.get('path')}: result {got['digest']} generators {got['rng'][:12]}")
        bad = got["digest"] != ref["digest"] or got["rng"] != ref["rng"] or not got["settings_unchanged"]
        print("REPLAY", "FAILS" if bad else "passes")
        return 1 if bad else 0
    finally:
        shutil.rmtree(SCRATCH, ignore_errors=True)
