"""C13 — estimate, personalize and simulate leave the model and caller inputs untouched."""
from __future__ import annotations

import contextlib
import copy
import hashlib
import io
import json
import os
import shutil
import struct
import subprocess
import sys
import tempfile
import time
import warnings

from harness.common import Run, coq_list
from harness.translate import c13_calls
from harness.props import c13_settings

META = dict(
    technique="Coq theorems on the store-of-States + generator-tape model of Api/ApiModel.v (public calls as operation scripts: a script "
              "that only addresses clones leaves the model's State object exactly as it was; MCMC personalisation ends with every "
              "parameter / hyper-parameter / population variable agreeing with the state before and every data and individual variable "
              "unset; a call whose reads are all determined by kept variables + what it assigned itself returns the same thing on any "
              "two histories and for any generator position before its seeds; hence a repeated call gives the same answer) + trace "
              "correspondence decided inside Coq (recorded State operations of the real estimate / personalize x3 / simulate calls are "
              "compared with the log emitted by the model's scripts, and the theorems' computable hypotheses are evaluated on the "
              "recorded traces) + deep before/after snapshots around every public call of random call sequences on the implementation",
    level_text="partial: purity, cleaning, history independence and repeatability are proved for every script of the stated shape on the "
               "model, with the behaviour of one State object as an explicit interface; that interface is PROVED for the State model of C01 "
               "on every well-formed graph and purity / cleaning / history independence are re-stated over State objects reachable from "
               "init_store with the hypothesis gone (C13_*_state; coq/theories/Compose, docs/Compose-api.md). That the CODE's calls have these shapes is checked per run on recorded traces inside Coq, and the "
               "property itself is searched on the real code: random sequences of fit / estimate / personalize (3 algorithms) / simulate "
               "/ save / load on all shipped kinds with bit-exact snapshots of model.parameters, hyper-parameters, population variables, "
               "state._values, caller DataFrame / Data / Dataset / AlgorithmSettings / IndividualParameters, repeat-call identity and "
               "identity with the same call on load(save(copy of the model)). History independence is REFUTED for scipy_minimize "
               "(C13_scipy_start_refuted, finding F6) and reproduced on the code.",
    level_note="Source-level tie (extension): harness/translate/c13_calls.py regenerates coq/gen/GenC13.v (estimate, MCMC personalisation, "
               "scipy_minimize as programs over named objects, the footprint of simulate, the kind of copy of the settings) from the "
               "python ast; Api/SrcProg*.v prove for every instance that they denote the scripts of Api/ApiCalls.v with the theorems' shape "
               "predicates (C13_src_*), and every recorded call is checked inside Coq to be an execution of the generated program. "
               "Flow check on the generated programs (extension 2, Api/SrcFlow*.v): for every instance the generated MCMC / estimate programs pass the "
               "flow check of C13_history_independent when what the initialisation functions read is determined by kept variables and kept + data + "
               "individual variables are closed / the variables read by estimate depend on kept variables, t and the given parameters only "
               "(C13_src_mcmc_history_independent, _repeat_same_answer, C13_src_estimate_history_independent); the generated scipy program is rejected "
               "as soon as the per-individual initialisation reads a variable kept + data variables do not determine (C13_src_scipy_flow_refuted, F6); "
               "these hypotheses are evaluated inside Coq on every recorded instance (Api/SrcFlowTie.v). "
               "Settings object (extension): algo/settings.py is modelled (Api/Settings.v: nested update, resolution, save/load, heap of "
               "dictionary objects); C13_settings_*: explicit key wins / default kept / nested update / idempotence, ANY write sequence "
               "through the deep copy at any depth leaves the caller's settings as they were; rule regenerated from the source "
               "(harness/translate/settings.py -> GenSettings.v) and the model evaluated inside Coq on real constructions, algorithm "
               "views, save/load and dictionary sharing for all 8 algorithm names (harness/props/c13_settings.py). "
               "Not covered by proof: pandas / joblib aliasing of caller tables and Data objects (snapshots only), the optimiser and "
               "samplers (arbitrary bodies in the theorems), n_jobs > 1, GPU. Trusted: Coq kernel, harness/recorder.py (wraps State "
               "methods and RNG entry points in-process), the canonical digests of tensors / tables / objects in this file.",
    design_ref="DESIGN.md section 4 C13, section 6 F6",
)

OBLIGATIONS = [
    "C13_estimate_pure", "C13_simulate_pure", "C13_mcmc_clean", "C13_scipy_state",
    "C13_history_independent", "C13_history_independent_estimate", "C13_history_independent_mcmc",
    "C13_scipy_start_refuted", "C13_examples",
    "C13_clones_only_pure", "C13_estimate_many_pure", "C13_scipy_call_pure", "C13_mcmc_call_clean",
    "C13_seeded_call_function_of_seed", "C13_repeated_call_same_answer", "C13_mcmc_repeat_same_answer",
    "C13_settings_copied", "C13_settings_alias_refuted", "C13_call_examples",
    # composition with C01 (coq/theories/Compose/): the interface hypothesis discharged on the real State model
    "C13_state_interface_discharged", "C13_estimate_pure_state", "C13_simulate_pure_state", "C13_mcmc_clean_state",
    "C13_history_independent_state", "C13_state_examples",
]

SRC_OBLIGATIONS = [
    # source-level tie (Api/SrcProg*.v): the programs regenerated from today's source denote the scripts above
    "C13_src_estimate_pure", "C13_src_mcmc_call_clean", "C13_src_scipy_call_pure", "C13_src_simulate_pure", "C13_src_settings_copied", "C13_src_examples",
    # the flow check on the generated programs, symbolically (Api/SrcFlow*.v)
    "C13_src_mcmc_history_independent", "C13_src_mcmc_repeat_same_answer", "C13_src_estimate_history_independent",
    "C13_src_scipy_flow_refuted", "C13_src_flow_examples",
]
OBLIGATIONS += SRC_OBLIGATIONS
# the settings object itself (Api/Settings*.v; T1 harness/translate/settings.py, T2 harness/props/c13_settings.py)
OBLIGATIONS += c13_settings.OBLIGATIONS


def translate(run: Run) -> bool:
    """T1: regenerate coq/gen/GenC13.v (the public calls as source-level programs) from $VERIF_REPO; fail closed."""
    try:
        ok = c13_calls.translate(run)
    except Exception as e:  # noqa - an AST shape the translator has never met must not stop the search
        import traceback
        run.broken("translate:GenC13", f"translator crashed: {type(e).__name__}: {e}\n{traceback.format_exc()[-800:]}", kind="broken-translation")
        ok = False
    if not ok:
        # never leave the programs of an earlier run behind: the proofs must not be checked against a stale translation
        run.gen("GenC13", "(* the translation of this run FAILED (harness/translate/c13_calls.py): no program *)\n")
    translate.settings_ok = c13_settings.translate(run)      # coq/gen/GenSettings.v (fails closed the same way)
    return ok


SCRATCH = f"/tmp/scratch/c13-check-{os.getpid()}"
F6_SIG = "scipy_minimize:start-point-from-individual-values-left-by-fit"
MIX_SIG = "personalize-mcmc:aborted-call-leaves-its-data:mixture_logistic"

VISITS = {"patient_number": 4, "visit_type": "random", "first_visit_mean": 0.0, "first_visit_std": 0.4,
          "time_follow_up_mean": 3, "time_follow_up_std": 0.5, "distance_visit_mean": 1.0, "distance_visit_std": 0.2,
          "min_spacing_between_visits": 1}

MODEL_SHAPES = {  # kind -> (n_feat, source_dimension, noise)
    "logistic": (2, 1, None),
    "linear": (2, None, None),
    "shared_speed_logistic": (2, 1, None),
    "joint": (1, None, None),
    "mixture_logistic": (3, 2, "gaussian-diagonal"),
}
KIND_WEIGHTS = [("logistic", 36), ("linear", 18), ("shared_speed_logistic", 14), ("joint", 20), ("mixture_logistic", 12)]
MCMC = ("mean_posterior", "mode_posterior")
ALGOS = ("scipy_minimize",) + MCMC


# ----------------------------------------------------------------------------- small helpers


@contextlib.contextmanager
def quiet(cwd=None):
    old = os.getcwd()
    if cwd:
        os.chdir(cwd)
    try:
        with warnings.catch_warnings():
            warnings.simplefilter("ignore")
            with contextlib.redirect_stdout(io.StringIO()), contextlib.redirect_stderr(io.StringIO()):
                yield
    finally:
        os.chdir(old)


def tmpdir():
    os.makedirs(SCRATCH, exist_ok=True)
    return tempfile.mkdtemp(dir=SCRATCH)


# ----------------------------------------------------------------------------- canonical form (bit-exact) of anything


# lazily filled caches of caller objects (Dataset.get_one_hot_encoding): filling one is not a modification of the data
LAZY_CACHES = {"_one_hot_encoding"}


def _h(b: bytes) -> str:
    return hashlib.sha1(b).hexdigest()[:16]


def canon(x, _seen=None, _depth=0):
    """Bit-exact canonical value of tensors, arrays, tables, containers and plain objects (floats by their bytes, NaN included;
    dict / column / row ORDER is part of the value: 'exactly as they were')."""
    import enum
    import pathlib
    import numpy as np
    import pandas as pd
    import torch
    if _seen is None:
        _seen = set()
    if x is None or isinstance(x, (bool, int, str, bytes)):
        return x
    if isinstance(x, float):
        return ("f", struct.pack("<d", x).hex())
    if isinstance(x, complex):
        return ("c", repr(x))
    if isinstance(x, enum.Enum):
        return ("enum", type(x).__name__, x.name)
    if isinstance(x, pathlib.PurePath):
        return ("path", str(x))
    if isinstance(x, np.generic):
        return ("npg", str(x.dtype), x.tobytes().hex())
    if isinstance(x, np.ndarray):
        if x.dtype == object:
            return ("nda-o", tuple(x.shape), tuple(canon(v, _seen, _depth + 1) for v in x.ravel().tolist()))
        return ("nda", str(x.dtype), tuple(x.shape), _h(np.ascontiguousarray(x).tobytes()))
    if isinstance(x, torch.Tensor):
        t = x.detach().cpu().contiguous()
        raw = t.to(torch.uint8).numpy().tobytes() if t.dtype == torch.bool else t.numpy().tobytes()
        return ("T", str(t.dtype), tuple(t.shape), _h(raw))
    if isinstance(x, pd.MultiIndex):
        return ("MI", tuple(map(str, x.names)), tuple(canon(x.get_level_values(i).values, _seen, _depth + 1) for i in range(x.nlevels)))
    if isinstance(x, pd.Index):
        return ("IX", type(x).__name__, str(x.name), str(x.dtype), canon(x.values, _seen, _depth + 1))
    if isinstance(x, pd.Series):
        return ("S", str(x.name), str(x.dtype), canon(x.index, _seen, _depth + 1), canon(x.values, _seen, _depth + 1))
    if isinstance(x, pd.DataFrame):
        return ("DF", canon(x.columns, _seen, _depth + 1), tuple(str(t) for t in x.dtypes), canon(x.index, _seen, _depth + 1),
                tuple(canon(x.iloc[:, j].values, _seen, _depth + 1) for j in range(x.shape[1])))
    if isinstance(x, dict):
        return ("dict", tuple((canon(k, _seen, _depth + 1), canon(v, _seen, _depth + 1)) for k, v in x.items()))
    if isinstance(x, (list, tuple)):
        return (type(x).__name__, tuple(canon(v, _seen, _depth + 1) for v in x))
    if isinstance(x, (set, frozenset)):
        return ("set", tuple(sorted((canon(v, _seen, _depth + 1) for v in x), key=repr)))
    import types
    if isinstance(x, (type, types.FunctionType, types.BuiltinFunctionType, types.MethodType, types.ModuleType)):
        return ("fn", getattr(x, "__qualname__", getattr(x, "__name__", repr(type(x)))))
    if _depth > 40:
        return ("deep", type(x).__name__)
    if id(x) in _seen:
        return ("cycle", type(x).__name__)
    d = None
    if hasattr(x, "__dict__"):
        d = dict(vars(x))
    if hasattr(type(x), "__slots__"):
        d = d or {}
        for cls in type(x).__mro__:
            for s in getattr(cls, "__slots__", ()) or ():
                if isinstance(s, str) and hasattr(x, s):
                    d.setdefault(s, getattr(x, s))
    if d is not None:
        _seen = _seen | {id(x)}
        return ("obj", type(x).__name__, tuple((k, canon(v, _seen, _depth + 1)) for k, v in d.items() if k not in LAZY_CACHES))
    return ("repr", type(x).__name__, repr(x))


def digest(c) -> str:
    return hashlib.sha1(repr(c).encode()).hexdigest()[:12]


def first_diff(a, b, path="") -> str:
    """Where two canonical values differ (for the report)."""
    if type(a) != type(b):
        return f"{path}: {str(a)[:60]} vs {str(b)[:60]}"
    if isinstance(a, tuple):
        if len(a) != len(b):
            return f"{path}: length {len(a)} vs {len(b)}"
        if len(a) == 2 and isinstance(a[0], str) and not isinstance(a[1], tuple) and a[0] == b[0]:
            pass
        for i, (u, v) in enumerate(zip(a, b)):
            if u != v:
                key = ""
                if isinstance(u, tuple) and len(u) == 2 and isinstance(u[0], str) and isinstance(v, tuple) and len(v) == 2 and u[0] == v[0]:
                    return first_diff(u[1], v[1], f"{path}.{u[0]}")
                return first_diff(u, v, f"{path}[{i}]{key}")
    return f"{path}: {str(a)[:70]} vs {str(b)[:70]}"


# ----------------------------------------------------------------------------- cohorts and inputs (deterministic in their spec)


def cohort(kind, seed, n_ind=6, messy=True):
    """Caller table for `kind`; messy = rows shuffled, non-default index, ages with 8 decimals, one float32 column —
    so that an in-place sort / round / cast / reset_index of the CALLER's table is visible."""
    import random
    import numpy as np
    from harness import synth
    nf = MODEL_SHAPES[kind][0]
    df = synth.make_df(n_ind=n_ind, n_feat=nf, seed=seed, joint=(kind == "joint"), kind=kind, visits=(3, 5))
    if not messy:
        return df
    rng = random.Random(seed * 101 + 7)
    df["TIME"] = [t + rng.randrange(1, 90) * 1e-8 for t in df["TIME"]]
    order = list(range(len(df)))
    rng.shuffle(order)
    df = df.iloc[order].copy()
    df.index = [100 + 3 * i for i in order]
    if nf >= 2:
        df["Y1"] = df["Y1"].astype(np.float32)
    return df


def pick_ids(df, which):
    ids = sorted(df.ID.unique())
    return [ids[i % len(ids)] for i in which]


def subset(df, kind, which):
    ids = pick_ids(df, which)
    if kind == "joint" and not df[df.ID.isin(ids)].EVENT_BOOL.any():   # the joint reader refuses a cohort without any event
        ids.append(sorted(df[df.EVENT_BOOL == 1].ID.unique())[0])
    return df[df.ID.isin(ids)].copy()


def make_personalize_input(kind, op):
    """(object passed to personalize, list of caller objects to watch)."""
    from harness import synth
    from leaspy.io.data import Dataset
    df = cohort(kind, op["cohort"])
    sub = subset(df, kind, op["ids"])
    form = op.get("as", "df")
    if form == "df":
        if kind == "joint":      # a bare table is read as visit data; joint needs the event columns -> Data
            form = "data"
        else:
            return sub, [("table", sub)]
    data = synth.make_data(sub, kind)
    if form == "data":
        return data, [("Data", data), ("table", sub)]
    ds = Dataset(data)
    return ds, [("Dataset", ds), ("Data", data), ("table", sub)]


def make_settings(op, model):
    from leaspy.algo import AlgorithmSettings
    if op["op"] == "simulate":
        vp = copy.deepcopy(VISITS)
        if op.get("visits") == "dataframe":
            import pandas as pd
            rows = [(f"v{i}", 60.0 + 3 * i + j * 1.25) for i in (2, 0, 1) for j in range(3)]
            vp = {"visit_type": "dataframe", "df_visits": pd.DataFrame(rows, columns=["ID", "TIME"], index=[7 + 2 * k for k in range(len(rows))])}
        return AlgorithmSettings("simulate", seed=op["seed"], features=list(model.features), visit_parameters=vp)
    kw = dict(progress_bar=False)
    if op["algo"] in MCMC:
        kw["n_iter"] = op.get("n_iter", 12)
        if op.get("annealing"):
            # nested settings (the annealing dictionary) are part of the caller's object too: the algorithm resolves
            # annealing.n_iter from the fraction and must write it into its own copy only
            kw["annealing"] = dict(do_annealing=True, n_plateau=3, initial_temperature=4.0)
        if op.get("sampler_pop"):
            # settings written for a fit and reused for a personalisation: the population-sampler keys are accepted (with a
            # "not present by default" warning) and must stay without effect — a personalisation never samples population variables
            kw["sampler_pop"] = op["sampler_pop"]
            if op.get("sampler_pop_params"):
                kw["sampler_pop_params"] = copy.deepcopy(op["sampler_pop_params"])
    return AlgorithmSettings(op["algo"], seed=op["seed"], **kw)


def make_estimate_input(kind, op, model):
    import random
    import pandas as pd
    from leaspy.io.outputs import IndividualParameters
    rng = random.Random(op.get("seed", 0) * 13 + 5)
    ip = IndividualParameters()
    ids = [f"e{j}" for j in range(op.get("n", 2))]
    sd = int(getattr(model, "source_dimension", 0) or 0)
    for i in ids:
        d = {"xi": rng.uniform(-0.3, 0.3), "tau": rng.uniform(66, 74)}
        if sd:
            d["sources"] = [rng.uniform(-0.5, 0.5) for _ in range(sd)]
        ip.add_individual_parameters(i, d)
    tps = {i: [round(68 + rng.uniform(0, 6), 2) for _ in range(rng.randint(1, 3))] for i in ids}
    if op.get("form") == "multiindex":
        tp = pd.MultiIndex.from_tuples([(i, t) for i in reversed(ids) for t in tps[i]], names=["ID", "TIME"])
    else:
        tp = tps
    return tp, ip


# ----------------------------------------------------------------------------- snapshots of the model


def var_classes(model):
    out = {}
    for n, v in model.dag.items():
        out[n] = type(v).__name__
    return out


def independent_ancestors(model):
    """name -> sorted names of the independent variables a read of it depends on (itself when independent)."""
    dag = model.dag
    cls = var_classes(model)
    memo = {}

    def go(n):
        if n in memo:
            return memo[n]
        if cls[n] != "LinkedVariable":
            memo[n] = {n}
            return memo[n]
        s = set()
        for p in dag.direct_ancestors[n]:
            s |= go(p)
        memo[n] = s
        return s
    return {n: sorted(go(n)) for n in dag}


KEPT_CLASSES = ("ModelParameter", "Hyperparameter", "PopulationLatentVariable")
CALL_CLASSES = ("DataVariable", "IndividualLatentVariable")


def snapshot(model):
    """Everything the property speaks about, without triggering any computation in the State (raw `_values`)."""
    cls = var_classes(model)
    vals = model.state._values
    anc = independent_ancestors(model)
    snap = dict(state_id=id(model.state))
    snap["kept"] = {n: canon(vals[n]) for n in sorted(vals) if cls[n] in KEPT_CLASSES}
    snap["call"] = {n: canon(vals[n]) for n in sorted(vals) if cls[n] in CALL_CLASSES}
    # cached derived values that depend on kept variables only
    snap["derived_kept"] = {n: canon(vals[n]) for n in sorted(vals)
                            if cls[n] == "LinkedVariable" and all(cls[a] in KEPT_CLASSES for a in anc[n])}
    try:
        with quiet():
            snap["to_dict"] = canon(model.to_dict())
    except Exception as e:  # pragma: no cover
        snap["to_dict"] = ("exc", type(e).__name__)
    # model hyper-parameters in leaspy's other sense (what `_load_hyperparameters` sets); NOT `tracked_variables` & co: the
    # property lists parameters, hyper-parameters and population variables only
    snap["attrs"] = canon(dict(features=list(model.features) if model.features is not None else None, dimension=model.dimension,
                               source_dimension=getattr(model, "source_dimension", None), name=model.name))
    return snap


def compare_snapshots(pre, post, *, ctx, emit, aborted):
    """Property clauses 1 and 2 on one call.  Returns True when the state is fine."""
    ok = True
    sfx = ":after-exception" if aborted else ""
    for n in pre["kept"]:
        if post["kept"].get(n) != pre["kept"][n]:
            emit(f"state:kept-variable-changed{sfx}", f"{ctx}: variable `{n}` (parameter / hyper-parameter / population variable) of model.state is not "
                 f"bit-identical after the call", expected=str(pre["kept"][n])[:120], observed=str(post["kept"].get(n))[:120])
            ok = False
            break
    if ok and post["to_dict"] != pre["to_dict"]:
        emit(f"state:model-dict-changed{sfx}", f"{ctx}: model.to_dict() differs after the call at {first_diff(pre['to_dict'], post['to_dict'])}")
        ok = False
    if ok and post["attrs"] != pre["attrs"]:
        emit(f"state:model-attributes-changed{sfx}", f"{ctx}: {first_diff(pre['attrs'], post['attrs'])}")
        ok = False
    for n in pre["derived_kept"]:
        a, b = pre["derived_kept"][n], post["derived_kept"].get(n)
        if a is not None and b is not None and a != b:
            emit(f"state:derived-cache-changed{sfx}", f"{ctx}: cached derived variable `{n}` (function of kept variables only) changed value")
            ok = False
            break
    left = [n for n in post["call"] if post["call"][n] is not None and post["call"][n] != pre["call"].get(n)]
    if left:
        emit(f"state:call-values-left-behind{sfx}", f"{ctx}: after the call model.state holds data / individual latent values that were not there "
             f"before it: {left}", expected="unset, or what the state held before the call", observed=left)
        ok = False
    return ok


# ----------------------------------------------------------------------------- executing one sequence on the implementation


class Abort(Exception):
    pass


def result_canon(res):
    from leaspy.io.outputs import IndividualParameters
    if isinstance(res, tuple) and res and res[0] == "exc":
        return res
    if isinstance(res, IndividualParameters):
        return ("IP", canon(list(res._indices)), canon(res._individual_parameters))
    if type(res).__name__ == "Result":
        with quiet():
            ip = res.individual_parameters
            return ("Result", canon(res.data.to_dataframe()),
                    result_canon(ip) if isinstance(ip, IndividualParameters) else canon(ip))
    return canon(res)


def public_call(model, op, kind, built):
    """Perform the public call of `op` with the already built caller objects; result or ('exc', type)."""
    try:
        with quiet():
            if op["op"] == "personalize":
                return model.personalize(built["data"], algorithm_settings=built["settings"])
            if op["op"] == "estimate":
                return model.estimate(built["timepoints"], built["ip"])
            if op["op"] == "simulate":
                return model.simulate(algorithm_settings=built["settings"])
    except Exception as e:
        return ("exc", type(e).__name__, str(e)[:160])
    raise ValueError(op)


def build_inputs(model, op, kind):
    built, watch = {}, []
    if op["op"] == "personalize":
        built["data"], watch = make_personalize_input(kind, op)
        built["settings"] = make_settings(op, model)
        watch = watch + [("AlgorithmSettings", built["settings"])]
    elif op["op"] == "estimate":
        built["timepoints"], built["ip"] = make_estimate_input(kind, op, model)
        watch = [("timepoints", built["timepoints"]), ("IndividualParameters", built["ip"])]
    elif op["op"] == "simulate":
        built["settings"] = make_settings(op, model)
        watch = [("AlgorithmSettings", built["settings"])]
    return built, watch


def fresh_copy(model, wd):
    """load(save(deepcopy(model))): a model object with the same parameters and no history; the model itself is not touched."""
    from leaspy.models import BaseModel
    with quiet():
        twin = copy.deepcopy(model)
        p = os.path.join(wd, f"fresh_{time.time_ns()}.json")
        twin.save(p)
        fresh = BaseModel.load(p)
    os.unlink(p)
    return fresh


def same_parameters(a, b):
    import torch
    pa, pb = a.parameters, b.parameters
    if sorted(pa) != sorted(pb):
        return False
    for k in pa:
        if pa[k].dtype != pb[k].dtype:       # float64 parameters come back as float32 (C12): not "the same parameters"
            return False
        x, y = pa[k].detach().to(torch.float64), pb[k].detach().to(torch.float64)
        if x.numel() != y.numel() or not torch.equal(x.reshape(-1), y.reshape(-1)):
            return False
    return True


def base_model_path(kind, wd):
    from harness import synth
    p = os.path.join(wd, f"base_{kind}.json")
    if not os.path.exists(p):
        nf, sd, noise = MODEL_SHAPES[kind]
        with quiet():
            m = synth.make_model(kind, nf, sd, noise)
            m.fit(synth.make_data(cohort(kind, 0, n_ind=8, messy=False), kind), "mcmc_saem", n_iter=10, seed=0, progress_bar=False)
            m.save(p)
    return p


def run_sequence(seq, wd, log=None):
    """Execute one sequence with all oracles.  Returns dict(fails=[...], stats={...}).  A fail carries the PREFIX of the
    sequence up to the failing call as its input."""
    from harness import synth
    from leaspy.models import BaseModel
    kind, ops = seq["kind"], seq["ops"]
    fails, stats = [], {}
    model, saved, ind_after_fit = None, None, None

    def count(k, n=1):
        stats[k] = stats.get(k, 0) + n

    def say(*a):
        if log:
            log(" ".join(str(x) for x in a))

    for i, op in enumerate(ops):
        name = op["op"] + (":" + op["algo"] if "algo" in op else "")
        prefix = dict(kind=kind, ops=ops[:i + 1])
        ctx = f"{kind} op#{i} {name}"
        stop = []

        def emit(sig, what, expected=None, observed=None, _stop=True):
            fails.append(dict(signature=sig, what=what, input=prefix, expected=expected, observed=observed))
            say("   FAIL", sig, "-", what)
            if _stop:
                stop.append(sig)

        if op["op"] == "fit":
            try:
                with quiet():
                    if model is None:
                        nf, sd, noise = MODEL_SHAPES[kind]
                        model = synth.make_model(kind, nf, sd, noise)
                    model.fit(synth.make_data(cohort(kind, op["cohort"], messy=False), kind), "mcmc_saem", n_iter=op["n_iter"],
                              seed=op["seed"], progress_bar=False)
                cls = var_classes(model)
                ind_after_fit = {n: canon(v) for n, v in model.state._values.items() if cls[n] == "IndividualLatentVariable"}
                count("op:fit")
                say(f"#{i} fit n_iter={op['n_iter']}: parameters {digest(canon(model.parameters))}")
            except Exception as e:
                count(f"fit-aborted:{type(e).__name__}")
                say(f"#{i} fit aborted: {type(e).__name__}: {e}")
                break     # not a C13 matter (fit is out of the property's scope)
            continue
        if op["op"] == "load":
            with quiet():
                model = BaseModel.load(saved or base_model_path(kind, wd))
            ind_after_fit = None
            count("op:load")
            say(f"#{i} load ({'saved in this sequence' if saved else 'base model'})")
            continue
        if model is None:
            raise Abort("sequence must start with fit or load")
        if op["op"] == "save":
            saved = os.path.join(wd, f"saved_{i}.json")
            with quiet():
                model.save(saved)
            count("op:save")
            say(f"#{i} save")
            continue

        # ---- estimate / personalize / simulate: the calls the property is about
        pre = snapshot(model)
        fresh = fresh_copy(model, wd)
        built, watch = build_inputs(model, op, kind)
        before = [(lbl, canon(o)) for lbl, o in watch]
        r1 = public_call(model, op, kind, built)
        aborted = isinstance(r1, tuple) and bool(r1) and r1[0] == "exc"
        c1 = result_canon(r1)
        count(f"op:{name}" + (":raises" if aborted else ""))
        say(f"#{i} {name}: " + (f"raises {r1[1]}: {r1[2]}" if aborted else f"result {digest(c1)}"))
        post = snapshot(model)

        def emit_state(sig, what, expected=None, observed=None):
            # the listed defect: an MCMC personalisation of a mixture model that aborts (it always does: RuntimeError / IndexError in
            # time_reparametrization; ValueError when a diverged fit left NaN probabilities) has already written its data into model.state
            if aborted and kind == "mixture_logistic" and op.get("algo") in MCMC and sig.startswith("state:call-values-left-behind"):
                sig = MIX_SIG
            emit(sig, what, expected, observed)

        compare_snapshots(pre, post, ctx=ctx, emit=emit_state, aborted=aborted)
        # caller objects
        for (lbl, was), (_, obj) in zip(before, watch):
            now = canon(obj)
            if now != was:
                emit(f"caller:{lbl}-modified:{name}", f"{ctx}: the caller's {lbl} object is not what it was before the call: "
                     f"{first_diff(was, now)}", _stop=False)
        if "table" in dict(watch):
            tbl = dict(watch)["table"]
            ref = cohort(kind, op["cohort"])
            ref = subset(ref, kind, op["ids"])
            if not (tbl.equals(ref) and list(tbl.columns) == list(ref.columns) and list(tbl.index) == list(ref.index)
                    and list(tbl.dtypes) == list(ref.dtypes)):
                emit(f"caller:table-modified:{name}", f"{ctx}: DataFrame.equals / dtypes / index / column order differ from the rebuilt table", _stop=False)
        if stop:
            break
        # repeated call, same objects (settings reuse)
        r2 = public_call(model, op, kind, built)
        c2 = result_canon(r2)
        post2 = snapshot(model)
        if c2 != c1:
            emit(f"repeat:different-answer:{name}", f"{ctx}: the same call repeated with the same (re-used) input and settings objects gives "
                 f"a different answer: {first_diff(c1, c2)}", expected=digest(c1), observed=digest(c2), _stop=False)
        compare_snapshots(pre, post2, ctx=ctx + " (repeated)", emit=emit_state, aborted=aborted)
        for (lbl, was), (_, obj) in zip(before, watch):
            if canon(obj) != was:
                emit(f"caller:{lbl}-modified:{name}", f"{ctx}: the caller's {lbl} object changed during the repeated call", _stop=False)
        # the same call on a fresh object with the same parameters
        if not same_parameters(fresh, model):
            count("history-check-skipped:save-load-not-exact(C12)")
        else:
            fbuilt, _ = build_inputs(fresh, op, kind)
            rf = public_call(fresh, op, kind, fbuilt)
            cf = result_canon(rf)
            same = (cf == c1) if not (aborted or (isinstance(rf, tuple) and rf and rf[0] == "exc")) else (cf[:2] == c1[:2])
            count("history-check")
            if not same:
                ind_before = {n: v for n, v in pre["call"].items() if n in (ind_after_fit or {})}
                from_fit = (op.get("algo") == "scipy_minimize" and ind_after_fit is not None and ind_before == ind_after_fit
                            and all(v is not None for v in ind_before.values()))
                sig = F6_SIG if from_fit else f"history:result-depends-on-earlier-calls:{name}"
                what = (f"{ctx}: result differs from the same call on load(save(copy of the model)) — same parameters, inputs and seed: "
                        + (f"{c1[1]} vs {cf[1] if cf[0] == 'exc' else 'a result'}" if aborted or cf[0] == "exc" else first_diff(cf, c1)))
                emit(sig, what, expected=digest(cf), observed=digest(c1), _stop=False)
                say("      (fresh object: " + (f"raises {rf[1]}" if cf[0] == "exc" else f"result {digest(cf)}") + ")")
        if stop:
            break
    return dict(fails=fails, stats=stats, executed=i + 1 if ops else 0)


# ----------------------------------------------------------------------------- generation of sequences


def gen_sequence(rng):
    kinds, weights = zip(*KIND_WEIGHTS)
    kind = rng.choices(kinds, weights)[0]
    n = rng.randint(2, 6)
    ops = []
    menu = [("personalize:scipy_minimize", 20), ("personalize:mean_posterior", 15), ("personalize:mode_posterior", 15),
            ("estimate", 14), ("simulate", 10 if kind == "logistic" else 3), ("save", 6), ("load", 8), ("fit", 12)]
    names, w = zip(*menu)
    for j in range(n):
        if j == 0:
            what = "fit" if rng.random() < 0.65 else "load"
        else:
            what = rng.choices(names, w)[0]
        if what == "fit":
            ops.append(dict(op="fit", cohort=rng.randint(1, 5), n_iter=rng.randint(3, 7), seed=rng.randint(0, 99)))
        elif what in ("save", "load"):
            ops.append(dict(op=what))
        elif what == "estimate":
            ops.append(dict(op="estimate", form=rng.choice(["dict", "multiindex"]), n=rng.randint(1, 3), seed=rng.randint(0, 99)))
        elif what == "simulate":
            ops.append(dict(op="simulate", visits=rng.choice(["random", "random", "dataframe"]), seed=rng.randint(0, 99)))
        else:
            algo = what.split(":")[1]
            k = rng.randint(1, 2) if algo == "scipy_minimize" else rng.randint(1, 4)
            if algo != "scipy_minimize" and rng.random() < 0.25:
                k = 6          # as many individuals as the training cohort (what a fit leaves in the state then "fits" the new data)
            op = dict(op="personalize", algo=algo, cohort=rng.randint(1, 5), ids=rng.sample(range(6), k),
                      **{"as": rng.choice(["df", "df", "data", "dataset"])}, seed=rng.randint(0, 99))
            if algo in MCMC:
                op["n_iter"] = rng.randint(6, 14)
                if rng.random() < 0.35:
                    op["annealing"] = True
                if rng.random() < 0.3:
                    op["sampler_pop"] = rng.choice(["Gibbs", "FastGibbs", "Metropolis-Hastings"])
                    if rng.random() < 0.5:
                        op["sampler_pop_params"] = dict(acceptation_history_length=rng.choice([5, 25]), random_order_dimension=rng.random() < 0.5)
            ops.append(op)
    return dict(kind=kind, ops=ops)


DIRECTED = [
    # F6 and its neighbourhood
    dict(kind="logistic", ops=[dict(op="fit", cohort=1, n_iter=6, seed=3),
                               {"op": "personalize", "algo": "scipy_minimize", "cohort": 2, "ids": [0, 3], "as": "df", "seed": 5}]),
    dict(kind="logistic", ops=[dict(op="fit", cohort=1, n_iter=6, seed=3),
                               {"op": "personalize", "algo": "mean_posterior", "cohort": 2, "ids": [0, 1, 3], "as": "data", "seed": 5, "n_iter": 10, "annealing": True},
                               {"op": "personalize", "algo": "scipy_minimize", "cohort": 2, "ids": [0, 3], "as": "dataset", "seed": 5},
                               dict(op="estimate", form="multiindex", n=2, seed=4),
                               dict(op="simulate", visits="dataframe", seed=9)]),
    dict(kind="logistic", ops=[dict(op="load"),
                               {"op": "personalize", "algo": "mode_posterior", "cohort": 3, "ids": [1, 2], "as": "df", "seed": 8, "n_iter": 9, "annealing": True},
                               dict(op="simulate", visits="random", seed=2), dict(op="save"), dict(op="load"),
                               {"op": "personalize", "algo": "scipy_minimize", "cohort": 3, "ids": [1], "as": "df", "seed": 8}]),
    # settings of a fit reused for personalisations (population-sampler keys present): nothing of the model may move, the repeated
    # call answers the same, estimate answers as before
    dict(kind="logistic", ops=[dict(op="fit", cohort=1, n_iter=6, seed=3),
                               dict(op="estimate", form="dict", n=2, seed=4),
                               {"op": "personalize", "algo": "mean_posterior", "cohort": 2, "ids": [0, 1, 3], "as": "df", "seed": 5, "n_iter": 12, "sampler_pop": "Gibbs"},
                               {"op": "personalize", "algo": "mean_posterior", "cohort": 2, "ids": [0, 1, 3], "as": "df", "seed": 5, "n_iter": 12, "sampler_pop": "Gibbs"},
                               dict(op="estimate", form="dict", n=2, seed=4),
                               {"op": "personalize", "algo": "mode_posterior", "cohort": 2, "ids": [2, 4], "as": "data", "seed": 6, "n_iter": 10, "sampler_pop": "Metropolis-Hastings"},
                               dict(op="simulate", visits="random", seed=2)]),
    # the training cohort itself (same number of individuals as the values the fit left in the state) personalised right after the fit,
    # then again: the answer must be the one of a freshly loaded copy, both times
    dict(kind="logistic", ops=[dict(op="fit", cohort=2, n_iter=6, seed=4),
                               {"op": "personalize", "algo": "mean_posterior", "cohort": 2, "ids": [0, 1, 2, 3, 4, 5], "as": "df", "seed": 3, "n_iter": 10},
                               {"op": "personalize", "algo": "mean_posterior", "cohort": 2, "ids": [0, 1, 2, 3, 4, 5], "as": "df", "seed": 3, "n_iter": 10}]),
    dict(kind="linear", ops=[dict(op="fit", cohort=3, n_iter=5, seed=2),
                             {"op": "personalize", "algo": "mode_posterior", "cohort": 4, "ids": [5, 4, 3, 2, 1, 0], "as": "data", "seed": 7, "n_iter": 9}]),
    dict(kind="linear", ops=[dict(op="load"),
                             {"op": "personalize", "algo": "mode_posterior", "cohort": 3, "ids": [1, 2, 5], "as": "dataset", "seed": 8, "n_iter": 9, "sampler_pop": "FastGibbs",
                              "sampler_pop_params": dict(acceptation_history_length=5)},
                             dict(op="estimate", form="multiindex", n=2, seed=4)]),
    dict(kind="joint", ops=[dict(op="fit", cohort=2, n_iter=5, seed=1),
                            {"op": "personalize", "algo": "mean_posterior", "cohort": 2, "ids": [0, 2], "as": "data", "seed": 5, "n_iter": 8},
                            {"op": "personalize", "algo": "scipy_minimize", "cohort": 1, "ids": [4], "as": "data", "seed": 5},
                            dict(op="estimate", form="dict", n=2, seed=1)]),
    dict(kind="linear", ops=[dict(op="fit", cohort=4, n_iter=4, seed=2), dict(op="estimate", form="dict", n=3, seed=7),
                             {"op": "personalize", "algo": "mode_posterior", "cohort": 4, "ids": [5, 0], "as": "dataset", "seed": 1, "n_iter": 7},
                             dict(op="fit", cohort=3, n_iter=3, seed=2),
                             {"op": "personalize", "algo": "mean_posterior", "cohort": 1, "ids": [2], "as": "df", "seed": 1, "n_iter": 7}]),
]


# ----------------------------------------------------------------------------- workers (sub-processes: one torch thread each)


def worker_main(spec_path, out_path):
    from harness.common import use_impl
    use_impl()
    import torch
    torch.set_num_threads(1)
    spec = json.load(open(spec_path))
    wd = spec["wd"]
    os.makedirs(wd, exist_ok=True)
    out = []
    t_end = spec.get("deadline")
    for idx, seq in spec["seqs"]:
        if t_end and time.time() > t_end:
            out.append(dict(index=idx, skipped=True))
            continue
        t0 = time.time()
        try:
            res = run_sequence(seq, wd)
        except Exception as e:
            import traceback
            res = dict(fails=[], stats={}, executed=0, crashed=f"{type(e).__name__}: {e}\n{traceback.format_exc()[-1200:]}")
        res["index"] = idx
        res["wall"] = round(time.time() - t0, 2)
        out.append(res)
        json.dump(out, open(out_path + ".part", "w"), default=str)
    json.dump(out, open(out_path, "w"), default=str)


def run_workers(run: Run, seqs, n_workers, budget_s):
    from harness.common import VERIF, env_for_impl, PY
    os.makedirs(SCRATCH, exist_ok=True)
    root = tmpdir()
    procs = []
    deadline = time.time() + budget_s
    for w in range(n_workers):
        mine = [(i, s) for i, s in enumerate(seqs) if i % n_workers == w]
        if not mine:
            continue
        spec = os.path.join(root, f"spec{w}.json")
        outp = os.path.join(root, f"out{w}.json")
        json.dump(dict(seqs=mine, wd=os.path.join(root, f"w{w}"), deadline=deadline), open(spec, "w"))
        env = env_for_impl({"OMP_NUM_THREADS": "1", "MKL_NUM_THREADS": "1"})
        p = subprocess.Popen([PY, "-m", "harness.props.c13", "--worker", spec, outp], cwd=str(VERIF), env=env,
                             stdout=subprocess.PIPE, stderr=subprocess.STDOUT, text=True)
        procs.append((w, p, outp, mine))
    results = {}
    for w, p, outp, mine in procs:
        try:
            txt, _ = p.communicate(timeout=max(30, deadline - time.time() + 90))
        except subprocess.TimeoutExpired:
            p.kill()
            txt, _ = p.communicate()
        src = outp if os.path.exists(outp) else outp + ".part"
        if os.path.exists(src):
            for r in json.load(open(src)):
                results[r["index"]] = r
        if p.returncode != 0 and not os.path.exists(outp):
            run.broken(f"oracle-worker-{w}", f"worker exited with {p.returncode}\n{txt[-1500:]}", kind="broken-correspondence")
    shutil.rmtree(root, ignore_errors=True)
    return results


def nontrivial(seq):
    """A call the property is about, made on an object that has a history (a fit or another such call before it)."""
    seen = False
    for op in seq["ops"]:
        if op["op"] in ("personalize", "estimate", "simulate"):
            if seen:
                return True
            seen = True
        elif op["op"] == "fit":
            seen = True
        elif op["op"] == "load":
            seen = False
    return False


def oracle_sequences(run: Run, thorough: bool):
    n = 600 if thorough else 60
    return list(DIRECTED) + [gen_sequence(run.rng("seq", i)) for i in range(n)]


def oracle_merge(run: Run, seqs, results):
    done = skipped = 0
    for i, seq in enumerate(seqs):
        r = results.get(i)
        if r is None or r.get("skipped"):
            skipped += 1
            continue
        if r.get("crashed"):
            run.broken("oracle-sequence-crashed", json.dumps(seq) + "\n" + r["crashed"], kind="broken-correspondence")
            continue
        done += 1
        run.case(("seq", json.dumps(seq, sort_keys=True)), nontrivial=nontrivial(seq))
        run.count("sequence_length", len(seq["ops"]))
        run.count("sequence_kind", seq["kind"])
        run.count("sequence_executed_ops", r["executed"])
        for k, v in r["stats"].items():
            run.count("calls", k, v)
        for f in r["fails"]:
            run.fail(f["signature"], f["what"], f["input"], f.get("expected"), f.get("observed"))
    run.extra["oracle_sequences"] = dict(planned=len(seqs), executed=done, skipped_for_time=skipped)
    if done < min(len(seqs), 12):
        run.broken("oracle-too-few-sequences", f"only {done} of {len(seqs)} sequences could be executed", kind="broken-correspondence")
    for s in seqs[:2] + seqs[len(DIRECTED):len(DIRECTED) + 2]:
        run.sample(dict(kind="call-sequence", sequence=s))


# ----------------------------------------------------------------------------- trace correspondence (decided inside Coq)

TIE_HEADER = ("From Coq Require Import List Arith Bool. Import ListNotations.\n"
              "From Leaspy Require Import Api.ApiModel Api.ApiInst Api.ApiTie Api.ApiCalls Api.ApiCallsTie.\n")


# compute_individual_trajectory per kind: (data variables assigned after "t", variables read at the end)
ESTIMATE_SHAPE = {"*": ([], ["model"]), "joint": (["event"], ["model", "predictions_event"])}


class EncodeError(Exception):
    pass


def encode_call(events, var_ix):
    """Recorded events of ONE public call -> [(kind, ref, var)] (ApiTie.v conventions).  ref 0 = model.state at the start of the
    call, i+1 = i-th State created by a clone during the call.  Reads nested inside another State method (cache filling, the
    reads of a save, ...) are internal to that method in the model and dropped; `put` is represented by its nested `set`s."""
    from harness.recorder import SEED_FUNCS
    cur = None
    loc = {}
    out = []
    last_set = {}

    def ref(sid):
        if sid == cur:
            return 0
        if sid in loc:
            return loc[sid] + 1
        raise EncodeError(f"operation on state {sid}: neither the model's state nor created by this call")

    for e in events:
        k = e["k"]
        if k == "rng":
            fn = e["fn"]
            g = 0 if fn.startswith("random.") else 1 if fn.startswith("numpy.") else 2
            out.append((7 if fn in SEED_FUNCS else 6, 0, g))
            continue
        if k in ("put", "precompute_all", "obs_enter", "obs_exit"):
            continue
        if cur is None:
            cur = e["prev"] if k == "replace" else e["sid"]
        if k == "replace":
            out.append((8, ref(e["sid"]), 0))
            # the model's state is now the replaced one; keep numbering: former Cur is not addressed any more by the model scripts
            continue
        if k == "get":
            if e["depth"] > 0:
                continue
            out.append((0, ref(e["sid"]), var_ix[e["var"]]))
        elif k == "isset":
            if e["depth"] > 0:
                continue
            out.append((9, ref(e["sid"]), var_ix[e["var"]]))
        elif k == "set":
            out.append((2 if e.get("unset") else 1, ref(e["sid"]), var_ix[e["var"]]))
            last_set[e["sid"]] = var_ix[e["var"]]
        elif k == "clone":
            loc[e["child"]] = len(loc)
            out.append((3, ref(e["sid"]), 0))
        elif k == "save":
            out.append((4, ref(e["sid"]), 0))
        elif k == "revert":
            out.append((5, ref(e["sid"]), last_set.get(e["sid"], 0)))
        else:
            raise EncodeError(f"unknown recorded operation {k}")
    return out


def coq_trace(t):
    return coq_list([f"({a},{b},{c})" for a, b, c in t])


def coq_nats(l):
    return coq_list([str(int(x)) for x in l])


SRC_HEADER = ("From Coq Require Import List Arith Bool String. Import ListNotations.\n"
              "From Leaspy Require Import Api.ApiModel Api.ApiInst Api.ApiTie Api.ApiCalls Api.ApiCallsTie Api.SrcProg Api.SrcProgTie.\n")
SRC_CASE = "sinst * list (option unit) * list rop"
FLOW_HEADER = SRC_HEADER + "From Leaspy Require Import Api.SrcFlow Api.SrcFlowTie.\n"
FLOW_CASE = "list (list nat) * list nat * sinst"


def coq_s(x: str) -> str:
    return '"' + x.replace('"', '""') + '"%string'


def coq_sinst(var_ix, groups, n, keys=None, reads=None, work=None, rep=None):
    """Static part of an instance of Api/SrcProg.v (SrcProgTie.sinst) as a Coq literal."""
    names = coq_list([f"({coq_s(k)}, {v})" for k, v in sorted(var_ix.items())])
    g = [coq_nats(groups.get(k, [])) for k in ("obs", "ind", "params", "hyper", "scal")]
    ks = coq_list([f"({coq_s(d)}, {coq_list([coq_nats(l) for l in per])})" for d, per in sorted((keys or {}).items())])
    rd = coq_list([f"({v}, {coq_nats(l)})" for v, l in sorted((reads or {}).items())])
    wk = coq_list([f"({coq_s(tag)}, {coq_list([coq_trace(t) for t in per])})" for tag, per in sorted((work or {}).items())])
    rp = coq_list([f"({coq_s(tag)}, {coq_nats(per)})" for tag, per in sorted((rep or {}).items())])
    return f"(SInst {names} {' '.join(g)} {n} {ks} {rd} {wk} {rp})"


def model_groups(model, var_ix):
    cls = var_classes(model)
    return dict(obs=[var_ix[om.name] for om in model.obs_models],
                ind=[var_ix[n] for n in sorted(n for n in var_ix if cls[n] == "IndividualLatentVariable")],
                params=[var_ix[n] for n in model.parameters_names],
                hyper=[var_ix[n] for n in model.hyperparameters_names])


def cut_mcmc(t, g, var_ix):
    """Instance parts of a recorded MCMC personalisation that the program leaves open: what the initialisation functions read,
    the sampler activity (everything between the initial values and the first clone), the keys assigned on the last clone.
    A wrong cut is harmless: Coq re-derives the script from the program and compares it with the WHOLE trace."""
    pos = 3 + 1 + len(g["obs"])
    reads = {}
    for n in g["ind"]:
        r = []
        while pos < len(t) and not (t[pos][0] in (1, 2) and t[pos][1] == 0 and t[pos][2] == n):
            if t[pos][0] == 3:
                break
            r.append(t[pos][2])
            pos += 1
        reads[n] = r
        pos += 1
    end = next((i for i in range(pos, len(t)) if t[i][0] == 3), len(t))
    work = t[pos:end]
    last = max((i for i, e in enumerate(t) if e[0] == 3), default=len(t))
    keys = [e[2] for e in t[last + 2 + len(g["obs"]):]]
    return reads, work, keys


def cut_scipy(t, g, n_ind):
    """Scalings read on the model's state, then per individual the activity of put_individual_parameters and of the optimiser
    (maximal runs of operations on that individual's clone)."""
    pos = 3
    scal = []
    while pos < len(t) and t[pos][0] == 0 and t[pos][1] == 0:
        scal.append(t[pos][2])
        pos += 1
    put, pat = [], []
    for j in range(n_ind):
        pos += 2 + len(g["obs"])
        w = []
        while pos < len(t) and (t[pos][0] == 6 or (t[pos][1] == j + 1 and t[pos][0] not in (3, 7, 8))):
            w.append(t[pos])
            pos += 1
        put.append(w)
    for j in range(n_ind):
        w = []
        while pos < len(t) and (t[pos][0] == 6 or (t[pos][1] == j + 1 and t[pos][0] not in (3, 7, 8))):
            w.append(t[pos])
            pos += 1
        pat.append(w)
    return scal, put, pat


def record_call(model, op, kind):
    from harness.recorder import Recorder
    built, _ = build_inputs(model, op, kind)
    with quiet():
        with Recorder(observers=False) as rec:
            res = public_call(model, op, kind, built)
    return rec.events, res


def trace_tie(run: Run, thorough: bool, src_ok: bool = False):
    """Recorded State operations of the real calls vs the model's scripts (and, when the translation of this run succeeded,
    vs the programs regenerated from the source), inside Coq."""
    from harness import synth
    from leaspy.models import BaseModel
    wd = tmpdir()
    cases = {k: [] for k in ("estimate", "simulate", "mcmc", "scipy", "estimate_src", "mcmc_src", "scipy_src", "simulate_src",
                             "estimate_flow_src", "mcmc_flow_src", "scipy_flow_src")}
    meta = {k: [] for k in cases}
    kinds = ["logistic", "linear", "joint"] + (["shared_speed_logistic"] if thorough else [])
    try:
        for kind in kinds:
            nf, sd, noise = MODEL_SHAPES[kind]
            with quiet():
                fitted = synth.make_model(kind, nf, sd, noise)
                fitted.fit(synth.make_data(cohort(kind, 1, messy=False), kind), "mcmc_saem", n_iter=5, seed=2, progress_bar=False)
                p = os.path.join(wd, f"{kind}.json")
                fitted.save(p)
                loaded = BaseModel.load(p)
            names = sorted(fitted.dag.keys())
            var_ix = {n: i for i, n in enumerate(names)}
            cls = var_classes(fitted)
            anc = independent_ancestors(fitted)
            anc_l = coq_list([coq_nats([var_ix[a] for a in anc[n]]) for n in names])
            kept = [var_ix[n] for n in names if cls[n] in KEPT_CLASSES]
            dvars = [var_ix[n] for n in names if cls[n] == "DataVariable"]
            ivars = [var_ix[n] for n in names if cls[n] == "IndividualLatentVariable"]
            for hist, model in (("after-fit", fitted), ("after-load", loaded)):
                shape = coq_list(["Some tt" if model.state._values[n] is not None else "None" for n in names])
                # ---- estimate
                op = dict(op="estimate", form="dict", n=2, seed=3)
                ev, res = record_call(model, op, kind)
                tp, ip = make_estimate_input(kind, op, model)      # the call's inputs decide the model script
                extra, outs = ESTIMATE_SHAPE.get(kind, ESTIMATE_SHAPE["*"])
                reqs = coq_list([coq_nats([var_ix[n] for n in extra + list(ip[i].keys())]) for i in tp])
                try:
                    t = encode_call(ev, var_ix)
                except EncodeError as e:
                    tie_broken(run, "estimate", "foreign-state", str(e), dict(kind=kind, ops=[op], history=hist))
                    t = None
                if t is not None and src_ok:
                    g = model_groups(model, var_ix)
                    si = coq_sinst(var_ix, g, len(tp), keys={"individual_parameters": [[var_ix[n] for n in ip[i].keys()] for i in tp]})
                    cases["estimate_src"].append(f"({'true' if kind == 'joint' else 'false'}, {si}, {shape}, {coq_trace(t)})")
                    meta["estimate_src"].append(dict(kind=kind, history=hist, op=op, trace=t))
                    cases["estimate_flow_src"].append(f"({'true' if kind == 'joint' else 'false'}, {anc_l}, {coq_nats(kept)}, {si})")
                    meta["estimate_flow_src"].append(dict(kind=kind, history=hist, op=op, trace=t))
                if t is not None:
                    cases["estimate"].append(f"({anc_l}, {coq_nats(kept)}, {var_ix['t']}, {coq_nats([var_ix[n] for n in outs])}, {reqs}, {shape}, {coq_trace(t)})")
                    meta["estimate"].append(dict(kind=kind, history=hist, op=op, trace=t))
                # ---- simulate (logistic only: the algorithm refuses the other kinds)
                if kind == "logistic":
                    for vis in ("random", "dataframe"):
                        op = dict(op="simulate", visits=vis, seed=4)
                        ev, res = record_call(model, op, kind)
                        try:
                            t = encode_call(ev, var_ix)
                            if src_ok:
                                cases["simulate_src"].append(f"({coq_sinst(var_ix, model_groups(model, var_ix), 0)}, {coq_trace(t)})")
                                meta["simulate_src"].append(dict(kind=kind, history=hist, op=op, trace=t))
                            cases["simulate"].append(f"({anc_l}, {coq_nats(kept)}, {shape}, {coq_trace(t)})")
                            meta["simulate"].append(dict(kind=kind, history=hist, op=op, trace=t))
                        except EncodeError as e:
                            tie_broken(run, "simulate", "foreign-state", str(e), dict(kind=kind, ops=[op], history=hist))
                # ---- scipy_minimize (on a deep copy when the object is to be re-used with its history)
                op = {"op": "personalize", "algo": "scipy_minimize", "cohort": 2, "ids": [0, 3], "as": "data", "seed": 5}
                ev, res = record_call(model, op, kind)
                if not (isinstance(res, tuple) and res and res[0] == "exc"):
                    try:
                        t = encode_call(ev, var_ix)
                        if src_ok:
                            g = model_groups(model, var_ix)
                            scal, put, pat = cut_scipy(t, g, 2)
                            g["scal"] = scal
                            si = coq_sinst(var_ix, g, 2, work={"put_individual_parameters": put, "patient": pat})
                            cases["scipy_src"].append(f"({si}, {shape}, {coq_trace(t)})")
                            meta["scipy_src"].append(dict(kind=kind, history=hist, op=op, trace=t))
                            cases["scipy_flow_src"].append(f"({anc_l}, {coq_nats(kept)}, {si})")
                            meta["scipy_flow_src"].append(dict(kind=kind, history=hist, op=op, trace=t))
                        cases["scipy"].append(f"({anc_l}, {coq_nats(kept)}, {coq_nats(dvars)}, {coq_nats(ivars)}, {shape}, 2, {coq_trace(t)})")
                        meta["scipy"].append(dict(kind=kind, history=hist, op=op, trace=t,
                                                  ind_set=all(model.state._values[n] is not None for n in names if var_ix[n] in ivars)))
                    except EncodeError as e:
                        tie_broken(run, "scipy", "foreign-state", str(e), dict(kind=kind, ops=[op], history=hist))
                else:
                    run.count("trace_skipped", f"scipy_minimize raises on {kind} {hist} ({res[1]})")
            # ---- MCMC personalisation last (it replaces the state): on both objects
            for hist, model in (("after-fit", fitted), ("after-load", loaded)):
                for algo in MCMC if (thorough or kind == "logistic") else MCMC[:1]:
                    op = {"op": "personalize", "algo": algo, "cohort": 2, "ids": [0, 1, 3], "as": "data", "seed": 5, "n_iter": 4}
                    shape = coq_list(["Some tt" if model.state._values[n] is not None else "None" for n in names])
                    ev, res = record_call(model, op, kind)
                    if isinstance(res, tuple) and res and res[0] == "exc":
                        run.count("trace_skipped", f"{algo} raises on {kind} {hist} ({res[1]})")
                        continue
                    try:
                        t = encode_call(ev, var_ix)
                        if src_ok:
                            g = model_groups(model, var_ix)
                            reads, work, keys = cut_mcmc(t, g, var_ix)
                            si = coq_sinst(var_ix, g, 3, keys={"pyt_individual_parameters": [keys]}, reads=reads, work={"sampling": [work]})
                            cases["mcmc_src"].append(f"({si}, {shape}, {coq_trace(t)})")
                            meta["mcmc_src"].append(dict(kind=kind, history=hist, op=op, trace=t))
                            cases["mcmc_flow_src"].append(f"({anc_l}, {coq_nats(kept)}, {si})")
                            meta["mcmc_flow_src"].append(dict(kind=kind, history=hist, op=op, trace=t))
                        cases["mcmc"].append(f"({anc_l}, {coq_nats(kept)}, {coq_nats(dvars)}, {coq_nats(ivars)}, {shape}, {coq_trace(t)})")
                        meta["mcmc"].append(dict(kind=kind, history=hist, op=op, trace=t))
                    except EncodeError as e:
                        tie_broken(run, "mcmc", "foreign-state", str(e), dict(kind=kind, ops=[op], history=hist))
    finally:
        shutil.rmtree(wd, ignore_errors=True)

    run.log(f"recorded {sum(len(v) for v in cases.values())} real calls")
    checks = [("estimate", "list (list nat) * list nat * nat * list nat * list (list nat) * list (option unit) * list rop", "check_estimate_call"),
              ("simulate", "list (list nat) * list nat * list (option unit) * list rop", "check_simulate_call"),
              ("mcmc", "list (list nat) * list nat * list nat * list nat * list (option unit) * list rop", "check_mcmc_call"),
              ("scipy", "list (list nat) * list nat * list nat * list nat * list (option unit) * nat * list rop", "check_scipy_call")]
    if src_ok:
        checks += [("estimate_src", "bool * " + SRC_CASE, "check_estimate_src"), ("mcmc_src", SRC_CASE, "check_mcmc_src"),
                   ("scipy_src", SRC_CASE, "check_scipy_src"), ("simulate_src", "sinst * list rop", "check_simulate_src"),
                   # hypotheses of C13_src_mcmc_history_independent / C13_src_estimate_history_independent on the recorded instance
                   ("estimate_flow_src", "bool * " + FLOW_CASE, "check_estimate_flow_src"), ("mcmc_flow_src", FLOW_CASE, "check_mcmc_flow_src")]
    for name, ty, chk in checks:
        header = FLOW_HEADER if name.endswith("_flow_src") else SRC_HEADER if name.endswith("_src") else TIE_HEADER
        if not cases[name]:
            run.broken(f"trace:{name}:no-case", "no recorded call could be encoded", kind="broken-correspondence")
            continue
        bad = run.vm_bad_indices(f"tie_{name}", header, ty, cases[name], chk)
        for m in meta[name]:
            run.case(("trace", name, m["kind"], m["history"], json.dumps(m["op"], sort_keys=True)), nontrivial=True)
            run.count("trace_ops", f"{name}:{m['kind']}", len(m["trace"]))
        for i in bad or []:
            m = meta[name][i]
            if name.endswith("_flow_src"):
                tie_broken(run, name, "flow-hypotheses-of-the-generated-program-not-met",
                           f"recorded {name[:-9]} call on a {m['kind']} model ({m['history']}): the hypotheses of C13_src_{name[:-9]}_history_independent "
                           f"(what the call reads is determined by kept variables + what it assigned; kept + data + individual variables closed) "
                           f"do not hold on the recorded instance, or the script denoted by coq/gen/GenC13.v fails the flow check",
                           dict(kind=m["kind"], history=m["history"], ops=[m["op"]]))
                continue
            if name.endswith("_src"):
                tie_broken(run, name, "not-an-execution-of-the-generated-program",
                           f"recorded {name[:-4]} call on a {m['kind']} model ({m['history']}) is not an execution of the program "
                           f"regenerated from the source (coq/gen/GenC13.v)", dict(kind=m["kind"], history=m["history"], ops=[m["op"]]))
                continue
            why = explain(name, m)
            tie_broken(run, name, why[0], f"recorded {name} call on a {m['kind']} model ({m['history']}) is not the model's script: {why[1]}",
                       dict(kind=m["kind"], history=m["history"], ops=[m["op"]]))
    # scipy_minimize: the flow check (hypothesis of C13_history_independent) on the recorded trace.  It is EXPECTED to pass when
    # the property holds; in the faithful model it does not (C13_scipy_start_refuted): the call reads the set/unset status and
    # the values of the individual variables of a clone of model.state before assigning them.
    if cases["scipy"]:
        flow_cases = [c for c in cases["scipy"]]
        bad = run.vm_bad_indices("tie_scipy_flow", TIE_HEADER,
                                 "list (list nat) * list nat * list nat * list nat * list (option unit) * nat * list rop", flow_cases,
                                 "check_scipy_flow")
        # the flow check is SUFFICIENT for history independence, not necessary: a rejection is reported as the finding only
        # together with a concrete reproduction on the code (oracle, same signature); alone it is recorded in the evidence
        run.extra["scipy_flow_check"] = dict(traces=len(flow_cases), rejected=len(bad or []),
                                             rejected_on=[f"{meta['scipy'][i]['kind']}:{meta['scipy'][i]['history']}" for i in bad or []],
                                             note="C13_history_independent's hypothesis evaluated on the recorded call; expected to be "
                                                  "rejected as long as finding F6 stands (C13_scipy_start_refuted)")
        run.extra["_scipy_flow_rejected"] = [dict(kind=meta["scipy"][i]["kind"], history=meta["scipy"][i]["history"], ops=[meta["scipy"][i]["op"]])
                                             for i in bad or []]
    if cases["scipy_flow_src"]:
        # C13_src_scipy_flow_refuted, part (1): its hypotheses (the per-individual initialisation starts by reading a variable that kept +
        # data variables do not determine) evaluated on the recorded instance; EXPECTED to hold as long as finding F6 stands.  Evidence
        # only: a repaired scipy_minimize makes them false, which is no alarm.
        bad = run.vm_bad_indices("tie_scipy_flow_src", FLOW_HEADER, FLOW_CASE, cases["scipy_flow_src"], "check_scipy_flow_src")
        run.extra["scipy_src_flow_refutation"] = dict(
            instances=len(cases["scipy_flow_src"]), refutation_applies=len(cases["scipy_flow_src"]) - len(bad or []),
            not_applicable_on=[f"{meta['scipy_flow_src'][i]['kind']}:{meta['scipy_flow_src'][i]['history']}" for i in bad or []],
            note="hypotheses of C13_src_scipy_flow_refuted (generated program, recorded instance): first operation of put_individual_parameters "
                 "on the clone is a read of a variable not determined by kept + data variables, and the denoted script fails the flow check")
    if meta["estimate"]:
        m = meta["estimate"][0]
        run.sample(dict(kind="trace", call="estimate", model=m["kind"], history=m["history"], recorded=m["trace"][:14]))
    if meta["mcmc"]:
        m = meta["mcmc"][0]
        run.sample(dict(kind="trace", call=m["op"]["algo"], model=m["kind"], history=m["history"], recorded_head=m["trace"][:16],
                        recorded_tail=m["trace"][-12:], length=len(m["trace"])))


def tie_broken(run, call, why, detail, inp):
    """A recorded call that does not have the shape the theorems are about: the correspondence is broken (the sequence oracle
    decides whether there is a failing input)."""
    run.broken(f"trace:{call}:{why}", detail + "\ninput: " + json.dumps(inp), kind="broken-correspondence")


KINDS_TXT = {0: "get", 1: "set", 2: "unset", 3: "clone", 4: "save", 5: "revert", 6: "rng-draw", 7: "rng-seed", 8: "model.state :=", 9: "is_set"}


def explain(name, m):
    """Python-side reading of a failed Coq check (report only)."""
    t = m["trace"]
    for j, (k, r, v) in enumerate(t):
        if name in ("estimate", "simulate", "scipy") and r == 0 and k in (1, 2, 5):
            return ("writes-model-state", f"operation #{j} is a {KINDS_TXT[k]} of variable #{v} on the model's own state")
        if name in ("estimate", "simulate", "scipy") and k == 8:
            return ("replaces-model-state", f"operation #{j} replaces model.state")
        if name == "estimate" and k in (6, 7):
            return ("uses-generator", f"operation #{j} is a generator call")
    if name == "mcmc":
        if not any(k == 8 for k, _, _ in t):
            return ("no-cleaning", "the call never replaces model.state by a cleaned clone")
        return ("shape", "assignments outside data / individual variables on the model's state, or a termination that does not unset every data and individual variable")
    return ("shape", "sequence of (kind, state, variable) differs from the log emitted by the model script")


# ----------------------------------------------------------------------------- entry points


def build_tie(run: Run, src_ok: bool = False):
    from harness.common import make
    ok, out = make(["theories/Api/ApiCallsTie.vo"], jobs=8)
    if not ok:
        run.broken("build:ApiCallsTie", out[-1500:])
    ok2 = False
    if ok and src_ok:
        ok2, out = make(["theories/Api/SrcProgTie.vo", "theories/Api/SrcFlowTie.vo"], jobs=8)
        if not ok2:
            run.broken("build:SrcProgTie", out[-1500:])
    return ok, ok2


def customised_call_probe(run: Run):
    """A call made with customised algorithm settings must not change what a later DEFAULT call does (no state kept at class /
    module level): default call -> customised call -> the same default call again, on a loaded model; first and third results must be
    bit-identical, and so must the same default call on a second, freshly loaded model object."""
    from leaspy.algo import AlgorithmSettings
    from leaspy.models import BaseModel
    wd = tmpdir()
    kind = "logistic"
    path = base_model_path(kind, wd)
    df = subset(cohort(kind, 2), kind, [0, 3, 4])
    customs = [("scipy_minimize", dict(use_jacobian=False, custom_scipy_minimize_params=dict(method="Powell", options=dict(maxiter=1, xtol=1e-1, ftol=1e-1)))),
               ("scipy_minimize", dict(use_jacobian=True, custom_scipy_minimize_params=dict(method="BFGS", options=dict(maxiter=1)))),
               ("mean_posterior", dict(n_iter=6, annealing=dict(do_annealing=True, n_plateau=2, initial_temperature=3.0))),
               ("mode_posterior", dict(n_iter=5, sampler_ind="Gibbs", sampler_ind_params=dict(acceptation_history_length=2, mean_acceptation_rate_target_bounds=(0.1, 0.5), adaptive_std_factor=0.3)))]
    defaults = [("scipy_minimize", {}), ("mean_posterior", dict(n_iter=8))]

    def call(model, algo, kw, seed=11):
        with quiet():
            st = AlgorithmSettings(algo, seed=seed, progress_bar=False, **copy.deepcopy(kw))
            ip = model.personalize(df.copy(), algorithm_settings=st)
        return canon(ip.to_dataframe().sort_index())
    for dalgo, dkw in defaults:
        for calgo, ckw in customs:
            desc = dict(kind=kind, default_call=dict(algo=dalgo, **dkw), customised_call=dict(algo=calgo, **ckw))
            run.case(("customised-then-default", dalgo, calgo, json.dumps(ckw, sort_keys=True, default=str)), nontrivial=True)
            try:
                with quiet():
                    m = BaseModel.load(path)
                first = call(m, dalgo, dkw)
                try:
                    call(m, calgo, ckw, seed=3)
                except Exception as e:      # a customised configuration the library refuses is not the subject here
                    run.count("customised_call_probe", f"customised call refused: {type(e).__name__}")
                third = call(m, dalgo, dkw)
                with quiet():
                    m2 = BaseModel.load(path)
                fresh = call(m2, dalgo, dkw)
            except Exception as e:
                run.fail(f"customised-call-probe:raises:{type(e).__name__}", f"{type(e).__name__}: {e}", desc)
                continue
            run.count("customised_call_probe", "compared")
            if first != third or first != fresh:
                run.fail(f"history:default-call-changed-by-an-earlier-customised-call:{dalgo}",
                         f"the default {dalgo} personalisation gives a different answer after a customised {calgo} call was made "
                         f"({'on the same model object' if first != third else 'on a freshly loaded model, same process'}): "
                         f"{first_diff(first, third if first != third else fresh)}", desc)
    shutil.rmtree(wd, ignore_errors=True)


def main(run: Run):
    from harness.common import use_impl
    t0 = time.time()
    thorough = run.tier == "thorough"
    os.makedirs(SCRATCH, exist_ok=True)
    run.rule = ("(a) recorded State operations of real estimate / simulate / scipy_minimize / mean_ and mode_posterior calls on fitted and on "
                "loaded models of several kinds, compared inside Coq with the scripts of Api/ApiCalls.v. (b) call sequences: 5 directed + "
                "seeded random ones (length 2..6, first call fit or load, then fit / personalize x3 / estimate / simulate / save / load; "
                "kinds weighted logistic 36, joint 20, linear 18, shared_speed 14, mixture 12; inputs as DataFrame / Data / Dataset with "
                "shuffled rows, non-default index, 8-decimal ages, a float32 column). Non-trivial = a call the property is about made on an "
                "object with a history (after a fit or another such call).")
    run.explanation = ("Unbounded statements are proved on the script model; the per-run checks establish that the real calls have the "
                       "scripts' shape and search the implementation for a sequence after which the model, a caller object or a result "
                       "is not what the property says. Everything is compared bit-for-bit (n_jobs=1, one process).")
    run.assumptions += [
        "behaviour of one State object = the ten facts of `state_interface` (C01's cache theorems; proved for the memo table of ApiInst.v)",
        "sampler / optimiser activity is an arbitrary body that assigns only data / individual variables (checked on every recorded trace)",
        "save -> load reproduces the parameters exactly (C12); when it does not (float64 parameters of joint / mixture fits) the "
        "comparison with the fresh object is skipped and counted",
    ]
    run.assumptions += ["sampling_ok: the samplers of MCMC personalisation assign data / individual variables only (hypothesis of "
                        "C13_src_mcmc_call_clean, evaluated inside Coq on every recorded call)",
                        "the opaque callees (samplers, scipy's objective, put_individual_parameters) only touch the State they are handed: "
                        "checked syntactically by the translator"]
    run.trusted += ["harness/recorder.py (wrappers around State methods and RNG entry points)",
                    "Coq evaluation (vm_compute) of Api/ApiCallsTie.v checkers on encoded traces",
                    "harness/props/c13.py canon(): bit-exact canonical form of tensors, arrays, tables and objects"]
    # the implementation-side search runs in sub-processes while this process proves and records traces
    import threading
    seqs = oracle_sequences(run, thorough)
    box, side = {}, Run("C13", run.tier, run.seed)       # the thread only collects; everything is merged in this thread
    th = threading.Thread(target=lambda: box.update(results=run_workers(side, seqs, 10 if thorough else 7, 1500 if thorough else 85)))
    th.start()
    # the settings object (c13_settings.py): the implementation side runs while Coq proves (no recorder is installed yet),
    # the Coq side runs beside the trace correspondence
    sbox = {}

    def guarded(f, *a):
        try:
            f(*a)
        except Exception as e:  # noqa
            import traceback
            sbox["error"] = f"{type(e).__name__}: {e}\n{traceback.format_exc()[-1200:]}"
    th_set = threading.Thread(target=guarded, args=(c13_settings.observe, run, thorough, sbox))
    th_set.start()
    th_vm = None
    try:
        ok_t = translate(run)
        run.prove("C13", OBLIGATIONS)
        run.log(f"proved {len(run.discharged)}/{len(OBLIGATIONS)} obligations")
        th_set.join()           # before any recorder is installed in this process
        if "error" in sbox:
            run.broken("settings-tie", sbox.pop("error"), kind="broken-correspondence")
        th_vm = threading.Thread(target=guarded, args=(c13_settings.compare, run, sbox))
        th_vm.start()
        ok_tie, ok_src = build_tie(run, ok_t)
        if ok_tie:
            use_impl()
            trace_tie(run, thorough, ok_src)
            run.log("trace correspondence done")
        try:
            use_impl()
            customised_call_probe(run)
            run.log("customised-call probe done")
        except Exception as e:  # noqa
            import traceback
            run.broken("customised-call-probe", f"{type(e).__name__}: {e}\n{traceback.format_exc()[-1200:]}", kind="broken-correspondence")
    finally:
        th_set.join()
        if th_vm is not None:
            th_vm.join()
            if "error" in sbox:
                run.broken("settings-tie", sbox["error"], kind="broken-correspondence")
            run.log("settings correspondence done")
        th.join()
        run.log("sequence oracle done")
        shutil.rmtree(SCRATCH, ignore_errors=True)
    run._broken += side._broken
    oracle_merge(run, seqs, box.get("results", {}))
    rejected = run.extra.pop("_scipy_flow_rejected", [])
    if rejected and F6_SIG in run._known_hit or any(f["signature"] == F6_SIG for f in run._fails):
        for inp in rejected:
            run.fail(F6_SIG, "recorded scipy_minimize call reads the individual latent variables of a clone of model.state (their set/unset "
                     "status, then their values as start point) before assigning them: the flow check of C13_history_independent rejects "
                     "the trace", inp)
    run.extra["wall_main_s"] = round(time.time() - t0, 1)
    return run.finish()


def replay(run: Run, path: str):
    from harness.common import use_impl
    use_impl()
    d = json.load(open(path))
    inp = d.get("input") or {}
    if "ops" not in inp and "kwargs" in inp and "name" in inp:
        return c13_settings.replay_one(run, inp)
    if "ops" not in inp:
        print("replay: this file records a broken obligation; re-running the check")
        return main(run)
    os.makedirs(SCRATCH, exist_ok=True)
    wd = tmpdir()
    try:
        print(f"replaying on {inp['kind']}: {len(inp['ops'])} calls" + (f" (model history: {inp['history']})" if "history" in inp else ""))
        seq = dict(kind=inp["kind"], ops=list(inp["ops"]))
        if inp.get("history") == "after-fit" and seq["ops"][0]["op"] not in ("fit", "load"):
            seq["ops"] = [dict(op="fit", cohort=1, n_iter=5, seed=2)] + seq["ops"]
        elif seq["ops"][0]["op"] not in ("fit", "load"):
            seq["ops"] = [dict(op="load")] + seq["ops"]
        res = run_sequence(seq, wd, log=print)
        sigs = sorted({f["signature"] for f in res["fails"]})
        want = d.get("signature")
        bad = bool(res["fails"]) if not want or want.startswith("trace:") else (want in sigs or bool(res["fails"]))
        if want and want.startswith("trace:"):
            print("(a trace-correspondence failure: the sequence above is the recorded call; run ./check C13 for the Coq-side comparison)")
        print("signatures:", sigs or "none")
        print("REPLAY", "FAILS" if bad else "passes")
        return 1 if bad else 0
    finally:
        shutil.rmtree(SCRATCH, ignore_errors=True)


if __name__ == "__main__":
    if len(sys.argv) >= 4 and sys.argv[1] == "--worker":
        worker_main(sys.argv[2], sys.argv[3])
